import RocflModel.Basic.Str
import RocflModel.Layout
import RocflModel.Spec.LayoutSpec
