import RocflModel.Basic.AList
/-
  Model of src/ocfl/inventory.rs, src/ocfl/bimap.rs (as association lists) and the path / version
  number parts of src/ocfl/types.rs — function for function, `file:line` anchors in the comments.
-/
namespace Rocfl

abbrev LPath := Str
/-- a content path `v<N>/<rest>`: the version directory it lives in (`ContentPath::version`) and the
    part below it (`<contentDirectory>/<logical path>` for paths rocfl creates) -/
abbrev CPath := Nat × Str
abbrev Digest := Str

inductive Err
  | notFound | invalid | illegalState | illegalOp | lockHeld | general | corrupt | io | closed
  | copyMove (n : Nat) | panic
  deriving DecidableEq, Repr

/-! ### version numbers (types.rs:267-316, 395-399) -/

structure VNum where
  number : Nat
  width : Nat
  deriving DecidableEq, Repr

def u32Max : Nat := 4294967295

/-- `VersionNum::next` (types.rs:297-315, after the `checked_pow` fix): `max` saturates at `u32::MAX` -/
def VNum.maxFor (width : Nat) : Nat :=
  if width = 0 then u32Max
  else if 10 ^ (width - 1) ≤ u32Max then 10 ^ (width - 1) - 1 else u32Max

def VNum.next (v : VNum) : Except Err VNum :=
  if v.number ≥ VNum.maxFor v.width then .error .illegalState
  else .ok { v with number := v.number + 1 }

/-- `VersionNum::previous` (types.rs:282-293) -/
def VNum.previous (v : VNum) : Except Err VNum :=
  if v.number - 1 < 1 then .error .illegalState else .ok { v with number := v.number - 1 }

def natDigits (n : Nat) : Str := (toString n).toList

/-- `Display`: `v{:0width$}` — pads the number with zeros to `width` digits (never truncates) -/
def VNum.display (v : VNum) : Str :=
  let d := natDigits v.number
  'v' :: (List.replicate (v.width - d.length) '0' ++ d)

/-! ### inventory paths (types.rs:577-632, 765-788) -/

def splitOnSlash (s : Str) : List Str :=
  match s with
  | [] => [[]]
  | c :: cs =>
    match splitOnSlash cs with
    | [] => [[c]]
    | h :: t => if c = '/' then [] :: h :: t else (c :: h) :: t

def trimLeadingSlashes : Str → Str
  | '/' :: cs => trimLeadingSlashes cs
  | s => s

def trimSlashes (s : Str) : Str := (trimLeadingSlashes (trimLeadingSlashes s).reverse).reverse

/-- `InventoryPathInner::try_from`: trim slashes; reject `.`, `..` and empty parts -/
def parsePath (s : Str) : Except Err Str :=
  let t := trimSlashes s
  if t.isEmpty then .ok t
  else if (splitOnSlash t).any (fun p => p == ['.'] || p == ['.', '.'] || p.isEmpty) then .error .invalid
  else .ok t

/-- index of the last `/` -/
def lastSlash (s : Str) : Option Nat :=
  let r := s.reverse
  match r.findIdx? (· == '/') with
  | none => none
  | some i => some (s.length - 1 - i)

/-- `parent()` -/
def parentPath (s : Str) : Str :=
  match lastSlash s with
  | some i => s.take i
  | none => []

/-- `filename()` -/
def fileName (s : Str) : Str :=
  match lastSlash s with
  | some i => s.drop (i + 1)
  | none => s

/-- `resolve()` -/
def resolvePath (a b : Str) : Str := if a.isEmpty then b else a ++ '/' :: b

/-- `p` lies beneath the directory `d` -/
def under (d p : Str) : Bool := (d ++ ['/']).isPrefixOf p

/-! ### versions -/

structure Meta where
  created : Str
  message : Option Str
  user : Option (Option Str × Option Str)
  deriving DecidableEq, Repr

/-- the metadata `Version::staged_version` writes (inventory.rs:621-632); `created` is "now" -/
def stagedMeta (now : Str) : Meta :=
  { created := now, message := some "Staging new version".toList,
    user := some (some "rocfl".toList, some "https://github.com/pwinckles/rocfl".toList) }

structure Version where
  state : List (LPath × Digest)
  vmeta : Meta
  deriving DecidableEq, Repr

namespace Version

def isFile (v : Version) (p : LPath) : Bool := AL.has v.state p

/-- `is_dir` — membership in `get_logical_dirs()`: the root, and every proper ancestor of a path
    (inventory.rs:683-685, 887-899, 911-922) -/
def isDir (v : Version) (p : LPath) : Bool := p.isEmpty || v.state.any (fun e => under p e.1)

/-- `validate_non_conflicting` (inventory.rs:695-713) -/
def conflicts (v : Version) (p : LPath) : Bool :=
  v.isDir p || v.state.any (fun e => under e.1 p)

/-- `add_file` (inventory.rs:867-875) -/
def addFile (v : Version) (d : Digest) (p : LPath) : Except Err Version :=
  if v.conflicts p then .error .illegalState
  else .ok { v with state := AL.insert v.state p d }

/-- `remove_file` (inventory.rs:878-884) -/
def removeFile (v : Version) (p : LPath) : Version := { v with state := AL.erase v.state p }

def lookup (v : Version) (p : LPath) : Option Digest := AL.get v.state p

/-- all proper ancestors of a path, e.g. `a/b/c` ↦ `a`, `a/b` -/
def ancestors (p : Str) : List Str :=
  (List.range p.length).filterMap (fun i => if p.getD i ' ' = '/' then some (p.take i) else none)

/-- `get_logical_dirs()` as a list (the root is the empty path) -/
def logicalDirs (v : Version) : List Str := ([] :: v.state.flatMap (fun e => ancestors e.1)).eraseDups

/-- `paths_with_prefix` (inventory.rs:777-793) -/
def pathsWithPrefix (v : Version) (pre : Str) : List LPath :=
  let pre' := if pre.isEmpty || pre.getLast? == some '/' then pre else pre ++ ['/']
  (AL.keys v.state).filter (fun p => pre'.isPrefixOf p)

end Version

/-! ### inventory -/

inductive SpecV | v1_0 | v1_1 deriving DecidableEq, Repr
inductive DAlg | sha256 | sha512 deriving DecidableEq, Repr

structure Inv where
  id : Str
  spec : SpecV
  alg : DAlg
  head : VNum
  contentDir : Str
  manifest : List (CPath × Digest)
  versions : List Version          -- `versions[i]` is version `i + 1`; `versions.length = head.number`
  deriving DecidableEq, Repr

namespace Inv

def getVersion (inv : Inv) (n : Nat) : Option Version := if n = 0 then none else inv.versions[n - 1]?

/-- `head_version()`; the model keeps `versions.length = head.number`, the fallback is never used on
    well-formed inventories (Rust: `unwrap`) -/
def headVersion (inv : Inv) : Version :=
  (inv.getVersion inv.head.number).getD { state := [], vmeta := stagedMeta [] }

def setHeadVersion (inv : Inv) (v : Version) : Inv :=
  { inv with versions := inv.versions.set (inv.head.number - 1) v }

/-- `new_content_path` (inventory.rs:471-473; types.rs:750-763) -/
def newContentPath (inv : Inv) (p : LPath) : CPath :=
  (inv.head.number, inv.contentDir ++ '/' :: p)

/-- `content_path.starts_with("<head>/")`: the content path lives in the head version directory -/
def inHead (inv : Inv) (cp : CPath) : Bool := cp.1 == inv.head.number

/-- the serialised form `v<N>/<rest>` (all versions of an object share the head's padding width) -/
def showCPath (inv : Inv) (cp : CPath) : Str :=
  ({ inv.head with number := cp.1 } : VNum).display ++ '/' :: cp.2

def isNew (inv : Inv) : Bool := inv.head.number == 1

/-- `create_staging_head` (inventory.rs:139-146) -/
def createStagingHead (inv : Inv) (now : Str) : Except Err Inv :=
  match inv.head.next with
  | .error e => .error e
  | .ok vn =>
    .ok { inv with head := vn, versions := inv.versions ++ [{ state := inv.headVersion.state, vmeta := stagedMeta now }] }

/-- all content paths recorded for a digest (`manifest.get_paths`) -/
def pathsFor (inv : Inv) (d : Digest) : List CPath :=
  (inv.manifest.filter (fun e => e.2 == d)).map (·.1)

/-- `content_path_for_digest` (inventory.rs:204-252).  Returns every *admissible* answer: when
    several content paths qualify and none has the preferred suffix, Rust returns the first in
    HashSet order — the model returns them all and callers / the correspondence quantify over them. -/
def contentPathsForDigest (inv : Inv) (d : Digest) (upTo : Nat) (lp : Option LPath) : Except Err (List CPath) :=
  let ms := (inv.pathsFor d).filter (fun cp => cp.1 ≤ upTo)
  if ms.isEmpty then .error .corrupt
  else
    match lp with
    | some p =>
      if ms.length > 1 then
        let suffix := '/' :: (inv.contentDir ++ '/' :: p)
        match ms.filter (fun cp => suffix.isSuffixOf ('/' :: cp.2)) with
        | [] => .ok ms
        | pref => .ok pref
      else .ok ms
    | none => .ok ms

/-- `content_path_for_logical_path` (inventory.rs:256-275) -/
def contentPathsForLogicalPath (inv : Inv) (p : LPath) (vn : Nat) : Except Err (List CPath) :=
  match inv.getVersion vn with
  | none => .error .notFound
  | some v =>
    match v.lookup p with
    | none => .error .notFound
    | some d => inv.contentPathsForDigest d vn (some p)

/-- `add_file_to_head` (inventory.rs:369-380) -/
def addFileToHead (inv : Inv) (d : Digest) (p : LPath) : Except Err Inv :=
  let inv' := { inv with manifest := AL.insert inv.manifest (inv.newContentPath p) d }
  match inv'.headVersion.addFile d p with
  | .error e => .error e
  | .ok v => .ok (inv'.setHeadVersion v)

/-- `copy_file_to_head` (inventory.rs:384-401, incl. the manifest clean-up fix) -/
def copyFileToHead (inv : Inv) (srcV : Nat) (src dst : LPath) : Except Err Inv :=
  match inv.getVersion srcV with
  | none => .error .notFound
  | some sv =>
    match sv.lookup src with
    | none => .error .notFound
    | some d =>
      match inv.headVersion.addFile d dst with
      | .error e => .error e
      | .ok v =>
        .ok { (inv.setHeadVersion v) with manifest := AL.erase inv.manifest (inv.newContentPath dst) }

/-- `move_file_in_head` (inventory.rs:405-424) -/
def moveFileInHead (inv : Inv) (src dst : LPath) : Except Err Inv :=
  match inv.headVersion.lookup src with
  | none => .error .notFound
  | some d =>
    match inv.headVersion.addFile d dst with
    | .error e => .error e
    | .ok v =>
      .ok { (inv.setHeadVersion (v.removeFile src)) with manifest := AL.erase inv.manifest (inv.newContentPath dst) }

/-- `move_new_in_head_file` (inventory.rs:433-456) -/
def moveNewInHeadFile (inv : Inv) (d : Digest) (src dst : LPath) : Except Err Inv :=
  let m := AL.insert (AL.erase inv.manifest (inv.newContentPath src)) (inv.newContentPath dst) d
  let inv' := { inv with manifest := m }
  match inv'.headVersion.addFile d dst with
  | .error e => .error e
  | .ok v => .ok (inv'.setHeadVersion (v.removeFile src))

/-- `remove_logical_path_from_head` (inventory.rs:461-476): returns the removed content path, if
    the file was added in the head version -/
def removeLogicalPathFromHead (inv : Inv) (p : LPath) : Inv × Option CPath :=
  if inv.headVersion.isFile p then
    let inv' := inv.setHeadVersion (inv.headVersion.removeFile p)
    let cp := inv.newContentPath p
    if AL.has inv.manifest cp then ({ inv' with manifest := AL.erase inv.manifest cp }, some cp)
    else (inv', none)
  else (inv, none)

/-- content paths of `d` that were added in the head version -/
def headPathsFor (inv : Inv) (d : Digest) : List CPath :=
  (inv.pathsFor d).filter (fun cp => inv.inHead cp)

/-- Is `keep` an admissible outcome of `dedup_head` for digest `d` (inventory.rs:320-361)?
    If every copy of the digest is new in the head, exactly one (any one) survives; if an earlier
    version already holds the digest, none of the new copies survives. -/
def dedupAdmissible (inv : Inv) (d : Digest) (keep : List CPath) : Bool :=
  let all := inv.pathsFor d
  let new := inv.headPathsFor d
  if all.length ≤ 1 then keep == new
  else if all.length == new.length then
    match keep with
    | [k] => new.contains k
    | _ => false
  else keep.isEmpty

/-- every digest's surviving paths are an admissible outcome of `dedup_head` -/
def keepAdmissible (inv : Inv) (keep : Digest → List CPath) : Bool :=
  (inv.manifest.map (·.2)).all (fun d => inv.dedupAdmissible d (keep d))

/-- `dedup_head` with the surviving new paths chosen by `keep : Digest → List CPath`
    (the HashSet iteration order of the implementation).  Returns the new inventory and the removed
    content paths. -/
def dedupHead (inv : Inv) (keep : Digest → List CPath) : Inv × List CPath :=
  let removed := inv.manifest.filter (fun e =>
    let all := inv.pathsFor e.2
    all.length > 1 && inv.inHead e.1 && !(keep e.2).contains e.1)
  ({ inv with manifest := inv.manifest.filter (fun e => !removed.contains e) }, removed.map (·.1))

/-- the deterministic choice the driver uses when the implementation's choice is not observable -/
def defaultKeep (inv : Inv) (d : Digest) : List CPath :=
  let all := inv.pathsFor d
  let new := inv.headPathsFor d
  if all.length ≤ 1 then new
  else if all.length == new.length then new.take 1 else []

/-- `update_meta` (inventory.rs:634-641) -/
def updateMeta (inv : Inv) (m : Meta) : Inv := inv.setHeadVersion { inv.headVersion with vmeta := m }

end Inv
end Rocfl
