import RocflModel.Basic.Str
/-
  Model of `validate_version_nums` (src/ocfl/validate/serde.rs, after the repair) with a cost
  counter: the loop over the sorted version numbers of an inventory, reporting every missing
  version (E010) up to a limit per gap and one range beyond it.  `work` counts loop iterations plus
  emitted results — what time and memory are proportional to.
-/
namespace Rocfl.ValidateNums

def maxMissing : Nat := 100
def u32Max : Nat := 4294967295

structure Acc where
  next : Nat          -- `next_version.number`
  e010 : Nat := 0     -- E010 results emitted
  work : Nat := 0     -- loop iterations + emitted results
  stopped : Bool := false   -- left the loop at u32::MAX
  deriving Repr

/-- one iteration of the outer `for version in version_nums` loop -/
def stepVersion (a : Acc) (v : Nat) : Acc :=
  if a.stopped then a else
  -- the inner `while`, at most `maxMissing` iterations, then one summarising error
  let gap := v - a.next
  let reported := min gap maxMissing
  let summarised := if gap > maxMissing then 1 else 0
  let next' := v          -- either counted up to `v` or jumped to it
  let a' := { a with e010 := a.e010 + reported + summarised, work := a.work + 1 + reported + summarised }
  if next' ≥ u32Max then { a' with next := next', stopped := true } else { a' with next := next' + 1 }

/-- `validate_version_nums` over the ascending list of version numbers (a `BTreeSet`) -/
def run (versions : List Nat) : Acc := versions.foldl stepVersion { next := 1 }

/-- the loop before the repair: one iteration and one E010 per missing version number -/
def workBefore (versions : List Nat) : Nat :=
  (versions.foldl (fun (p : Nat × Nat) v => (v + 1, p.2 + 1 + (v - p.1))) (1, 0)).2

end Rocfl.ValidateNums
