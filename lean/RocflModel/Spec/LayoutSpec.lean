import RocflModel.Layout
/-
  Independent specification of the five storage-layout extensions, written from
  resources/main/specs/000{2,3,4,6,7}-*.md (not from layout.rs).
  Only the *data types* (`Cfg`, `Alg`, `Pad`, `MapErr`, `CaseMap`) are shared with the model.
-/
namespace Rocfl.Spec.Layout

open Rocfl Rocfl.Layout

/-- 0003/0004 "An integer between 0 and 32 inclusive"; "If tupleSize is set to 0 … numberOfTuples MUST
    also equal 0" (and vice versa); "The product … MUST be less than or equal to the number of characters
    in the hex encoded digest".  0004: "If the product … is equal to the number of characters in the hex
    encoded digest, then shortObjectRoot MUST be false."  0006/0007: delimiter "Must not be empty";
    0007 tupleSize / numberOfTuples "between 1 and 32 inclusive". -/
def validCfg : Cfg → Bool
  | .flatDirect => true
  | .hashedNTuple alg ts nt short =>
      decide (ts ≤ 32) && decide (nt ≤ 32) && decide (ts = 0 ↔ nt = 0) && decide (ts * nt ≤ alg.hexLen)
        && (if ts * nt = alg.hexLen then !short else true)
  | .hashedNTupleId alg ts nt =>
      decide (ts ≤ 32) && decide (nt ≤ 32) && decide (ts = 0 ↔ nt = 0) && decide (ts * nt ≤ alg.hexLen)
  | .flatOmitPrefix d => decide (d ≠ [])
  | .nTupleOmitPrefix d ts nt _ _ =>
      decide (d ≠ []) && decide (1 ≤ ts ∧ ts ≤ 32) && decide (1 ≤ nt ∧ nt ≤ 32)

/-- "Starting at the beginning … divided into `numberOfTuples` tuples each containing `tupleSize` characters" -/
def segments (s : Str) (ts nt : Nat) : List Str :=
  (List.range nt).map (fun i => (s.drop (i * ts)).take ts)

/-- "joined, in order, using the filesystem path separator" -/
def joinPath (parts : List Str) : Str := List.intercalate ['/'] parts

/-- 0003 "Safe characters are defined as A-Z, a-z, 0-9, '-' and '_'" -/
def safe (b : Nat) : Bool :=
  (b ≥ 'A'.toNat && b ≤ 'Z'.toNat) || (b ≥ 'a'.toNat && b ≤ 'z'.toNat) || (b ≥ '0'.toNat && b ≤ '9'.toNat)
    || b == '-'.toNat || b == '_'.toNat

/-- "percent-encoded using the lower-case hex characters of its UTF-8 encoding" (byte-wise: a byte of a
    multi-byte character is ≥ 0x80 and therefore never safe) -/
def encByte (b : Nat) : Str :=
  if safe b then [Char.ofNat b] else ['%', hexDigitLower (b / 16), hexDigitLower (b % 16)]

def encodeId (id : Str) : Str := (utf8Bytes id).flatMap encByte

/-- "if the percent-encoded object identifier is longer than 100 characters, it is truncated to 100
    characters, and then the digest … is appended … `<first-100-chars>-<digest>`" -/
def encapsulation (hash id : Str) : Str :=
  let e := encodeId id
  if e.length > 100 then e.take 100 ++ ['-'] ++ hash else e

/-- case-insensitive equality of two strings -/
def ciEq (cm : CaseMap) (a b : Str) : Bool := cm.lowerS a == cm.lowerS b

/-- what follows the right-most case-insensitive occurrence of `delim`, if there is one -/
def afterLast (cm : CaseMap) (delim : Str) : Str → Option Str
  | [] => none
  | c :: cs =>
    match afterLast cm delim cs with
    | some r => some r
    | none =>
      if delim.length ≤ (c :: cs).length && ciEq cm ((c :: cs).take delim.length) delim
      then some ((c :: cs).drop delim.length) else none

/-- 0006/0007 step 1: "Remove the prefix, which is everything to the left of the right-most instance of
    the delimiter, as well as the delimiter. If there is no delimiter, the whole id is used; if the
    delimiter is found at the end, an error is thrown." -/
def stripPrefix (cm : CaseMap) (delim id : Str) : Except MapErr Str :=
  match afterLast cm delim id with
  | none => .ok id
  | some [] => .error .refused
  | some r => .ok r

/-- 0007: "defined over the ASCII subset of UTF-8 (code points 0x20 to 0x7F). Any character outside of
    this range in either an identifier or a path is an error." -/
def inRange0007 (c : Char) : Bool := 0x20 ≤ c.toNat && c.toNat ≤ 0x7F

def zeroPad (p : Pad) (width : Nat) (s : Str) : Str :=
  if s.length < width then
    match p with
    | .left => List.replicate (width - s.length) '0' ++ s
    | .right => s ++ List.replicate (width - s.length) '0'
  else s

/-- the object root path each extension prescribes -/
def map (cm : CaseMap) (cfg : Cfg) (hash id : Str) : Except MapErr Str :=
  match cfg with
  | .flatDirect => .ok id
  | .hashedNTuple _ ts nt short =>
      .ok (joinPath (segments hash ts nt ++ [if short then hash.drop (ts * nt) else hash]))
  | .hashedNTupleId _ ts nt =>
      .ok (joinPath (segments hash ts nt ++ [encapsulation hash id]))
  | .flatOmitPrefix d => stripPrefix cm d id
  | .nTupleOmitPrefix d ts nt pad rev =>
      if !id.all inRange0007 then .error .refused else
      match stripPrefix cm d id with
      | .error e => .error e
      | .ok part =>
        let p := zeroPad pad (ts * nt) part
        let p := if rev then p.reverse else p
        .ok (joinPath (segments p ts nt ++ [part]))

end Rocfl.Spec.Layout
