import RocflModel.Stage
/-
  The repository as a state machine: one `Op` per public mutating operation of `OcflRepo`
  (src/ocfl/repo.rs), `step` dispatching to the models in `Stage.lean`, `run` folding a history.
  Every theorem "for all histories" is an induction over `run`.
-/
namespace Rocfl

inductive Op
  | create (id : Str) (spec : Option SpecV) (alg : DAlg) (contentDir : Str) (width : Nat)
  | cpx (id : Str) (srcs : List Src) (dst : Str) (recursive : Bool)      -- `cp` and `mv` from outside
  | cpi (id : Str) (ver : Option Nat) (srcs : List Str) (dst : Str) (recursive : Bool)
  | mvi (id : Str) (srcs : List Str) (dst : Str)
  | rm (id : Str) (paths : List Str) (recursive : Bool)
  | resetp (id : Str) (paths : List Str) (recursive : Bool)
  | resetAll (id : Str)
  | commit (id : Str) (m : Meta) (keep : Digest → List CPath) (hasRoot : Bool)
  | upgrade (id : Str) (target : SpecV) (m : Meta) (keep : Digest → List CPath) (hasLayout : Bool)
  | purge (id : Str)

/-- one operation: its outcome and the repository afterwards (`now` is the wall clock) -/
def step (r : Repo) (now : Str) : Op → Except Err Unit × Repo
  | .create id spec alg cdir width =>
    match createObject r id spec alg cdir width now with
    | .ok r' => (.ok (), r')
    | .error e => (.error e, r)
  | .cpx id srcs dst recursive =>
    let res := copyExternal r id srcs dst recursive now
    (res.1, res.2.1)
  | .cpi id ver srcs dst recursive => internalOp false r id ver srcs dst recursive now
  | .mvi id srcs dst => internalOp true r id none srcs dst true now
  | .rm id paths recursive => removeFiles r id paths recursive now
  | .resetp id paths recursive => resetPaths r id paths recursive now
  | .resetAll id => (.ok (), resetAll r id)
  | .commit id m keep hasRoot => commit r id m keep hasRoot
  | .upgrade id target m keep hasLayout => upgradeObject r id target m keep hasLayout now
  | .purge id => (.ok (), purge r id)

/-- the repository reached by a history from a freshly initialised storage root -/
def run (spec : SpecV) (ops : List (Op × Str)) : Repo :=
  ops.foldl (fun r (op : Op × Str) => (step r op.2 op.1).2) (Repo.empty spec)

theorem run_append (spec : SpecV) (ops : List (Op × Str)) (op : Op × Str) :
    run spec (ops ++ [op]) = (step (run spec ops) op.2 op.1).2 := by
  simp [run, List.foldl_append]

/-- induction principle for histories -/
theorem run_induction {P : Repo → Prop} (spec : SpecV)
    (h0 : P (Repo.empty spec))
    (hs : ∀ r now op, P r → P (step r now op).2) : ∀ ops, P (run spec ops) := by
  intro ops
  have : ∀ (ops : List (Op × Str)) r, P r →
      P (ops.foldl (fun r (op : Op × Str) => (step r op.2 op.1).2) r) := by
    intro ops
    induction ops with
    | nil => intro r h; exact h
    | cons op ops ih => intro r h; exact ih _ (hs r op.2 op.1 h)
  exact this ops _ h0

end Rocfl
