import RocflModel.Basic.Str
/-
  The command-line layer (src/bin/rocfl.rs, src/cmd/opts.rs, src/cmd/cmds.rs, src/cmd/validate.rs,
  src/cmd/list.rs) as two pure functions:

  * `translate` — which library call, with which parameters, an argument vector stands for (the
    option table of opts.rs composed with the forwarding code of cmds.rs), for the sub-commands and
    options that change semantics;
  * `*Exit` — the exit status as a function of what the library returned.

  clap's tokenizer itself (abbreviations, `-rv1` bundling, `--long=value`) is not modelled: argument
  vectors use one token per flag and per value, sub-command first.
-/
namespace Rocfl.Cli

open Rocfl

/-- the library entry points of `OcflRepo` reached from the command line -/
inductive Call
  | createObject (id : Str) (spec : Option Str) (alg : Str) (contentDir : Str) (width : Str)
  | copyExternal (id : Str) (srcs : List Str) (dst : Str) (recursive : Bool)
  | copyInternal (id : Str) (version : Option Str) (srcs : List Str) (dst : Str) (recursive : Bool)
  | moveExternal (id : Str) (srcs : List Str) (dst : Str)
  | moveInternal (id : Str) (srcs : List Str) (dst : Str)
  | removeFiles (id : Str) (paths : List Str) (recursive : Bool)
  | reset (id : Str) (paths : List Str) (recursive : Bool)
  | resetAll (id : Str)
  | commit (id : Str) (objRoot user addr msg created : Option Str) (pretty : Bool)
  | upgradeObject (id : Str) (spec : Str) (user addr msg created : Option Str) (pretty : Bool)
  | upgradeRepo (spec : Str)
  | purge (id : Str)
  | catFile (id : Str) (version : Option Str) (path : Str)
  | catStaged (id : Str) (path : Str)
  deriving DecidableEq, Repr

/-- flags of one sub-command: name ↦ takes a value -/
abbrev FlagSpec := List (Str × Bool)

structure Parsed where
  flags : List (Str × Option Str) := []
  pos : List Str := []          -- positional arguments before `--`
  last : List Str := []         -- arguments after `--`
  deriving Repr

/-- one token per flag and per value; `--` ends the flags; an unknown flag or a missing value is a
    usage error (`none`, exit status 2 from clap) -/
def parseArgs (spec : FlagSpec) : List Str → Parsed → Option Parsed
  | [], acc => some acc
  | t :: rest, acc =>
    if t = ['-', '-'] then some { acc with last := rest }
    else if t.head? = some '-' ∧ t.length > 1 then
      match spec.lookup t with
      | none => none
      | some false => parseArgs spec rest { acc with flags := acc.flags ++ [(t, none)] }
      | some true =>
        match rest with
        | [] => none
        | v :: rest' => parseArgs spec rest' { acc with flags := acc.flags ++ [(t, some v)] }
    else parseArgs spec rest { acc with pos := acc.pos ++ [t] }

def Parsed.has (p : Parsed) (f : String) : Bool := p.flags.any (fun x => x.1 == f.toList)
def Parsed.val (p : Parsed) (f : String) : Option Str :=
  match p.flags.find? (fun x => x.1 == f.toList) with
  | some (_, v) => v
  | none => none

def metaSpec : FlagSpec :=
  [("-n".toList, true), ("-a".toList, true), ("-m".toList, true), ("-c".toList, true), ("-p".toList, false)]

/-- `translate argv`: sub-command and its arguments ↦ the library call; `none` = usage error -/
def translate : List Str → Option Call
  | cmd :: args =>
    let c := String.ofList cmd
    if c = "new" then
      match parseArgs [("-v".toList, true), ("-d".toList, true), ("-c".toList, true), ("-z".toList, true)] args {} with
      | some p =>
        match p.pos ++ p.last with
        | [id] => some (.createObject id (p.val "-v") ((p.val "-d").getD "sha512".toList)
                    ((p.val "-c").getD "content".toList) ((p.val "-z").getD "0".toList))
        | _ => none
      | none => none
    else if c = "cp" then
      match parseArgs [("-r".toList, false), ("-i".toList, false), ("-v".toList, true)] args {} with
      | some p =>
        match p.pos, p.last with
        | id :: s :: srcs, [dst] =>
          if p.has "-i" then some (.copyInternal id (p.val "-v") (s :: srcs) dst (p.has "-r"))
          else if p.has "-v" then none      -- `requires = "internal"`
          else some (.copyExternal id (s :: srcs) dst (p.has "-r"))
        | _, _ => none
      | none => none
    else if c = "mv" then
      match parseArgs [("-i".toList, false)] args {} with
      | some p =>
        match p.pos, p.last with
        | id :: s :: srcs, [dst] =>
          if p.has "-i" then some (.moveInternal id (s :: srcs) dst) else some (.moveExternal id (s :: srcs) dst)
        | _, _ => none
      | none => none
    else if c = "rm" then
      match parseArgs [("-r".toList, false)] args {} with
      | some p =>
        match p.pos ++ p.last with
        | id :: q :: paths => some (.removeFiles id (q :: paths) (p.has "-r"))
        | _ => none
      | none => none
    else if c = "reset" then
      match parseArgs [("-r".toList, false)] args {} with
      | some p =>
        match p.pos ++ p.last with
        | [id] => some (.resetAll id)
        | id :: paths => some (.reset id paths (p.has "-r"))
        | [] => none
      | none => none
    else if c = "commit" then
      match parseArgs (("-r".toList, true) :: metaSpec) args {} with
      | some p =>
        match p.pos ++ p.last with
        | [id] => some (.commit id (p.val "-r") (p.val "-n") (p.val "-a") (p.val "-m") (p.val "-c") (p.has "-p"))
        | _ => none
      | none => none
    else if c = "upgrade" then
      match parseArgs (("-v".toList, true) :: metaSpec) args {} with
      | some p =>
        match p.pos ++ p.last with
        | [id] => some (.upgradeObject id ((p.val "-v").getD "1.1".toList) (p.val "-n") (p.val "-a") (p.val "-m") (p.val "-c") (p.has "-p"))
        | [] => some (.upgradeRepo ((p.val "-v").getD "1.1".toList))
        | _ => none
      | none => none
    else if c = "purge" then
      match parseArgs [("-f".toList, false)] args {} with
      | some p =>
        match p.pos ++ p.last with
        | [id] => if p.has "-f" then some (.purge id) else none    -- without -f the command asks on stdin
        | _ => none
      | none => none
    else if c = "cat" then
      match parseArgs [("-S".toList, false), ("-v".toList, true)] args {} with
      | some p =>
        match p.pos ++ p.last with
        | [id, path] =>
          if p.has "-S" then (if p.has "-v" then none else some (.catStaged id path))   -- conflicts_with
          else some (.catFile id (p.val "-v") path)
        | _ => none
      | none => none
    else none
  | [] => none

/-! ### exit status -/

/-- `main`: any `Err` from `exec_command` (including `CopyMoveError`, i.e. a partial failure of
    cp/mv) exits 1 -/
def mainExit (libraryOk : Bool) : Nat := if libraryOk then 0 else 1

/-- a validation result: error and warning codes -/
structure VResult where
  errors : List Str
  warnings : List Str := []
  deriving Repr, DecidableEq

/-- `suppress_errors_warnings` -/
def suppress (se sw : List Str) (r : VResult) : VResult :=
  { errors := r.errors.filter (fun e => !se.contains e), warnings := r.warnings.filter (fun w => !sw.contains w) }

/-- an object counts as invalid when errors remain after suppression; `none` = the library call failed -/
def objInvalid (se sw : List Str) : Option VResult → Bool
  | some r => !(suppress se sw r).errors.isEmpty
  | none => false

/-- `validate <ids…>`: one entry per requested object — `none` when the library call itself failed -/
def validateObjectsExit (se sw : List Str) (results : List (Option VResult)) : Nat :=
  let invalid := results.any (objInvalid se sw)
  let failed := results.any Option.isNone
  if invalid then 2 else if failed then 1 else 0

/-- `validate` without ids: storage root, every object, storage hierarchy -/
def validateRepoExit (se sw : List Str) (root hier : VResult) (objs : List (Option VResult)) : Nat :=
  let invalid := objs.any (objInvalid se sw)
  let storage := !(suppress se sw root).errors.isEmpty || !(suppress se sw hier).errors.isEmpty
  let failed := objs.any Option.isNone
  if invalid || storage then 2 else if failed then 1 else 0

/-- `ls`: listing continues past an object that cannot be read, but the exit status is 1 -/
def listExit (readErrors : Nat) : Nat := if readErrors = 0 then 0 else 1

/-! ### which results `validate` prints -/

/-- the verbosity option (`-l`) of `rocfl validate` -/
inductive Level | info | warn | error
  deriving DecidableEq, Repr

/-- `ValidateCmd::should_print` (cmd/validate.rs): is the result of one object shown at this level -/
def shouldPrint (level : Level) (r : VResult) : Bool :=
  !r.errors.isEmpty || (!r.warnings.isEmpty && level != .error) || level == .info

end Rocfl.Cli
