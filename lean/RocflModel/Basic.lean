def hello := "world"
