import RocflModel.Basic.Str
/-
  JSON string tokens as rocfl writes and reads them.

  * `escape`   — serde_json's `format_escaped_str` (the writer behind `serde_json::to_writer[_pretty]`,
                 used by fs.rs:744-776 `stage_inventory`): `"` `\` and U+0000–001F are escaped
                 (`\b \t \n \f \r`, otherwise `\u00xx` lower-case), everything else is written raw.
  * `unescape` — a conforming JSON string reader (RFC 8259 §7): the two-character escapes, `\uXXXX`
                 including surrogate pairs; raw control characters and a raw `"` are rejected.
-/
namespace Rocfl.Json

open Rocfl

def escapeChar (c : Char) : Str :=
  if c = '"' then ['\\', '"']
  else if c = '\\' then ['\\', '\\']
  else if c.toNat = 8 then ['\\', 'b']
  else if c.toNat = 9 then ['\\', 't']
  else if c.toNat = 10 then ['\\', 'n']
  else if c.toNat = 12 then ['\\', 'f']
  else if c.toNat = 13 then ['\\', 'r']
  else if c.toNat < 32 then ['\\', 'u', '0', '0', hexDigitLower (c.toNat / 16), hexDigitLower (c.toNat % 16)]
  else [c]

def escape (s : Str) : Str := s.flatMap escapeChar

/-- the token as written: `"` body `"` -/
def quote (s : Str) : Str := '"' :: (escape s ++ ['"'])

def hex4 (a b c d : Char) : Option Nat := do
  let w ← hexVal a
  let x ← hexVal b
  let y ← hexVal c
  let z ← hexVal d
  pure (((w * 16 + x) * 16 + y) * 16 + z)

def simpleEscape (e : Char) : Option Char :=
  if e = '"' then some '"' else if e = '\\' then some '\\' else if e = '/' then some '/'
  else if e = 'b' then some (Char.ofNat 8) else if e = 'f' then some (Char.ofNat 12)
  else if e = 'n' then some (Char.ofNat 10) else if e = 'r' then some (Char.ofNat 13)
  else if e = 't' then some (Char.ofNat 9) else none

/-- the body of a JSON string token (between the quotes) ↦ the string it denotes -/
def unescape : Str → Option Str
  | [] => some []
  | c :: t =>
    if c = '\\' then
      match t with
      | [] => none
      | e :: t' =>
        if e = 'u' then
          match t' with
          | a :: b :: c2 :: d :: t'' =>
            match hex4 a b c2 d with
            | none => none
            | some code =>
              if 0xD800 ≤ code ∧ code ≤ 0xDBFF then
                -- high surrogate: a low surrogate escape must follow
                match t'' with
                | '\\' :: 'u' :: a2 :: b2 :: c3 :: d2 :: t3 =>
                  match hex4 a2 b2 c3 d2 with
                  | none => none
                  | some lo =>
                    if 0xDC00 ≤ lo ∧ lo ≤ 0xDFFF then
                      (unescape t3).map (Char.ofNat (0x10000 + (code - 0xD800) * 0x400 + (lo - 0xDC00)) :: ·)
                    else none
                | _ => none
              else if 0xDC00 ≤ code ∧ code ≤ 0xDFFF then none
              else (unescape t'').map (Char.ofNat code :: ·)
          | _ => none
        else
          match simpleEscape e with
          | some x => (unescape t').map (x :: ·)
          | none => none
    else if c = '"' ∨ c.toNat < 32 then none
    else (unescape t).map (c :: ·)
termination_by s => s.length

/-- reading a token back -/
def unquote (s : Str) : Option Str :=
  match s with
  | '"' :: rest =>
    match rest.getLast? with
    | some '"' => unescape rest.dropLast
    | _ => none
  | _ => none

/-! ### other legal spellings of the same string (RFC 8259 §7): any character may be written as a
`\uXXXX` escape (a surrogate pair above U+FFFF) with hex digits of either case, and `/` as `\/` -/

inductive Spell
  | min        -- as serde_json writes it
  | uLower     -- \uxxxx, lower-case hex
  | uUpper     -- \uXXXX, upper-case hex
  | solidus    -- `\/` for a slash, otherwise minimal
  deriving DecidableEq, Repr

def hex4Str (upper : Bool) (n : Nat) : Str :=
  let hd := fun k => if upper then hexDigitUpper k else hexDigitLower k
  [hd (n / 4096 % 16), hd (n / 256 % 16), hd (n / 16 % 16), hd (n % 16)]

def escapeCharU (upper : Bool) (c : Char) : Str :=
  if c.toNat < 0x10000 then '\\' :: 'u' :: hex4Str upper c.toNat
  else
    let o := c.toNat - 0x10000
    ('\\' :: 'u' :: hex4Str upper (0xD800 + o / 0x400)) ++ ('\\' :: 'u' :: hex4Str upper (0xDC00 + o % 0x400))

def spellChar : Spell → Char → Str
  | .min, c => escapeChar c
  | .uLower, c => escapeCharU false c
  | .uUpper, c => escapeCharU true c
  | .solidus, c => if c = '/' then ['\\', '/'] else escapeChar c

/-- spell `s` taking one choice per character (minimal once the choices run out) -/
def spellWith : List Spell → Str → Str
  | _, [] => []
  | [], c :: cs => escapeChar c ++ spellWith [] cs
  | sp :: sps, c :: cs => spellChar sp c ++ spellWith sps cs

end Rocfl.Json
