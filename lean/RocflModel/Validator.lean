import RocflModel.Basic.Str
/-
  The part of rocfl's object validator (src/ocfl/validate/mod.rs:538-656 `validate_object` and the
  checks it calls) that property C06 rests on, as a decision table: which check answers to which kind
  of single corruption of an object written by rocfl, and whether that check runs without fixity
  checking.  The table is compared with the real validator on every corrupted object the check
  produces; the sidecar check is modelled explicitly.
-/
namespace Rocfl.Validator

inductive Corruption
  | contentChange | contentTruncate | contentExtend | contentDelete | contentAdd | contentRename | contentSwap
  | contentToSymlink | contentToEmptyDir | dirToSymlink | dirToEmptyDir
  | rootInvByte | verInvByte | rootSidecarDigest | verSidecarDigest
  | declDelete | declAlter | strayRoot | strayVersion | strayContent | removeVersionDir
  | metaToSymlink | metaToEmptyDir      -- an inventory, sidecar or declaration file replaced
  deriving DecidableEq, Repr

/-- corruptions of structure: anything but the bytes inside a content file -/
def Corruption.structural : Corruption → Bool
  | .contentChange | .contentTruncate | .contentExtend | .contentSwap => false
  | _ => true

/-- the error codes of the check(s) that answer to a corruption (`validate/mod.rs`):
    * E092/E093 `fixity_check` (digest of a content file) and `validate_manifest` (manifest path without file),
    * E023 `validate_manifest` (content file not in the manifest), E024 empty directory in content,
    * E090 `FsStorage::list` classification `Other` (symlink etc.), E010/E015/E001 unexpected / missing entries,
    * E060/E061/E064 sidecar and head-inventory comparison, parse errors (E033 …) for inventory bytes,
    * E003/E007 version declaration. -/
def expectedCodes (c : Corruption) (fixity : Bool) : List String :=
  match c with
  | .contentChange | .contentTruncate | .contentExtend | .contentSwap => if fixity then ["E092", "E093"] else []
  | .contentDelete => ["E092"]
  | .contentAdd => ["E023"]
  | .contentRename => ["E023", "E092"]
  | .contentToSymlink => ["E090", "E092"]
  | .contentToEmptyDir => ["E024", "E092"]
  | .dirToSymlink => ["E090", "E010", "E092"]
  | .dirToEmptyDir => ["E092", "E024", "E010", "E015"]
  | .rootInvByte | .verInvByte => ["E060", "E064", "E033", "E034", "E036", "E037", "E038", "E040", "E041", "E048", "E049", "E050", "E051",
      "E052", "E053", "E054", "E066", "E092", "E095", "E096", "E099", "E100", "E101", "E102", "E104", "E107", "E008", "E010", "E011", "E013", "E017", "E018", "E025", "E046", "E094", "E097", "E057", "E111"]
  | .rootSidecarDigest | .verSidecarDigest => ["E060", "E061"]
  | .declDelete => ["E003"]
  | .declAlter => ["E007", "E003"]
  | .strayRoot => ["E001"]
  | .strayVersion => ["E015"]
  | .strayContent => ["E024"]
  | .removeVersionDir => ["E010", "E092"]
  | .metaToSymlink => ["E090", "E001", "E003", "E015", "E058", "E063"]
  | .metaToEmptyDir => ["E001", "E003", "E015", "E024", "E058", "E063", "E034"]

/-! ### the sidecar check (`validate_sidecar`, mod.rs:1080-1135) -/

/-- the sidecar `<digest>  inventory.json` validates the inventory bytes iff the recorded digest,
    compared without regard to hex case, is the digest of those bytes -/
def sidecarOk (digest : α → Str) (invBytes : α) (recorded : Str) : Bool :=
  recorded.map asciiLower == (digest invBytes).map asciiLower

end Rocfl.Validator
