import RocflModel.Basic.Str
/-
  The S3 back end (src/ocfl/store/s3.rs) where it differs from the filesystem back end:

  * key arithmetic — `paths::join`, `join_with_trailing_slash` (paths.rs:113-141), the repository
    prefix and the byte offset `list_prefix` uses to make listed keys relative again (s3.rs:760-810);
  * listing — ListObjectsV2 as a pure function of the key set (prefix, delimiter, page size,
    continuation), and `list_prefix`'s loop over pages;
  * uploads — `put_object_file`: one PUT up to `PART_SIZE`, otherwise parts of `PART_SIZE`;
  * the request script of a commit (`write_new_version`, s3.rs:495-555 after the repair) with one
    failing request, and its rollback.
-/
namespace Rocfl.S3

open Rocfl

/-! ### key arithmetic -/

/-- `paths::join` -/
def join (a b : Str) : Str :=
  let j := if a.getLast? = some '/' then a.dropLast else a
  if b.isEmpty then j
  else if (!j.isEmpty || a = ['/']) && b.head? ≠ some '/' then j ++ '/' :: b
  else j ++ b

/-- `paths::join_with_trailing_slash` -/
def joinTrailing (a b : Str) : Str :=
  let j := join a b
  if !j.isEmpty && j.getLast? ≠ some '/' then j ++ ['/'] else j

/-- `S3Client::new` (after the repair): the prefix is kept without trailing slashes -/
def normPrefix (p : Str) : Str := (p.reverse.dropWhile (· = '/')).reverse

/-- the key of a repository-relative path -/
def keyOf (pre rel : Str) : Str := join pre rel

/-- `prefix_offset` of `list_prefix`, in bytes -/
def prefixOffset (pre : Str) : Nat := if pre.isEmpty then 0 else utf8Len pre + 1

/-- `key[prefix_offset..]`: `none` is a panic (not a char boundary / out of range) -/
def relativize (pre key : Str) : Option Str := dropBytes (prefixOffset pre) key

/-! ### ListObjectsV2 -/

inductive Entry
  | key (k : Str)
  | dir (p : Str)      -- a common prefix, ends with the delimiter
  deriving DecidableEq, Repr

/-- the part of `k` up to and including the first `/` at or after position `n` -/
def commonPrefix (n : Nat) (k : Str) : Option Str :=
  match (k.drop n).findIdx? (· = '/') with
  | some i => some (k.take (n + i + 1))
  | none => none

/-- the entries a listing of `prefix` enumerates, in order, for keys in listing order: every key
    below the prefix, or — with the delimiter `/` — keys directly below it and one common prefix per
    group of deeper keys -/
def entries (keys : List Str) (pfx : Str) (delim : Bool) : List Entry :=
  let below := keys.filter (fun k => pfx.isPrefixOf k)
  if !delim then below.map .key
  else
    below.foldl (fun acc k =>
      match commonPrefix pfx.length k with
      | some cp => if acc.getLast? = some (.dir cp) then acc else acc ++ [.dir cp]
      | none => acc ++ [.key k]) []

/-- one response: at most `maxKeys` entries starting at `start`, and the continuation if truncated -/
def listPage (all : List Entry) (start maxKeys : Nat) : List Entry × Option Nat :=
  let page := (all.drop start).take maxKeys
  (page, if start + maxKeys < all.length then some (start + maxKeys) else none)

/-- `list_prefix`: request pages until `is_truncated` is false -/
def listAll (all : List Entry) (maxKeys : Nat) : Nat → Nat → List Entry
  | 0, _ => []
  | fuel + 1, start =>
    match listPage all start maxKeys with
    | (page, none) => page
    | (page, some next) => page ++ listAll all maxKeys fuel next

/-! ### uploads -/

def partSize : Nat := 5 * 1024 * 1024

/-- the bodies of the upload requests for a file of the given bytes -/
def chunks (n : Nat) : Nat → List Nat → List (List Nat)
  | 0, _ => []
  | _ + 1, [] => []
  | fuel + 1, bs => bs.take n :: chunks n fuel (bs.drop n)

/-! ### the request script of a commit and one failing request -/

inductive Req
  | putVersionFile (i : Nat)
  | putRootInventory
  | putRootSidecar
  | listRoot            -- find the old declaration (upgrade only)
  | putDeclaration
  | deleteOldDeclaration
  deriving DecidableEq, Repr

def script (nFiles : Nat) (upgrade : Bool) : List Req :=
  (List.range nFiles).map .putVersionFile ++ [.putRootInventory, .putRootSidecar] ++
  (if upgrade then [.listRoot, .putDeclaration, .deleteOldDeclaration] else [])

inductive Ver | old | new | missing
  deriving DecidableEq, Repr

structure Obj where
  uploaded : List Nat := []      -- files of the new version present
  rootInv : Ver := .old
  rootSidecar : Ver := .old
  declOld : Bool := true
  declNew : Bool := false
  deriving DecidableEq, Repr

def apply (o : Obj) : Req → Obj
  | .putVersionFile i => { o with uploaded := o.uploaded ++ [i] }
  | .putRootInventory => { o with rootInv := .new }
  | .putRootSidecar => { o with rootSidecar := .new }
  | .listRoot => o
  | .putDeclaration => { o with declNew := true }
  | .deleteOldDeclaration => { o with declOld := false }

/-- the rollback after the repair: restore the root inventory and sidecar from the previous version
    directory, delete the new declaration, delete what was uploaded -/
def rollback (o : Obj) : Obj :=
  { o with uploaded := [], rootInv := .old, rootSidecar := .old, declNew := false }

/-- the rollback before the repair (`do_with_rollback` over the `done` list, which contained the root
    inventory once it had been overwritten; the declaration swap was outside of it) -/
def rollbackBefore (o : Obj) : Obj :=
  if o.rootInv = .new then { o with uploaded := [], rootInv := .missing } else { o with uploaded := [] }

/-- run the script; the request at index `fault` (if any) fails without effect.
    Returns the object afterwards and whether the commit reported success. -/
def exec (nFiles : Nat) (upgrade : Bool) (fault : Option Nat) : Obj × Bool :=
  let s := script nFiles upgrade
  match fault with
  | none => (s.foldl apply {}, true)
  | some k => if k < s.length then (rollback ((s.take k).foldl apply {}), false) else (s.foldl apply {}, true)

def oldObj : Obj := {}
def newObj (nFiles : Nat) (upgrade : Bool) : Obj :=
  { uploaded := List.range nFiles, rootInv := .new, rootSidecar := .new, declOld := !upgrade, declNew := upgrade }

end Rocfl.S3
