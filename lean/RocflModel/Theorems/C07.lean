import RocflModel.Lemmas.InvCheckLemmas
import RocflModel.Lemmas.JsonLemmas
/-
  C07 — validate's verdict matches an independent reading of the OCFL specification.

  `InvCheck.check` is the executable model of the inventory-level checks of validate/serde.rs
  (tied to the code by the correspondence run of ./check C07).  The theorems below prove that
  each of these checks *decides exactly* the declarative rule of the specification it stands for —
  for every inventory, of any size — and that the decoded strings the checks look at do not depend on
  how the JSON text spells them.
-/
namespace Rocfl.InvCheck

open Rocfl

/-- E099/E100/E052/E053: a path passes iff it is non-empty and each of its `/`-separated elements
    is non-empty and neither `.` nor `..` (in particular no leading or trailing slash) -/
theorem C07_path_rule_exact (p : Str) :
    pathOk p = true ↔ p ≠ [] ∧ ∀ x ∈ splitOnSlash p, x ≠ [] ∧ x ≠ ['.'] ∧ x ≠ ['.', '.'] :=
  pathOk_iff p

/-- E101/E095 (conflicts): the `rfind('/')` walk accepts a set of paths iff no path in it is a
    directory above another one -/
theorem C07_conflict_rule_exact (ps : List Str) :
    conflictFree ps = true ↔ ∀ p ∈ ps, ∀ q ∈ ps, ¬ ∃ r, p = q ++ '/' :: r :=
  conflictFree_iff ps

/-- E101/E095 (duplicates) -/
theorem C07_duplicate_rule_exact (ps : List Str) : noDup ps = true ↔ ps.Nodup := noDup_iff ps

/-- E050/E107: every digest used by a state is a manifest key and every manifest key is used -/
theorem C07_reference_rule_exact (i : AInv) :
    refsOk i = true ↔
      (∀ d ∈ i.stateDigests, d ∈ i.manifestDigests) ∧ (∀ d ∈ i.manifestDigests, d ∈ i.stateDigests) :=
  refsOk_iff i

/-- E010: the version loop reports no missing version iff the ascending version numbers are exactly 1 … n -/
theorem C07_gap_rule_exact (l : List Nat) (hp : l.Pairwise (· < ·))
    (hb : ∀ v ∈ l, 1 ≤ v ∧ v < ValidateNums.u32Max) :
    (ValidateNums.run l).e010 = 0 ↔ l = List.range' 1 l.length :=
  run_gapfree_iff l hp hb

/-- the declarative reading of the path, duplicate, conflict and reference rules of one inventory -/
structure SpecPaths (i : AInv) : Prop where
  manifestPaths : ∀ p ∈ i.manifestPaths, p ≠ [] ∧ ∀ x ∈ splitOnSlash p, x ≠ [] ∧ x ≠ ['.'] ∧ x ≠ ['.', '.']
  manifestNodup : i.manifestPaths.Nodup
  manifestNoConflict : ∀ p ∈ i.manifestPaths, ∀ q ∈ i.manifestPaths, ¬ ∃ r, p = q ++ '/' :: r
  statePaths : ∀ v ∈ i.versions, ∀ p ∈ v.paths, p ≠ [] ∧ ∀ x ∈ splitOnSlash p, x ≠ [] ∧ x ≠ ['.'] ∧ x ≠ ['.', '.']
  stateNodup : ∀ v ∈ i.versions, v.paths.Nodup
  stateNoConflict : ∀ v ∈ i.versions, ∀ p ∈ v.paths, ∀ q ∈ v.paths, ¬ ∃ r, p = q ++ '/' :: r
  stateDigestsKnown : ∀ d ∈ i.stateDigests, d ∈ i.manifestDigests
  manifestDigestsUsed : ∀ d ∈ i.manifestDigests, d ∈ i.stateDigests

/-- **the verdict of the modelled checks**: no error iff the declarative rules hold together with the
    remaining (syntactic) checks on the content directory, version names and digest syntax -/
theorem C07_check_exact (i : AInv) :
    check i = true ↔
      contentDirOk i.contentDir = true ∧ numberingOk i = true ∧
      i.manifestDigests.all (digestOk i.hexLen) = true ∧ (i.manifestDigests.map lowerStr).Nodup ∧
      SpecPaths i := by
  simp only [check, manifestOk, stateOk, Bool.and_eq_true, List.all_eq_true, noDup_iff, conflictFree_iff,
    pathOk_iff, refsOk_iff]
  constructor
  · rintro ⟨⟨⟨⟨h1, h2⟩, ⟨⟨⟨⟨h3, h4⟩, h5⟩, h6⟩, h7⟩⟩, h8⟩, h9, h10⟩
    exact ⟨h1, h2, h3, h4,
      ⟨h5, h6, h7, fun v hv => (h8 v hv).1.1, fun v hv => (h8 v hv).1.2, fun v hv => (h8 v hv).2, h9, h10⟩⟩
  · rintro ⟨h1, h2, h3, h4, ⟨h5, h6, h7, h8, h9, h10, h11, h12⟩⟩
    exact ⟨⟨⟨⟨h1, h2⟩, ⟨⟨⟨⟨h3, h4⟩, h5⟩, h6⟩, h7⟩⟩, fun v hv => ⟨⟨h8 v hv, h9 v hv⟩, h10 v hv⟩⟩, h11, h12⟩

/-- an invalid path element, a duplicate, a conflict or a dangling digest always produces an error -/
theorem C07_never_passes_broken_paths (i : AInv) (h : ¬ SpecPaths i) : check i = false := by
  cases hc : check i with
  | false => rfl
  | true => exact absurd ((C07_check_exact i).1 hc).2.2.2.2 h

/-- **spelling independence**: whichever legal JSON escapes (minimal, `\uXXXX` in either case,
    surrogate pairs, `\/`) spell a string, a conforming reader hands the checks the same string -/
theorem C07_spelling_irrelevant (choices : List Json.Spell) (s : Str) :
    Json.unescape (Json.spellWith choices s) = some s :=
  Json.unescape_spellWith choices s

/-! non-vacuity: a two-version inventory with a renamed, deduplicated file passes; breaking one
    rule at a time makes it fail -/

def d1 : Str := List.replicate 64 'a'
def d2 : Str := List.replicate 64 'b'

def sample : AInv :=
  { hexLen := 64, head := "v2".toList, contentDir := none,
    manifest := [(d1, ["v1/content/a.txt".toList]), (d2, ["v2/content/dir/b \"q\".txt".toList])],
    versions := [{ name := "v1".toList, state := [(d1, ["a.txt".toList])] },
                 { name := "v2".toList, state := [(d1, ["renamed.txt".toList, "copy/a.txt".toList]), (d2, ["dir/b \"q\".txt".toList])] }] }

example : check sample = true := by decide
example : check { sample with head := "v1".toList } = false := by decide
example : check { sample with versions := sample.versions.map fun v => { v with state := v.state.map fun (d, ps) => (d, ps ++ ["a.txt/x".toList]) } } = false := by decide
example : check { sample with manifest := (d1, ["v1/content/a.txt".toList, "v1/content//b".toList]) :: sample.manifest.tail } = false := by decide

end Rocfl.InvCheck
