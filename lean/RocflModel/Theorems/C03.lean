import RocflModel.Lemmas.ScriptLemmas
/-
  C03 — committed version directories are never modified (append-only storage).

  Model: the install-phase scripts of `write_new_version` (incl. rollback and the spec-upgrade tail) and
  `write_new_object` (Script.lean, fs.rs:323-430); `avoids` is the trace monitor the check also runs
  on every observed system-call trace.
-/
namespace Rocfl.Theorems.C03
open Rocfl

/-- every path the install of a new version touches is the staged version directory or a direct child
    of the object root: the new version directory, the root inventory, its sidecar, and — on a spec
    upgrade — the two version declarations -/
theorem install_touched (or sd : Path) (v alg : Str) (up : Option (Str × Str)) :
    ∀ c ∈ installNewVersion or sd v alg up, ∀ p ∈ c.touched,
      p = sd ++ [v] ∨ p = or ++ [v] ∨ p = or ++ [invFile] ∨ p = or ++ [sidecarFile alg] ∨
      (∃ o n, up = some (o, n) ∧ (p = or ++ [o] ∨ p = or ++ [n])) := by
  intro c hc p hp
  cases up with
  | none =>
    simp only [installNewVersion, copyInventoryFiles, List.append_nil, List.mem_cons, List.not_mem_nil, or_false] at hc
    rcases hc with rfl | rfl | rfl | rfl | rfl | rfl | rfl <;>
      simp only [FsCall.touched, List.mem_cons, List.not_mem_nil, or_false] at hp <;> (try rcases hp with rfl | rfl) <;> simp_all
  | some pr =>
    obtain ⟨o, n⟩ := pr
    simp only [installNewVersion, copyInventoryFiles, List.mem_cons, List.mem_append, List.not_mem_nil, or_false] at hc
    rcases hc with (rfl | rfl | rfl | rfl | rfl | rfl | rfl) | rfl | rfl | rfl <;>
      simp only [FsCall.touched, List.mem_cons, List.not_mem_nil, or_false] at hp <;> (try rcases hp with rfl | rfl) <;>
      first
        | (simp_all; done)
        | exact Or.inr (Or.inr (Or.inr (Or.inr ⟨o, n, rfl, Or.inr rfl⟩)))
        | exact Or.inr (Or.inr (Or.inr (Or.inr ⟨o, n, rfl, Or.inl rfl⟩)))

/-- **append-only, same object**: installing version `v` never touches anything inside another
    version directory `k` of that object.  (`k` is a version directory name, so it is none of the
    root-level file names; the staged version directory does not live inside a committed one.) -/
theorem C03_install_avoids_committed_version (or sd : Path) (v alg k : Str) (up : Option (Str × Str))
    (hkv : k ≠ v) (hki : k ≠ invFile) (hks : k ≠ sidecarFile alg)
    (hup : ∀ o n, up = some (o, n) → k ≠ o ∧ k ≠ n)
    (hsd : inside (or ++ [k]) (sd ++ [v]) = false) :
    avoids [or ++ [k]] (installNewVersion or sd v alg up) = true := by
  simp only [avoids, List.all_eq_true, List.all_cons, List.all_nil, Bool.and_true, Bool.not_eq_true']
  intro c hc p hp
  rcases install_touched or sd v alg up c hc p hp with rfl | rfl | rfl | rfl | ⟨o, n, hu, rfl | rfl⟩
  · exact hsd
  · cases h : inside (or ++ [k]) (or ++ [v]) with
    | false => rfl
    | true => exact absurd ((inside_snoc_iff _ _ _).mp h) hkv
  · cases h : inside (or ++ [k]) (or ++ [invFile]) with
    | false => rfl
    | true => exact absurd ((inside_snoc_iff _ _ _).mp h) hki
  · cases h : inside (or ++ [k]) (or ++ [sidecarFile alg]) with
    | false => rfl
    | true => exact absurd ((inside_snoc_iff _ _ _).mp h) hks
  · cases h : inside (or ++ [k]) (or ++ [o]) with
    | false => rfl
    | true => exact absurd ((inside_snoc_iff _ _ _).mp h) (hup o n hu).1
  · cases h : inside (or ++ [k]) (or ++ [n]) with
    | false => rfl
    | true => exact absurd ((inside_snoc_iff _ _ _).mp h) (hup o n hu).2

/-- **append-only, other objects**: installing a version of the object at `or` touches nothing inside
    another object's root `or'`, provided the two roots are not nested and the staging area is not
    inside `or'` -/
theorem C03_install_avoids_other_objects (or or' sd : Path) (v alg : Str) (up : Option (Str × Str))
    (h1 : inside or' or = false) (h2 : inside or or' = false) (h3 : inside or' (sd ++ [v]) = false) :
    avoids [or'] (installNewVersion or sd v alg up) = true := by
  simp only [avoids, List.all_eq_true, List.all_cons, List.all_nil, Bool.and_true, Bool.not_eq_true']
  intro c hc p hp
  have key : ∀ x : Str, inside or' (or ++ [x]) = false := by
    intro x
    cases h : inside or' (or ++ [x]) with
    | false => rfl
    | true =>
      rcases prefix_snoc h with h' | h'
      · rw [show inside or' or = or'.isPrefixOf or from rfl, h'] at h1; cases h1
      · have : inside or or' = true := by rw [h']; exact inside_append _ _
        rw [this] at h2; cases h2
  rcases install_touched or sd v alg up c hc p hp with rfl | rfl | rfl | rfl | ⟨o, n, _, rfl | rfl⟩
  · exact h3
  all_goals exact key _

/-- the rollback after a failed inventory copy moves the new version directory back and touches
    nothing else -/
theorem C03_rollback_avoids_committed_version (or sd : Path) (v k : Str) (hkv : k ≠ v)
    (hsd : inside (or ++ [k]) (sd ++ [v]) = false) :
    avoids [or ++ [k]] (rollbackNewVersion or sd v) = true := by
  simp only [avoids, rollbackNewVersion, List.all_cons, List.all_nil, FsCall.touched, Bool.and_true, hsd, Bool.not_false]
  cases h : inside (or ++ [k]) (or ++ [v]) with
  | false => rfl
  | true => exact absurd ((inside_snoc_iff _ _ _).mp h) hkv

/-- a version directory name is never the name of the root inventory, its sidecar or a declaration -/
theorem versionName_not_root_file (k alg : Str) (hk : isVersionName k = true) :
    k ≠ invFile ∧ k ≠ sidecarFile alg ∧ ∀ n : Str, n.head? = some '0' → k ≠ n := by
  cases k with
  | nil => simp [isVersionName] at hk
  | cons c cs =>
    have hc : c = 'v' := by
      by_cases h : c = 'v'
      · exact h
      · simp [isVersionName, h] at hk
    subst hc
    refine ⟨by simp [invFile], by simp [sidecarFile, invFile], ?_⟩
    intro n hn e
    subst e
    simp at hn

end Rocfl.Theorems.C03
