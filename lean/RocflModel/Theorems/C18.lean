import RocflModel.Lemmas.DiffLemmas
/-
  C18 — diff, log and ls -l tell the true history of an object.

  Model: `diffStates` / `Inv.diffVersions` / `Inv.fileVersions` / `Inv.lastUpdate` (Diff.lean),
  mirroring inventory.rs:297-316, 798-863, repo.rs:418-458, types.rs:1083-1186.
  Spec: the set-based reading of the statement, written out in each theorem.
-/
namespace Rocfl.Theorems.C18
open Rocfl

/-- **a version diffed with itself is empty** -/
theorem C18_self_empty (inv : Inv) (v : Nat) : inv.diffVersions (some v) v = .ok [] := by
  simp [Inv.diffVersions]

/-- **show equals the diff against the preceding version** -/
theorem C18_show_is_diff_prev (inv : Inv) (v : Nat) (hv : 1 < v) :
    inv.diffVersions none v = inv.diffVersions (some (v - 1)) v := by
  have hne : ¬ (v - 1 = v) := by omega
  simp only [Inv.diffVersions, hv, if_true]
  have : (some (v - 1) == some v) = false := by simp [hne]
  simp [this]

/-- the first version shows every path as added -/
theorem C18_first_all_added (right : List (LPath × Digest)) :
    diffStates right none = right.map (fun e => Diff.added e.1) := rfl

/-- **Modified** is reported exactly for the paths present in both states with different content -/
theorem C18_modified_iff (left right : List (LPath × Digest)) (hl : AL.NoDupKeys left) (p : LPath) :
    Diff.modified p ∈ diffStates right (some left) ↔
      ∃ ld rd, AL.get left p = some ld ∧ AL.get right p = some rd ∧ ld ≠ rd := by
  rw [mem_diffStates]
  simp only
  constructor
  · rintro (h | ⟨e, _, q, _, hx⟩ | ⟨e, _, hx⟩)
    · rw [diffRight_modified, diffLeft_modified] at h
      rcases h with h | ⟨ld, rd, hm, hg, hne⟩
      · simp at h
      · exact ⟨ld, rd, AL.get_of_mem hl hm, hg, hne⟩
    · cases hx
    · cases hx
  · rintro ⟨ld, rd, hgl, hgr, hne⟩
    left
    rw [diffRight_modified, diffLeft_modified]
    exact Or.inr ⟨ld, rd, AL.mem_of_get hgl, hgr, hne⟩

/-- **Added** is reported exactly for the paths that exist only on the right and whose content is not
    the content of a path that exists only on the left (that would be a rename) -/
theorem C18_added_iff (left right : List (LPath × Digest)) (hl : AL.NoDupKeys left) (hr : AL.NoDupKeys right)
    (q : LPath) :
    Diff.added q ∈ diffStates right (some left) ↔
      ∃ d, AL.get right q = some d ∧ AL.get left q = none ∧
        ∀ p, AL.get left p = some d → (AL.get right p).isSome = true := by
  rw [mem_diffStates]
  simp only
  have hseen : ∀ x, x ∈ (left.foldl (diffLeftStep right) {}).seen ↔
      ∃ ld, (x, ld) ∈ left ∧ (AL.get right x).isSome = true := by
    intro x; rw [diffLeft_seen]; simp
  have havail : ∀ d, (left.foldl (diffLeftStep right) {}).avail d ↔ ∃ p, (p, d) ∈ left ∧ AL.get right p = none := by
    intro d
    simp only [DiffAcc.avail, diffLeft_deletes, diffLeft_seen_deletes]
    simp
  constructor
  · rintro (h | ⟨e, _, p, _, hx⟩ | ⟨e, _, hx⟩)
    · rw [diffRight_added, diffLeft_no_added] at h
      rcases h with h | ⟨d, hm, hs, ha⟩
      · simp at h
      · have hgr := AL.get_of_mem hr hm
        refine ⟨d, hgr, ?_, ?_⟩
        · cases hgl : AL.get left q with
          | none => rfl
          | some ld =>
            exact absurd ((hseen q).mpr ⟨ld, AL.mem_of_get hgl, by simp [hgr]⟩) hs
        · intro p hp
          cases hgp : AL.get right p with
          | some x => rfl
          | none => exact absurd ((havail d).mpr ⟨p, AL.mem_of_get hp, hgp⟩) ha
    · cases hx
    · cases hx
  · rintro ⟨d, hgr, hgl, hall⟩
    left
    rw [diffRight_added]
    refine Or.inr ⟨d, AL.mem_of_get hgr, ?_, ?_⟩
    · intro hs
      obtain ⟨ld, hm, _⟩ := (hseen q).mp hs
      rw [AL.get_of_mem hl hm] at hgl; cases hgl
    · intro ha
      obtain ⟨p, hm, hn⟩ := (havail d).mp ha
      have := hall p (AL.get_of_mem hl hm)
      rw [hn] at this; cases this

end Rocfl.Theorems.C18
