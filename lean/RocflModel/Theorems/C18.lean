import RocflModel.Lemmas.DiffRename
import RocflModel.Lemmas.DiffHistory
/-
  C18 — diff, log and ls -l tell the true history of an object.

  Model: `diffStates` / `Inv.diffVersions` / `Inv.fileVersions` / `Inv.lastUpdate` (Diff.lean),
  mirroring inventory.rs:297-316, 798-863, repo.rs:418-458, types.rs:1083-1186.
  Spec: the set-based reading of the statement, written out in each theorem.
-/
namespace Rocfl.Theorems.C18
open Rocfl

/-- **a version diffed with itself is empty** -/
theorem C18_self_empty (inv : Inv) (v : Nat) : inv.diffVersions (some v) v = .ok [] := by
  simp [Inv.diffVersions]

/-- **show equals the diff against the preceding version** -/
theorem C18_show_is_diff_prev (inv : Inv) (v : Nat) (hv : 1 < v) :
    inv.diffVersions none v = inv.diffVersions (some (v - 1)) v := by
  have hne : ¬ (v - 1 = v) := by omega
  simp only [Inv.diffVersions, hv, if_true]
  have : (some (v - 1) == some v) = false := by simp [hne]
  simp [this]

/-- the first version shows every path as added -/
theorem C18_first_all_added (right : List (LPath × Digest)) :
    diffStates right none = right.map (fun e => Diff.added e.1) := rfl

/-- **Modified** is reported exactly for the paths present in both states with different content -/
theorem C18_modified_iff (left right : List (LPath × Digest)) (hl : AL.NoDupKeys left) (p : LPath) :
    Diff.modified p ∈ diffStates right (some left) ↔
      ∃ ld rd, AL.get left p = some ld ∧ AL.get right p = some rd ∧ ld ≠ rd := by
  rw [mem_diffStates]
  simp only
  constructor
  · rintro (h | ⟨e, _, q, _, hx⟩ | ⟨e, _, hx⟩)
    · rw [diffRight_modified, diffLeft_modified] at h
      rcases h with h | ⟨ld, rd, hm, hg, hne⟩
      · simp at h
      · exact ⟨ld, rd, AL.get_of_mem hl hm, hg, hne⟩
    · cases hx
    · cases hx
  · rintro ⟨ld, rd, hgl, hgr, hne⟩
    left
    rw [diffRight_modified, diffLeft_modified]
    exact Or.inr ⟨ld, rd, AL.mem_of_get hgl, hgr, hne⟩

/-- **Added** is reported exactly for the paths that exist only on the right and whose content is not
    the content of a path that exists only on the left (that would be a rename) -/
theorem C18_added_iff (left right : List (LPath × Digest)) (hl : AL.NoDupKeys left) (hr : AL.NoDupKeys right)
    (q : LPath) :
    Diff.added q ∈ diffStates right (some left) ↔
      ∃ d, AL.get right q = some d ∧ AL.get left q = none ∧
        ∀ p, AL.get left p = some d → (AL.get right p).isSome = true := by
  rw [mem_diffStates]
  simp only
  have hseen : ∀ x, x ∈ (left.foldl (diffLeftStep right) {}).seen ↔
      ∃ ld, (x, ld) ∈ left ∧ (AL.get right x).isSome = true := by
    intro x; rw [diffLeft_seen]; simp
  have havail : ∀ d, (left.foldl (diffLeftStep right) {}).avail d ↔ ∃ p, (p, d) ∈ left ∧ AL.get right p = none := by
    intro d
    simp only [DiffAcc.avail, diffLeft_deletes, diffLeft_seen_deletes]
    simp
  constructor
  · rintro (h | ⟨e, _, p, _, hx⟩ | ⟨e, _, hx⟩)
    · rw [diffRight_added, diffLeft_no_added] at h
      rcases h with h | ⟨d, hm, hs, ha⟩
      · simp at h
      · have hgr := AL.get_of_mem hr hm
        refine ⟨d, hgr, ?_, ?_⟩
        · cases hgl : AL.get left q with
          | none => rfl
          | some ld =>
            exact absurd ((hseen q).mpr ⟨ld, AL.mem_of_get hgl, by simp [hgr]⟩) hs
        · intro p hp
          cases hgp : AL.get right p with
          | some x => rfl
          | none => exact absurd ((havail d).mpr ⟨p, AL.mem_of_get hp, hgp⟩) ha
    · cases hx
    · cases hx
  · rintro ⟨d, hgr, hgl, hall⟩
    left
    rw [diffRight_added]
    refine Or.inr ⟨d, AL.mem_of_get hgr, ?_, ?_⟩
    · intro hs
      obtain ⟨ld, hm, _⟩ := (hseen q).mp hs
      rw [AL.get_of_mem hl hm] at hgl; cases hgl
    · intro ha
      obtain ⟨p, hm, hn⟩ := (havail d).mp ha
      have := hall p (AL.get_of_mem hl hm)
      rw [hn] at this; cases this

/-! ### `Deleted` and `Renamed` -/

/-- paths with content `d` that exist only in `a` (not in `b`), in the order of `a` -/
def onlyIn (a b : List (LPath × Digest)) (d : Digest) : List LPath :=
  (a.filter (fun e => e.2 == d && (AL.get b e.1).isNone)).map (·.1)

theorem mem_onlyIn (a b : List (LPath × Digest)) (d : Digest) (p : LPath) :
    p ∈ onlyIn a b d ↔ (p, d) ∈ a ∧ AL.get b p = none := mem_missingOf b a d p

private theorem seen_iff (left right : List (LPath × Digest)) (x : LPath) :
    x ∈ (left.foldl (diffLeftStep right) {}).seen ↔ ∃ ld, (x, ld) ∈ left ∧ (AL.get right x).isSome = true := by
  rw [diffLeft_seen]; simp

/-- the right-hand paths the second loop looks at are the ones that exist only on the right -/
private theorem unseen_eq_onlyIn (left right : List (LPath × Digest)) (hr : AL.NoDupKeys right) (d : Digest) :
    unseenOf (left.foldl (diffLeftStep right) {}).seen right d = onlyIn right left d := by
  unfold unseenOf onlyIn
  congr 1
  apply List.filter_congr
  intro e he
  have hg : AL.get right e.1 = some e.2 := AL.get_of_mem hr he
  congr 1
  cases hgl : AL.get left e.1 with
  | none =>
    have : e.1 ∉ (left.foldl (diffLeftStep right) {}).seen := by
      intro hs
      obtain ⟨ld, hm, _⟩ := (seen_iff left right e.1).mp hs
      have := AL.mem_keys_of_get (l := left) (k := e.1) (v := ld)
      have hk : e.1 ∈ AL.keys left := List.mem_map.mpr ⟨(e.1, ld), hm, rfl⟩
      have := (AL.get_isSome_iff_mem_keys left e.1).mpr hk
      rw [hgl] at this; cases this
    simp [this]
  | some ld =>
    have : e.1 ∈ (left.foldl (diffLeftStep right) {}).seen :=
      (seen_iff left right e.1).mpr ⟨ld, AL.mem_of_get hgl, by simp [hg]⟩
    simp [this]

private theorem deletes_final (left right : List (LPath × Digest)) (hr : AL.NoDupKeys right) (d : Digest) :
    AL.get (right.foldl diffRightStep (left.foldl (diffLeftStep right) {})).deletes d =
      if onlyIn right left d = [] then (if onlyIn left right d = [] then none else some (onlyIn left right d))
      else none := by
  rw [diffRight_deletes_val, unseen_eq_onlyIn left right hr, diffLeft_deletes_val]
  have : missingOf right left d = onlyIn left right d := rfl
  rw [this]
  have h0 : AL.get ({} : DiffAcc).deletes d = none := rfl
  rw [h0]
  simp

private theorem renames_final (left right : List (LPath × Digest)) (hr : AL.NoDupKeys right) (d : Digest) :
    AL.get (right.foldl diffRightStep (left.foldl (diffLeftStep right) {})).renames d =
      if onlyIn right left d = [] ∨ onlyIn left right d = [] then none
      else some (onlyIn left right d, onlyIn right left d) := by
  rw [diffRight_renames_val, unseen_eq_onlyIn left right hr, diffLeft_deletes_val, diffLeft_seen_deletes]
  have : missingOf right left d = onlyIn left right d := rfl
  rw [this]
  have h0 : AL.get ({} : DiffAcc).deletes d = none := rfl
  have h1 : AL.get ({} : DiffAcc).renames d = none := rfl
  rw [h0, h1]
  cases h : onlyIn right left d with
  | nil => simp
  | cons q qs =>
    by_cases hm : onlyIn left right d = []
    · simp [hm]
    · simp [hm]

private theorem final_nodup (left right : List (LPath × Digest)) :
    AL.NoDupKeys (right.foldl diffRightStep (left.foldl (diffLeftStep right) {})).deletes ∧
    AL.NoDupKeys (right.foldl diffRightStep (left.foldl (diffLeftStep right) {})).renames := by
  apply diffRight_nodup
  refine ⟨diffLeft_deletes_nodup _ _ _ AL.nodup_nil, ?_⟩
  rw [diffLeft_seen_deletes]
  exact AL.nodup_nil

private theorem final_diffs_kind (left right : List (LPath × Digest)) :
    ∀ x ∈ (right.foldl diffRightStep (left.foldl (diffLeftStep right) {})).diffs,
      (∃ p, x = .modified p) ∨ (∃ p, x = .added p) := by
  apply diffRight_diffs_kind
  apply diffLeft_diffs_kind
  intro x hx
  cases hx

/-- **Deleted** is reported exactly for the paths that exist only on the left and whose content is not
    the content of a path that exists only on the right (that would be a rename) -/
theorem C18_deleted_iff (left right : List (LPath × Digest)) (hl : AL.NoDupKeys left) (hr : AL.NoDupKeys right)
    (p : LPath) :
    Diff.deleted p ∈ diffStates right (some left) ↔
      ∃ d, AL.get left p = some d ∧ AL.get right p = none ∧
        ∀ q, AL.get right q = some d → (AL.get left q).isSome = true := by
  rw [mem_diffStates]
  simp only
  obtain ⟨hnd, _⟩ := final_nodup left right
  constructor
  · rintro (h | ⟨⟨d, ps⟩, he, q, hq, hx⟩ | ⟨e, _, hx⟩)
    · rcases final_diffs_kind left right _ h with ⟨_, hx⟩ | ⟨_, hx⟩ <;> cases hx
    · cases hx
      have hg := AL.get_of_mem hnd he
      rw [deletes_final left right hr] at hg
      by_cases h1 : onlyIn right left d = []
      · by_cases h2 : onlyIn left right d = []
        · simp [h1, h2] at hg
        · simp only [h1, h2, if_true, if_false, Option.some.injEq] at hg
          subst hg
          obtain ⟨hm, hn⟩ := (mem_onlyIn left right d p).mp hq
          refine ⟨d, AL.get_of_mem hl hm, hn, ?_⟩
          intro q hgq
          cases hgl : AL.get left q with
          | some x => rfl
          | none =>
            have : q ∈ onlyIn right left d := (mem_onlyIn right left d q).mpr ⟨AL.mem_of_get hgq, hgl⟩
            rw [h1] at this; cases this
      · simp [h1] at hg
    · cases hx
  · rintro ⟨d, hgl, hgr, hall⟩
    right; left
    have h1 : onlyIn right left d = [] := by
      cases h : onlyIn right left d with
      | nil => rfl
      | cons q qs =>
        have hq : q ∈ onlyIn right left d := by rw [h]; exact List.mem_cons_self ..
        obtain ⟨hm, hn⟩ := (mem_onlyIn right left d q).mp hq
        have := hall q (AL.get_of_mem hr hm)
        rw [hn] at this; cases this
    have hp : p ∈ onlyIn left right d := (mem_onlyIn left right d p).mpr ⟨AL.mem_of_get hgl, hgr⟩
    have h2 : onlyIn left right d ≠ [] := by intro h; rw [h] at hp; cases hp
    have hg := deletes_final left right hr d
    simp only [h1, h2, if_true, if_false] at hg
    exact ⟨(d, onlyIn left right d), AL.mem_of_get hg, p, hp, rfl⟩

/-- **Renamed** is reported exactly once per content that has paths only on the left and paths only on
    the right, and lists all of them: the left-only paths as the originals, the right-only paths as
    the new names, both sorted -/
theorem C18_renamed_iff (left right : List (LPath × Digest)) (hr : AL.NoDupKeys right) (o r : List LPath) :
    Diff.renamed o r ∈ diffStates right (some left) ↔
      ∃ d, onlyIn left right d ≠ [] ∧ onlyIn right left d ≠ [] ∧
        o = sortPaths (onlyIn left right d) ∧ r = sortPaths (onlyIn right left d) := by
  rw [mem_diffStates]
  simp only
  obtain ⟨_, hnd⟩ := final_nodup left right
  constructor
  · rintro (h | ⟨e, _, q, _, hx⟩ | ⟨⟨d, orig, rn⟩, he, hx⟩)
    · rcases final_diffs_kind left right _ h with ⟨_, hx⟩ | ⟨_, hx⟩ <;> cases hx
    · cases hx
    · have hg := AL.get_of_mem hnd he
      rw [renames_final left right hr] at hg
      by_cases hc : onlyIn right left d = [] ∨ onlyIn left right d = []
      · simp [hc] at hg
      · simp only [hc, if_false, Option.some.injEq, Prod.mk.injEq] at hg
        obtain ⟨h1, h2⟩ := hg
        subst h1; subst h2
        injection hx with ho hrn
        exact ⟨d, fun h => hc (Or.inr h), fun h => hc (Or.inl h), ho, hrn⟩
  · rintro ⟨d, h1, h2, ho, hrn⟩
    right; right
    have hg := renames_final left right hr d
    have hc : ¬ (onlyIn right left d = [] ∨ onlyIn left right d = []) := by
      rintro (h | h)
      · exact h2 h
      · exact h1 h
    simp only [hc, if_false] at hg
    exact ⟨(d, onlyIn left right d, onlyIn right left d), AL.mem_of_get hg, by rw [ho, hrn]⟩

/-- the `Renamed` entries are one per content: two of them never share an original or a new name -/
theorem C18_renamed_once (left right : List (LPath × Digest)) (hl : AL.NoDupKeys left)
    (d d' : Digest) (p : LPath) (h : p ∈ onlyIn left right d) (h' : p ∈ onlyIn left right d') : d = d' := by
  have h1 := AL.get_of_mem hl ((mem_onlyIn left right d p).mp h).1
  have h2 := AL.get_of_mem hl ((mem_onlyIn left right d' p).mp h').1
  rw [h1] at h2
  exact Option.some.inj h2

/-- non-vacuity: a concrete pair of states with a modified, an added, a deleted and a renamed path -/
example :
    diffStates [(['a'], ['1']), (['n'], ['2']), (['m'], ['9']), (['x'], ['4'])]
      (some [(['a'], ['0']), (['o'], ['2']), (['g'], ['3'])]) =
    [.modified ['a'], .added ['m'], .added ['x'], .deleted ['g'], .renamed (sortPaths [['o']]) (sortPaths [['n']])] := by rfl

/-! ### file log and last-update attribution -/

/-- **`ls -l` / last update**: the version shown for a path of version `vn` is the first version of
    the longest run of versions ending at `vn` throughout which the path holds the content it has in
    `vn` — the path has that content in every version from there to `vn`, and not in the one before -/
theorem C18_last_update (inv : Inv) (vn : Nat) (p : LPath) (d : Digest) (h : inv.holds vn p d) :
    inv.lastUpdate vn p ≤ vn ∧
    (∀ k, inv.lastUpdate vn p ≤ k → k ≤ vn → inv.holds k p d) ∧
    (inv.lastUpdate vn p ≤ 1 ∨ ¬ inv.holds (inv.lastUpdate vn p - 1) p d) := by
  obtain ⟨v, hv, hd⟩ := h
  have hall : ∀ k, vn ≤ k → k ≤ vn → inv.holds k p d := by
    intro k h1 h2
    have : k = vn := by omega
    subst this
    exact ⟨v, hv, hd⟩
  have := lastUpdate_go_spec inv p d vn vn vn (Nat.le_refl _) (Nat.le_refl _) hall
  unfold Inv.lastUpdate
  simp only [hv, hd]
  exact this

/-- **file log**: the versions listed for a path are exactly those in which its content differs from
    its content in the version before (appeared, changed, disappeared) -/
theorem C18_file_versions (inv : Inv) (p : LPath) (vs : List Nat) (h : inv.fileVersions p = .ok vs) (k : Nat) :
    k ∈ vs ↔ 1 ≤ k ∧ k ≤ inv.versions.length ∧ inv.contentAt k p ≠ inv.contentAt (k - 1) p := by
  unfold Inv.fileVersions at h
  simp only at h
  split at h
  · cases h
  · injection h with h
    subst h
    exact (fileVersions_fold inv p inv.versions.length (Nat.le_refl _)).2 k

/-- the file log fails only with NotFound, and only for a path that no version contains -/
theorem C18_file_versions_notfound (inv : Inv) (p : LPath) (e : Err) (h : inv.fileVersions p = .error e) :
    e = .notFound ∧ ∀ k, inv.contentAt k p = none := by
  unfold Inv.fileVersions at h
  simp only at h
  split at h
  · rename_i hem
    injection h with h
    refine ⟨h.symm, ?_⟩
    have hspec := (fileVersions_fold inv p inv.versions.length (Nat.le_refl _)).2
    have hnil : ((List.range inv.versions.length).foldl (inv.fileVersionsStep p) (none, [])).2 = [] := by
      simpa using hem
    intro k
    induction k with
    | zero => simp [Inv.contentAt, Inv.getVersion]
    | succ k ih =>
      by_cases hk : k + 1 ≤ inv.versions.length
      · cases hc : inv.contentAt (k + 1) p with
        | none => rfl
        | some d =>
          have : k + 1 ∈ ((List.range inv.versions.length).foldl (inv.fileVersionsStep p) (none, [])).2 := by
            rw [hspec]
            refine ⟨by omega, hk, ?_⟩
            rw [Nat.add_sub_cancel, ih, hc]
            exact fun h => by cases h
          rw [hnil] at this
          cases this
      · have : inv.versions[k]? = none := List.getElem?_eq_none (by omega)
        simp [Inv.contentAt, Inv.getVersion, this]
  · cases h

end Rocfl.Theorems.C18
