import RocflModel.Lemmas.StageLemmas
import RocflModel.Lemmas.ReadForever
/-
  C14 — versions advance one at a time and a stale commit is refused.

  Model: `VNum.next` (types.rs:297-315), `commit`/`commitInner` (repo.rs:891-1035 with the
  preconditions of fs.rs `write_new_object` / `write_new_version`).
-/
namespace Rocfl.Theorems.C14
open Rocfl

/-- `next` never panics: it answers with the next number or refuses (for every width, also ≥ 11). -/
theorem C14_next_total (v : VNum) : (∃ v', v.next = .ok v') ∨ v.next = .error .illegalState := by
  unfold VNum.next; split <;> simp

/-- a successful `next` is exactly the following number, same padding width -/
theorem C14_next_succ (v v' : VNum) (h : v.next = .ok v') : v'.number = v.number + 1 ∧ v'.width = v.width := by
  unfold VNum.next at h
  split at h
  · simp at h
  · simp at h; subst h; simp

/-- … and it still fits the width: a zero-padded number keeps at least one leading zero -/
theorem C14_next_fits (v v' : VNum) (h : v.next = .ok v') (hw : 0 < v.width) :
    v'.number < 10 ^ (v.width - 1) ∧ v'.number ≤ u32Max := by
  have hs := C14_next_succ v v' h
  unfold VNum.next at h
  split at h
  · simp at h
  · rename_i hlt
    unfold VNum.maxFor at hlt
    have hw' : v.width ≠ 0 := by omega
    simp only [hw', if_false] at hlt
    split at hlt <;> (rw [hs.1]; omega)

/-- past the largest number the width can express, `next` refuses -/
theorem C14_next_refuses (v : VNum) (hw : 0 < v.width) (h : 10 ^ (v.width - 1) ≤ v.number + 1) :
    v.next = .error .illegalState := by
  unfold VNum.next
  have hw' : v.width ≠ 0 := by omega
  have : v.number ≥ VNum.maxFor v.width := by
    unfold VNum.maxFor
    simp only [hw', if_false]
    split <;> omega
  simp [this]

/-- unpadded versions stop at `u32::MAX` -/
theorem C14_next_refuses_u32 (v : VNum) (hw : v.width = 0) (h : u32Max ≤ v.number) :
    v.next = .error .illegalState := by
  unfold VNum.next VNum.maxFor
  simp [hw, h]

/-- a commit that does not succeed leaves the main repository exactly as it was -/
theorem C14_failed_commit_main_unchanged (r : Repo) (id : Str) (m : Meta) (keep : Digest → List CPath)
    (hasRoot : Bool) (e : Err) (h : (commit r id m keep hasRoot).1 = .error e) :
    (commit r id m keep hasRoot).2.main = r.main := by
  rcases commit_cases r id m keep hasRoot with ⟨_, _, hm, _⟩ | ⟨o, _, _, _, hok, _⟩
  · exact hm
  · rw [hok] at h; cases h

/-- **stale commit**: if the object's head in the main repository is not the version the staged version
    was based on (staged head − 1), commit fails and the main repository is unchanged -/
theorem C14_stale_refused (r : Repo) (id : Str) (m : Meta) (keep : Digest → List CPath) (hasRoot : Bool)
    (old o : Obj) (hm : AL.get r.main id = some old) (hs : AL.get r.staged id = some o)
    (hstale : old.inv.head.number + 1 ≠ o.inv.head.number) :
    (∃ e, (commit r id m keep hasRoot).1 = .error e) ∧ (commit r id m keep hasRoot).2.main = r.main := by
  rcases commit_cases r id m keep hasRoot with ⟨e, he, hmain, _⟩ | ⟨o', hs', _, hcase, _, _⟩
  · exact ⟨⟨e, he⟩, hmain⟩
  · rw [hs] at hs'; cases hs'
    rcases hcase with ⟨hnone, _, _⟩ | ⟨old', hold', hh, _⟩
    · rw [hm] at hnone; cases hnone
    · rw [hm] at hold'; cases hold'
      rw [prepareCommit_head] at hh
      exact absurd hh hstale

/-- **replaced object**: if the object in the main repository does not carry the history the staged
    version was built on — it was purged and created again by another client, even with as many
    versions — commit fails and the main repository is unchanged: no committed version is overwritten
    or silently merged -/
theorem C14_replaced_object_refused (r : Repo) (id : Str) (m : Meta) (keep : Digest → List CPath) (hasRoot : Bool)
    (old o : Obj) (hm : AL.get r.main id = some old) (hs : AL.get r.staged id = some o)
    (hdiff : continuesHistory (prepareCommit o m keep).inv old.inv = false) :
    (∃ e, (commit r id m keep hasRoot).1 = .error e) ∧ (commit r id m keep hasRoot).2.main = r.main := by
  rcases commit_cases r id m keep hasRoot with ⟨e, he, hmain, _⟩ | ⟨o', hs', _, hcase, _, _⟩
  · exact ⟨⟨e, he⟩, hmain⟩
  · rw [hs] at hs'; cases hs'
    rcases hcase with ⟨hnone, _, _⟩ | ⟨old', hold', _, hc⟩
    · rw [hm] at hnone; cases hnone
    · rw [hm] at hold'; cases hold'
      rw [hdiff] at hc; cases hc

/-- a successful commit of a new version implies the main object carried exactly the staged history -/
theorem C14_commit_continues_history (r : Repo) (id : Str) (m : Meta) (keep : Digest → List CPath) (hasRoot : Bool)
    (old : Obj) (hm : AL.get r.main id = some old) (h : (commit r id m keep hasRoot).1 = .ok ()) :
    ∃ o, AL.get r.staged id = some o ∧ continuesHistory (prepareCommit o m keep).inv old.inv = true := by
  rcases commit_cases r id m keep hasRoot with ⟨e, he, _⟩ | ⟨o, hs, _, hcase, _, _⟩
  · rw [he] at h; cases h
  · rcases hcase with ⟨hnone, _, _⟩ | ⟨old', hold', _, hc⟩
    · rw [hm] at hnone; cases hnone
    · rw [hm] at hold'; cases hold'
      exact ⟨o, hs, hc⟩

/-- a successful commit creates exactly the next version: the committed head is the previous main head
    plus one (1 for a new object), with the staged version's padding width -/
theorem C14_commit_next (r : Repo) (id : Str) (m : Meta) (keep : Digest → List CPath) (hasRoot : Bool)
    (h : (commit r id m keep hasRoot).1 = .ok ()) :
    ∃ o new, AL.get r.staged id = some o ∧ AL.get (commit r id m keep hasRoot).2.main id = some new ∧
      new.inv.head = o.inv.head ∧
      (match AL.get r.main id with
       | none => new.inv.head.number = 1
       | some old => new.inv.head.number = old.inv.head.number + 1) ∧
      AL.get (commit r id m keep hasRoot).2.staged id = none := by
  rcases commit_cases r id m keep hasRoot with ⟨e, he, _⟩ | ⟨o, hs, _, hcase, hok, heq⟩
  · rw [he] at h; cases h
  · have hr' := heq
    refine ⟨o, installed (AL.get r.main id) (prepareCommit o m keep), hs, ?_, ?_, ?_, ?_⟩
    · rw [hr']; exact AL.get_insert_self _ _ _
    · simp [installed, prepareCommit_head]
    · rcases hcase with ⟨hnone, h1, _⟩ | ⟨old, hold, hh⟩
      · rw [hnone]; simpa [installed] using h1
      · rw [hold]; simp [installed]; omega
    · rw [hr']; exact AL.get_erase_self _ _

/-- committing never rewrites earlier versions: below the new head the committed inventory lists
    exactly the versions the staged inventory listed -/
theorem C14_earlier_versions_kept (r : Repo) (id : Str) (m : Meta) (keep : Digest → List CPath) (hasRoot : Bool)
    (h : (commit r id m keep hasRoot).1 = .ok ()) :
    ∃ o new, AL.get r.staged id = some o ∧ AL.get (commit r id m keep hasRoot).2.main id = some new ∧
      ∀ k, k < o.inv.head.number → new.inv.getVersion k = o.inv.getVersion k := by
  rcases commit_cases r id m keep hasRoot with ⟨e, he, _⟩ | ⟨o, hs, _, _, hok, heq⟩
  · rw [he] at h; cases h
  · have hr' := heq
    refine ⟨o, installed (AL.get r.main id) (prepareCommit o m keep), hs, ?_, ?_⟩
    · rw [hr']; exact AL.get_insert_self _ _ _
    · intro k hk
      simp only [Inv.getVersion, installed, prepareCommit_versions]
      by_cases h0 : k = 0
      · simp [h0]
      · simp only [h0, if_false]
        rw [List.getElem?_set_ne]
        omega

/-- **no committed version is ever overwritten** — for every history: whenever a commit succeeds on an
    object that already exists in a reachable repository, every version the object had is, entry for
    entry, still the version the new inventory records, and the head advanced by exactly one -/
theorem C14_reachable_commit_keeps_versions (spec : SpecV) (ops : List (Op × Str)) (id : Str) (m : Meta)
    (keep : Digest → List CPath) (hasRoot : Bool) (old : Obj)
    (hm : AL.get (run spec ops).main id = some old)
    (h : (commit (run spec ops) id m keep hasRoot).1 = .ok ()) :
    ∃ new, AL.get (commit (run spec ops) id m keep hasRoot).2.main id = some new ∧
      new.inv.head.number = old.inv.head.number + 1 ∧
      ∀ k, k ≤ old.inv.head.number → new.inv.getVersion k = old.inv.getVersion k := by
  obtain ⟨hok, hext⟩ := reachable_ext spec ops
  rcases commit_cases (run spec ops) id m keep hasRoot with ⟨e, he, _⟩ | ⟨o, hs, _, _, _, heq⟩
  · rw [he] at h; cases h
  · have hstep := prepareCommit_step m keep (staged_get_ok hok hs)
    have hex2 : Extends (prepareCommit o m keep) old := hstep.extends (hext.ext id o old hs hm)
    refine ⟨installed (some old) (prepareCommit o m keep), ?_, hex2.head, hex2.versions⟩
    rw [heq]; simp only; rw [AL.get_insert_self, hm]

end Rocfl.Theorems.C14
