import RocflModel.Cli
import RocflModel.Lemmas.ListViewLemmas
/-
  C20 — the command line does what the library does and its exit status is truthful.

  `Cli.translate` and the `*Exit` functions are tied to the binary by the correspondence run of
  ./check C20 (binary vs library on the translated call; observed exit status vs the model's).
-/
namespace Rocfl.Cli

open Rocfl

theorem any_invalid_iff (se sw : List Str) (rs : List (Option VResult)) :
    rs.any (objInvalid se sw) = true ↔
      ∃ r, some r ∈ rs ∧ ∃ e ∈ r.errors, e ∉ se := by
  simp only [List.any_eq_true]
  constructor
  · rintro ⟨x, hx, h⟩
    cases x with
    | none => simp [objInvalid] at h
    | some r =>
      simp only [objInvalid, suppress, Bool.not_eq_true', List.isEmpty_eq_false_iff_exists_mem, List.mem_filter,
        Bool.not_eq_true', List.contains_eq_mem, decide_eq_false_iff_not] at h
      obtain ⟨e, he, hn⟩ := h
      exact ⟨r, hx, e, he, hn⟩
  · rintro ⟨r, hr, e, he, hn⟩
    refine ⟨some r, hr, ?_⟩
    simp only [objInvalid, suppress, Bool.not_eq_true', List.isEmpty_eq_false_iff_exists_mem, List.mem_filter,
      List.contains_eq_mem, decide_eq_false_iff_not]
    exact ⟨e, he, hn⟩

theorem storage_invalid_iff (se sw : List Str) (r : VResult) :
    (!(suppress se sw r).errors.isEmpty) = true ↔ ∃ e ∈ r.errors, e ∉ se := by
  simp [suppress, List.isEmpty_eq_false_iff_exists_mem]

/-- `validate <ids>` exits 2 exactly when some object has an error that is not suppressed -/
theorem C20_validate_objects_exit2 (se sw : List Str) (rs : List (Option VResult)) :
    validateObjectsExit se sw rs = 2 ↔ ∃ r, some r ∈ rs ∧ ∃ e ∈ r.errors, e ∉ se := by
  unfold validateObjectsExit
  rw [← any_invalid_iff se sw rs]
  cases rs.any (objInvalid se sw) <;>
    cases rs.any Option.isNone <;> simp

/-- `validate <ids>` exits 0 exactly when every requested object could be validated and none has an
    unsuppressed error -/
theorem C20_validate_objects_exit0 (se sw : List Str) (rs : List (Option VResult)) :
    validateObjectsExit se sw rs = 0 ↔
      (∀ x ∈ rs, x ≠ none) ∧ ¬ ∃ r, some r ∈ rs ∧ ∃ e ∈ r.errors, e ∉ se := by
  unfold validateObjectsExit
  rw [← any_invalid_iff se sw rs]
  have hnone : rs.any Option.isNone = true ↔ ¬ ∀ x ∈ rs, x ≠ none := by
    simp [List.any_eq_true, Option.isNone_iff_eq_none]
  cases h1 : rs.any (objInvalid se sw) <;>
    cases h2 : rs.any Option.isNone <;> simp_all

/-- repository mode exits 2 exactly when the storage root, the storage hierarchy or some object has
    an unsuppressed error — the same filter applies to all three kinds of result -/
theorem C20_validate_repo_exit2 (se sw : List Str) (root hier : VResult) (objs : List (Option VResult)) :
    validateRepoExit se sw root hier objs = 2 ↔
      (∃ e ∈ root.errors, e ∉ se) ∨ (∃ e ∈ hier.errors, e ∉ se) ∨ (∃ r, some r ∈ objs ∧ ∃ e ∈ r.errors, e ∉ se) := by
  unfold validateRepoExit
  rw [← any_invalid_iff se sw objs, ← storage_invalid_iff se sw root, ← storage_invalid_iff se sw hier]
  cases objs.any (objInvalid se sw) <;>
    cases (!(suppress se sw root).errors.isEmpty) <;> cases (!(suppress se sw hier).errors.isEmpty) <;>
    cases objs.any Option.isNone <;> simp

theorem C20_validate_repo_exit0 (se sw : List Str) (root hier : VResult) (objs : List (Option VResult)) :
    validateRepoExit se sw root hier objs = 0 ↔
      (∀ x ∈ objs, x ≠ none) ∧ ¬ ((∃ e ∈ root.errors, e ∉ se) ∨ (∃ e ∈ hier.errors, e ∉ se) ∨
        (∃ r, some r ∈ objs ∧ ∃ e ∈ r.errors, e ∉ se)) := by
  unfold validateRepoExit
  rw [← any_invalid_iff se sw objs, ← storage_invalid_iff se sw root, ← storage_invalid_iff se sw hier]
  have hnone : objs.any Option.isNone = true ↔ ¬ ∀ x ∈ objs, x ≠ none := by
    simp [List.any_eq_true, Option.isNone_iff_eq_none]
  cases h1 : objs.any (objInvalid se sw) <;>
    cases h3 : (!(suppress se sw root).errors.isEmpty) <;> cases h4 : (!(suppress se sw hier).errors.isEmpty) <;>
    cases h2 : objs.any Option.isNone <;> simp_all

/-- suppressing codes is the same as validating the already filtered results without suppression:
    no result escapes the filter and none is filtered twice with a different effect -/
theorem C20_suppression_uniform (se sw : List Str) (root hier : VResult) (objs : List (Option VResult)) :
    validateRepoExit se sw root hier objs =
      validateRepoExit [] [] (suppress se sw root) (suppress se sw hier) (objs.map (Option.map (suppress se sw))) := by
  have idem : ∀ r : VResult, suppress [] [] r = r := by
    intro r; cases r; simp [suppress]
  have e1 : objs.any (objInvalid se sw) = (objs.map (Option.map (suppress se sw))).any (objInvalid [] []) := by
    induction objs with
    | nil => rfl
    | cons x xs ih => cases x <;> simp [ih, idem, objInvalid]
  have e2 : objs.any Option.isNone = (objs.map (Option.map (suppress se sw))).any Option.isNone := by
    clear e1
    induction objs with
    | nil => rfl
    | cons x xs ih => cases x <;> simp [ih]
  simp only [validateRepoExit]
  rw [e1, e2]
  simp only [idem]

/-- the exit status of every other command is 0 exactly when the library call succeeded; a partial
    failure of cp/mv is an `Err` (CopyMoveError) and therefore non-zero -/
theorem C20_main_exit (ok : Bool) : mainExit ok = 0 ↔ ok = true := by
  cases ok <;> simp [mainExit]

theorem C20_list_exit (n : Nat) : listExit n = 0 ↔ n = 0 := by
  unfold listExit; split <;> simp_all

/-- option table facts: `-i` selects the internal variants, `-r` only sets `recursive`, `-v` needs `-i` -/
theorem C20_cp_flags (id s dst : Str) (h1 : id.head? ≠ some '-') (h2 : s.head? ≠ some '-') :
    translate ["cp".toList, id, s, "--".toList, dst] = some (.copyExternal id [s] dst false) ∧
    translate ["cp".toList, "-r".toList, id, s, "--".toList, dst] = some (.copyExternal id [s] dst true) ∧
    translate ["cp".toList, "-i".toList, id, s, "--".toList, dst] = some (.copyInternal id none [s] dst false) ∧
    translate ["cp".toList, "-v".toList, "v1".toList, id, s, "--".toList, dst] = none := by
  have n1 : ¬ (id = ['-', '-']) := by intro h; simp [h] at h1
  have n2 : ¬ (s = ['-', '-']) := by intro h; simp [h] at h2
  have m1 : ¬ (id.head? = some '-' ∧ id.length > 1) := fun h => h1 h.1
  have m2 : ¬ (s.head? = some '-' ∧ s.length > 1) := fun h => h2 h.1
  refine ⟨?_, ?_, ?_, ?_⟩ <;>
    simp [translate, parseArgs, n1, n2, m1, m2, List.lookup, Parsed.has, Parsed.val]

example : translate ["commit".toList, "-n".toList, "Me".toList, "-p".toList, "obj".toList] =
    some (.commit "obj".toList none (some "Me".toList) none none none true) := by decide

example : validateRepoExit ["E072".toList] [] { errors := ["E072".toList] } { errors := [] } [some { errors := [] }] = 0 := by decide
example : validateRepoExit [] [] { errors := ["E072".toList] } { errors := [] } [some { errors := [] }] = 2 := by decide

/-! ### `ls <object> [<path>]`: what is printed (model `ListView.listContents` of cmd/list.rs) -/

/-- **`ls <object>`** prints every logical path of the version, one entry each -/
theorem C20_ls_lists_all (paths : List Str) : ListView.listContents false none paths = some paths :=
  ListView.list_all paths

/-- **`ls -D <object>`** prints the top directory: the paths without `/` and the top-level directories -/
theorem C20_ls_top_level (paths : List Str) :
    ListView.listContents true none paths =
      some (paths.filter (fun p => decide ('/' ∉ toByteChars p)) ++
            ((ListView.dirsOf paths).filter (fun d => decide ('/' ∉ toByteChars d) && !d.isEmpty)).map (· ++ ['/'])) :=
  ListView.list_top_level paths

/-- **`ls -D <object> <directory>`** prints exactly the direct children of that directory (files, and
    sub-directories with a trailing slash), when the query names no file and exactly one directory -/
theorem C20_ls_directory (paths : List Str) (d q : Str)
    (hq : toByteChars q = escapeAll (toByteChars d))
    (hq0 : ListView.queryGlob (some q) = q) (hql : q.getLast? ≠ some '/') (hstar : q ≠ ['*'])
    (hnofile : ∀ p ∈ paths, toByteChars p ≠ toByteChars d)
    (hdir : ((ListView.dirsOf paths).filter (fun x => decide (toByteChars x = toByteChars d))).length = 1) :
    ListView.listContents true (some q) paths =
      some (paths.filter (ListView.childOf (toByteChars d)) ++
            ((ListView.dirsOf paths).filter
              (fun x => !(decide (toByteChars x = toByteChars d)) && ListView.childOf (toByteChars d) x)).map (· ++ ['/'])) :=
  ListView.list_directory paths d q hq hq0 hql hstar hnofile hdir

/-! ### the report of `validate` at every verbosity -/

/-- **an object with an error is reported at every verbosity** -/
theorem C20_errors_always_printed (level : Level) (r : VResult) (h : r.errors ≠ []) : shouldPrint level r = true := by
  cases hr : r.errors with
  | nil => exact absurd hr h
  | cons e es => simp [shouldPrint, hr]

/-- a clean result is shown only at `info`, warnings only above `error` -/
theorem C20_clean_result_printed_at_info_only (level : Level) (r : VResult) (he : r.errors = []) (hw : r.warnings = []) :
    shouldPrint level r = decide (level = .info) := by
  cases level <;> simp [shouldPrint, he, hw]

end Rocfl.Cli
