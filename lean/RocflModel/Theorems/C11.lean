import RocflModel.Lemmas.LayoutLemmas
import RocflModel.Lemmas.ScriptLemmas
/-
  C11 — objects are stored exactly where the declared layout extension prescribes.

  Model:  `Rocfl.Layout.mapObjectId` / `validateCfg`   (mirror of src/ocfl/store/layout.rs)
  Spec:   `Rocfl.Spec.Layout.map` / `validCfg`         (from the five extension documents)
-/
namespace Rocfl.Theorems.C11
open Rocfl Rocfl.Layout Rocfl.Spec.Layout

/-- the digest handed to the model has the configured algorithm's hex length -/
def HashOk : Cfg → Str → Prop
  | .hashedNTuple alg _ _ _, h => h.length = alg.hexLen
  | .hashedNTupleId alg _ _, h => h.length = alg.hexLen
  | _, _ => True

/-- assumptions on Unicode case mapping, per extension (none for 0002/0003/0004) -/
def CaseOk (cm : CaseMap) : Cfg → Str → Prop
  | .flatOmitPrefix d, id => ∃ lc uc, SimpleCase cm lc uc d id
  | .nTupleOmitPrefix d _ _ _ _, _ => AsciiLaw cm ∧ ∀ c ∈ d, c.toNat < 128
  | _, _ => True

/-- **C11_cfg** — `validate()` accepts exactly the configurations the specifications allow. -/
theorem C11_cfg (cfg : Cfg) : validateCfg cfg = validCfg cfg := by
  cases cfg with
  | flatDirect => rfl
  | hashedNTuple alg ts nt short =>
    simp only [validateCfg, validCfg, validateTupleConfig, validateDigestAlgorithm, validateShortObjectRoot]
    generalize alg.hexLen = L
    generalize ts * nt = P
    rw [Bool.eq_iff_iff]
    cases short <;> simp <;> omega
  | hashedNTupleId alg ts nt =>
    simp only [validateCfg, validCfg, validateTupleConfig, validateDigestAlgorithm]
    generalize alg.hexLen = L
    generalize ts * nt = P
    rw [Bool.eq_iff_iff]
    simp; omega
  | flatOmitPrefix d => cases d <;> simp [validateCfg, validCfg]
  | nTupleOmitPrefix d ts nt p r =>
    cases d with
    | nil => simp [validateCfg, validCfg]
    | cons c cs =>
      simp only [validateCfg, validCfg]
      rw [Bool.eq_iff_iff]
      simp; omega

/-- **C11_map** — for every valid configuration and every id, the model of `map_object_id` returns
    exactly what the extension's specification prescribes — including *refusing* exactly the ids the
    specification says cannot be mapped (equality of `Except`). -/
theorem C11_map (cm : CaseMap) (cfg : Cfg) (hash id : Str)
    (hv : validCfg cfg = true) (hh : HashOk cfg hash) (hc : CaseOk cm cfg id) :
    mapObjectId cm cfg hash id = Spec.Layout.map cm cfg hash id := by
  cases cfg with
  | flatDirect => rfl
  | hashedNTuple alg ts nt short =>
    simp only [validCfg, Bool.and_eq_true, decide_eq_true_eq] at hv
    obtain ⟨⟨⟨⟨h1, h2⟩, h3⟩, h4⟩, h5⟩ := hv
    have hlen : ts * nt ≤ hash.length := by rw [show hash.length = alg.hexLen from hh]; exact h4
    simp only [mapObjectId, Spec.Layout.map]
    by_cases hz : ts = 0
    · have hn : nt = 0 := h3.mp hz
      subst hz; subst hn
      cases short <;> simp [segments, joinPath]
    · rw [if_neg (by simpa using hz), toTuples_eq _ _ _ hlen]
      cases short
      · simp [joinPath_snoc]
      · simp [hlen, joinPath_snoc]
  | hashedNTupleId alg ts nt =>
    simp only [validCfg, Bool.and_eq_true, decide_eq_true_eq] at hv
    obtain ⟨⟨⟨h1, h2⟩, h3⟩, h4⟩ := hv
    have hlen : ts * nt ≤ hash.length := by rw [show hash.length = alg.hexLen from hh]; exact h4
    simp only [mapObjectId, Spec.Layout.map, toTuples_eq _ _ _ hlen, lowerPercentEscape_encode,
      encapsulation, max0003]
    by_cases hl : (encodeId id).length ≤ 100
    · have : ¬ (encodeId id).length > 100 := by omega
      simp [hl, this, joinPath_snoc]
    · have : (encodeId id).length > 100 := by omega
      simp only [hl, this, if_false, if_true]
      rw [← joinPath_snoc]; simp
  | flatOmitPrefix d =>
    obtain ⟨lc, uc, H⟩ := hc
    have hd : d ≠ [] := by simpa [validCfg] using hv
    simp only [mapObjectId, Spec.Layout.map]
    exact omitPrefix_eq_spec cm lc uc d id hd H
  | nTupleOmitPrefix d ts nt pad rev =>
    obtain ⟨hcm, hdA⟩ := hc
    simp only [validCfg, Bool.and_eq_true, decide_eq_true_eq] at hv
    obtain ⟨⟨hd, _⟩, _⟩ := hv
    have hfun : inRange0007 = fun c => decide (0x20 ≤ c.toNat) && decide (c.toNat ≤ 0x7f) := rfl
    simp only [mapObjectId, Spec.Layout.map, hfun]
    by_cases hr : id.all (fun c => decide (0x20 ≤ c.toNat) && decide (c.toNat ≤ 0x7f)) = true
    · have hiA : ∀ c ∈ id, c.toNat < 128 := by
        intro c hc'
        have := List.all_eq_true.mp hr c hc'
        simp at this; omega
      rw [omitPrefix_eq_spec cm asciiLower asciiUpper d id hd (simpleCase_ascii cm hcm d id hdA hiA)]
      simp only [hr, Bool.not_true, Bool.false_eq_true, if_false]
      cases hs : stripPrefix cm d id with
      | error e => rfl
      | ok part =>
        have hpad : padTo pad (ts * nt) part = zeroPad pad (ts * nt) part := by
          unfold padTo zeroPad
          by_cases hl : part.length < ts * nt
          · cases pad <;> simp [hl]
          · have : ts * nt - part.length = 0 := by omega
            cases pad <;> simp [hl, this]
        have hlenp : ts * nt ≤ (zeroPad pad (ts * nt) part).length := by
          unfold zeroPad
          by_cases hl : part.length < ts * nt
          · cases pad <;> simp [hl] <;> omega
          · simp [hl]; omega
        simp only [hpad]
        cases rev
        · simp [toTuples_eq _ _ _ hlenp, joinPath_snoc]
        · have : ts * nt ≤ (zeroPad pad (ts * nt) part).reverse.length := by simpa using hlenp
          simp [toTuples_eq _ _ _ this, joinPath_snoc]
    · simp [hr]

/-! ### from the mapped path to the directory on disk -/

/-- **an accepted object root is stored at exactly the prescribed path**: joining the storage root
    with the mapped path `rel` names the directory made of the root's segments followed by exactly the
    segments of `rel` — nothing dropped, nothing resolved away — if and only if the store's guard
    (`ensure_within_storage_root`) accepts `rel`.  So an id whose prescribed path has an empty, `.` or
    `..` segment or is absolute, which the file system would silently store somewhere else, must be
    refused, and every id that is accepted lands where the extension says. -/
theorem C11_stored_where_prescribed (root : Path) (rel : Str) :
    resolveJoin root rel = root ++ splitSlash rel ↔ safeRel rel = true :=
  resolveJoin_exact_iff root rel

/-- the ids the placement run of the check feeds in: refused by the guard, each for its own reason -/
theorem C11_unnormalised_refused :
    safeRel "c//d".toList = false ∧ safeRel "e/./f".toList = false ∧ safeRel "g/h/".toList = false ∧
    safeRel "/abs".toList = false ∧ safeRel "a/../b".toList = false ∧ safeRel "c/d".toList = true := by decide

end Rocfl.Theorems.C11
