import RocflModel.Commit
/-
  C04 — a commit is all-or-nothing even when filesystem calls fail.

  Model: `Commit.execFault` — the install phase of `write_new_version` (store/fs.rs) as a state machine
  over the ten calls that touch the main repository, with the rollback as repaired.  The quantifier
  "every call failing once" is the finite table of steps, so the theorems are decided by evaluation of
  the whole table (`decide`), not of a sample.
-/
namespace Rocfl.Theorems.C04
open Rocfl.Commit

/-- without a fault the commit installs the new version and reports success -/
theorem C04_no_fault (upgrade : Bool) : execFault upgrade none = (newState upgrade, true) := by
  cases upgrade <;> decide

/-- **all or nothing**: whichever single call of the install phase fails, the object is afterwards
    exactly the old state and the commit reports an error — never anything in between -/
theorem C04_atomic (upgrade : Bool) (k : Nat) (hk : k < (steps upgrade).length) :
    execFault upgrade (some k) = (oldState, false) := by
  cases upgrade
  · have : ∀ k, k < 7 → execFault false (some k) = (oldState, false) := by decide
    exact this k (by simpa [steps] using hk)
  · have : ∀ k, k < 10 → execFault true (some k) = (oldState, false) := by decide
    exact this k (by simpa [steps] using hk)

/-- success is reported only for the complete new version -/
theorem C04_ok_only_if_new (upgrade : Bool) (fault : Option Nat) (h : (execFault upgrade fault).2 = true) :
    (execFault upgrade fault).1 = newState upgrade := by
  cases fault with
  | none => rw [C04_no_fault]
  | some k =>
    by_cases hk : k < (steps upgrade).length
    · rw [C04_atomic upgrade k hk] at h; cases h
    · -- a fault index beyond the last call never fires
      have hlen : (steps upgrade).length ≤ 10 := by cases upgrade <;> decide
      have key : ∀ (todo : List Step) (i : Nat) (s : ObjState), k ≥ i + todo.length →
          execFault.go (some k) todo i s = (todo.foldl apply s, true) := by
        intro todo
        induction todo with
        | nil => intro i s _; rfl
        | cons st rest ih =>
          intro i s hge
          simp only [List.length_cons] at hge
          have hne : ¬ (some k = some i) := by intro e; cases e; omega
          simp only [execFault.go, hne, if_false, List.foldl_cons]
          exact ih (i + 1) (apply s st) (by omega)
      have := key (steps upgrade) 0 oldState (by omega)
      simp only [execFault]
      rw [this]
      cases upgrade <;> decide

/-- the old and the new state are different: the dichotomy is not vacuous -/
theorem C04_old_ne_new (upgrade : Bool) : oldState ≠ newState upgrade := by
  cases upgrade <;> decide

end Rocfl.Theorems.C04
