import RocflModel.Lemmas.LockLemmas
/-
  C13 — operations on one object are mutually exclusive and the lock is always released.

  Model: `Lock.lean` — the lock file protocol of src/ocfl/lock.rs (atomic create_new / remove on
  drop) framing every locked operation of src/ocfl/repo.rs, and an interleaving semantics in which
  any number of processes take steps in any order (`run s schedule`).
-/
namespace Rocfl.Theorems.C13
open Rocfl.Lock

/-- **mutual exclusion, every interleaving**: whatever the schedule, two different processes never
    hold the lock of the same object at the same time -/
theorem C13_exclusion (ids : Nat → Nat) (sched : List Nat) (i j : Nat) (hij : i ≠ j)
    (hi : ((run (init ids) sched).procs i).phase = .holding)
    (hj : ((run (init ids) sched).procs j).phase = .holding) :
    ((run (init ids) sched).procs i).id ≠ ((run (init ids) sched).procs j).id :=
  (inv_run _ sched (inv_init ids)).unique i j hij hi hj

/-- **a refused operation changed nothing**: a process whose `acquire` failed (and one that has not
    started) has performed no object mutation -/
theorem C13_refused_changes_nothing (ids : Nat → Nat) (sched : List Nat) (i : Nat)
    (h : ((run (init ids) sched).procs i).phase = .refused) :
    ((run (init ids) sched).procs i).mutations = 0 :=
  (inv_run _ sched (inv_init ids)).quiet i (Or.inl h)

/-- **the lock is always released**: a lock file exists only while some process is inside the body of
    its operation; once nobody is, the locks directory is empty -/
theorem C13_released (ids : Nat → Nat) (sched : List Nat)
    (h : ∀ i, ((run (init ids) sched).procs i).phase ≠ .holding) : (run (init ids) sched).locks = [] := by
  have inv := inv_run _ sched (inv_init ids)
  cases hl : (run (init ids) sched).locks with
  | nil => rfl
  | cons l ls =>
    obtain ⟨i, hi, _⟩ := inv.owned l (by rw [hl]; exact List.mem_cons_self ..)
    exact absurd hi (h i)

/-- while an operation holds an object's lock, its lock file exists — so any other operation on that
    object through the same staging root is refused at once -/
theorem C13_holder_blocks (ids : Nat → Nat) (sched : List Nat) (i j : Nat)
    (hi : ((run (init ids) sched).procs i).phase = .holding)
    (hj : ((run (init ids) sched).procs j).phase = .idle)
    (hid : ((run (init ids) sched).procs j).id = ((run (init ids) sched).procs i).id) :
    ((step (run (init ids) sched) j).procs j).phase = .refused := by
  have inv := inv_run _ sched (inv_init ids)
  have hm : ((run (init ids) sched).procs j).id ∈ (run (init ids) sched).locks := by rw [hid]; exact inv.held i hi
  simp [step, stepProc, hj, hm]

theorem never_refused_aux (ids : Nat → Nat) (hinj : ∀ i j, i ≠ j → ids i ≠ ids j) (sched : List Nat) :
    ∀ s : Sys, Inv s → (∀ k, (s.procs k).id = ids k) → (∀ k, (s.procs k).phase ≠ .refused) →
      ∀ k, ((run s sched).procs k).phase ≠ .refused := by
  induction sched with
  | nil => intro s _ _ h; exact h
  | cons i sched ih =>
    intro s inv hid hnr
    rw [run, List.foldl_cons]
    apply ih (step s i) (inv_step s i inv)
    · intro k
      simp only [step]
      by_cases hki : k = i
      · subst hki; simp [stepProc_id, hid]
      · simp [hki, hid]
    · intro k
      simp only [step]
      by_cases hki : k = i
      · subst hki
        simp only [if_true]
        cases hp : (s.procs k).phase with
        | idle =>
          by_cases hl : (s.procs k).id ∈ s.locks
          · obtain ⟨j, hj, hjl⟩ := inv.owned _ hl
            have hjk : j ≠ k := by intro e; rw [e, hp] at hj; cases hj
            rw [hid, hid] at hjl
            exact absurd hjl (hinj j k hjk)
          · simp [stepProc, hp, hl]
        | holding => simp [stepProc, hp]
        | done => simp [stepProc, hp]
        | refused => exact absurd hp (hnr k)
      · simp only [hki, if_false]; exact hnr k

/-- **operations on different objects do not interfere**: if all processes work on different objects,
    no operation is ever refused, whatever the interleaving -/
theorem C13_different_objects_never_refused (ids : Nat → Nat) (hinj : ∀ i j, i ≠ j → ids i ≠ ids j)
    (sched : List Nat) : ∀ k, ((run (init ids) sched).procs k).phase ≠ .refused :=
  never_refused_aux ids hinj sched (init ids) (inv_init ids) (fun _ => rfl) (by intro k; simp [init])

/-! ### serialisability (model with object states: a locked operation reads the object once it holds
    the lock and writes the result of its body before it releases the lock) -/

/-- **every concurrent run equals a serial one**: whatever the schedule, any number of processes, any
    assignment of processes to objects and any bodies — the final state of every object is the one
    obtained by running, one after the other in the order in which they completed, exactly the
    operations on that object that completed -/
theorem C13_serializable (ids : Nat → Nat) (fs : Nat → Nat → Nat) (store0 : Nat → Nat) (sched : List Nat) (o : Nat) :
    (runS fs (initS ids store0) sched).store o =
      serial ids fs store0 (runS fs (initS ids store0) sched).log o :=
  (runS_inv ids fs store0 sched).store_ok o

/-- the serial order consists of exactly the operations that reported completion: a refused one (lock
    error) is not in it, an operation still running is not in it yet -/
theorem C13_serial_order_is_the_successful (ids : Nat → Nat) (fs : Nat → Nat → Nat) (store0 : Nat → Nat)
    (sched : List Nat) (i : Nat) :
    i ∈ (runS fs (initS ids store0) sched).log ↔ ((runS fs (initS ids store0) sched).procs i).phase = .done :=
  (runS_inv ids fs store0 sched).log_ok i

/-- an operation on another object never changes this object: objects nobody completed an operation
    on keep their initial state -/
theorem C13_untouched_object_keeps_state (ids : Nat → Nat) (fs : Nat → Nat → Nat) (store0 : Nat → Nat)
    (sched : List Nat) (o : Nat) (h : ∀ i ∈ (runS fs (initS ids store0) sched).log, ids i ≠ o) :
    (runS fs (initS ids store0) sched).store o = store0 o := by
  rw [C13_serializable]
  unfold serial
  have : (runS fs (initS ids store0) sched).log.filter (fun i => ids i = o) = [] := by
    apply List.filter_eq_nil_iff.mpr
    intro i hi
    simpa using h i hi
  rw [this]; rfl

/-- non-vacuity: two processes on one object, interleaved so that the second is refused, then a retry
    by a third succeeds: the object has seen the first and the third body, in that order -/
example :
    let s := runS (fun i st => st * 10 + i) (initS (fun _ => 7) (fun _ => 0)) [1, 2, 1, 3, 3]
    s.store 7 = 13 ∧ s.log = [1, 3] ∧ (s.procs 2).phase = .refused := by decide

end Rocfl.Theorems.C13
