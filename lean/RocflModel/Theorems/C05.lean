import RocflModel.Commit
/-
  C05 — a kill during commit loses nothing and never yields a silently wrong object.

  Model: `Commit.execKill` — the process dies right before step `k` of the install phase (calls already
  made are durable and ordered).  `flaggedInvalid` lists the conditions rocfl's validator reports; that
  the real `rocfl validate` exits 2 on every such state is what the kill enumeration checks.
-/
namespace Rocfl.Theorems.C05
open Rocfl.Commit

/-- **old, new, or reported invalid**: whenever the process dies, the object is exactly the old state,
    exactly the new state, or a state the validator flags — never one that validates yet differs from both -/
theorem C05_old_new_or_invalid (upgrade : Bool) (k : Nat) :
    execKill upgrade k = oldState ∨ execKill upgrade k = newState upgrade ∨
      flaggedInvalid upgrade (execKill upgrade k) = true := by
  by_cases hk : k ≤ 10
  · cases upgrade
    · have : ∀ k, k ≤ 10 → execKill false k = oldState ∨ execKill false k = newState false ∨
          flaggedInvalid false (execKill false k) = true := by decide
      exact this k hk
    · have : ∀ k, k ≤ 10 → execKill true k = oldState ∨ execKill true k = newState true ∨
          flaggedInvalid true (execKill true k) = true := by decide
      exact this k hk
  · -- beyond the last call the whole script ran
    have hlen : (steps upgrade).length ≤ 10 := by cases upgrade <;> decide
    have : (steps upgrade).take k = steps upgrade := List.take_of_length_le (by omega)
    right; left
    simp only [execKill, this]
    cases upgrade <;> decide

/-- the old and new states themselves are not flagged (the validator accepts them) -/
theorem C05_old_new_not_flagged (upgrade : Bool) :
    flaggedInvalid upgrade oldState = false ∧ flaggedInvalid upgrade (newState upgrade) = false := by
  cases upgrade <;> decide

/-- the version directory moves by a single rename: at every kill point it is entirely in staging or
    entirely in the object (`versionDir` flips exactly once, at step 0) -/
theorem C05_version_dir_moves_once (upgrade : Bool) (k : Nat) :
    (execKill upgrade k).versionDir = decide (0 < k) := by
  by_cases hk : k ≤ 10
  · cases upgrade
    · have : ∀ k, k ≤ 10 → (execKill false k).versionDir = decide (0 < k) := by decide
      exact this k hk
    · have : ∀ k, k ≤ 10 → (execKill true k).versionDir = decide (0 < k) := by decide
      exact this k hk
  · have hlen : (steps upgrade).length ≤ 10 := by cases upgrade <;> decide
    have : (steps upgrade).take k = steps upgrade := List.take_of_length_le (by omega)
    simp only [execKill, this]
    have hpos : decide (0 < k) = true := by simp; omega
    rw [hpos]
    cases upgrade <;> decide

end Rocfl.Theorems.C05
