import RocflModel.ValidateNums
/-
  C17 — validate always terminates with a verdict, whatever is on disk.

  Lean functions are total, so termination of the model is by construction; the content here is the
  cost of the one loop of the validator whose trip count used to depend on the *values* in the
  inventory rather than on its size (`validate_version_nums`), and the overflow at `u32::MAX`.
-/
namespace Rocfl.Theorems.C17
open Rocfl.ValidateNums

theorem step_work_le (a : Acc) (v : Nat) : (stepVersion a v).work ≤ a.work + (maxMissing + 2) := by
  unfold stepVersion
  split
  · omega
  · simp only
    have h1 : min (v - a.next) maxMissing ≤ maxMissing := Nat.min_le_right _ _
    have h2 : (if v - a.next > maxMissing then 1 else 0) ≤ 1 := by split <;> omega
    split <;> simp only <;> omega

theorem foldl_work_le (vs : List Nat) (a : Acc) : (vs.foldl stepVersion a).work ≤ a.work + (maxMissing + 2) * vs.length := by
  induction vs generalizing a with
  | nil => simp
  | cons v vs ih =>
    have h1 := ih (stepVersion a v)
    have h2 := step_work_le a v
    simp only [List.foldl_cons, List.length_cons]
    have : (maxMissing + 2) * (vs.length + 1) = (maxMissing + 2) * vs.length + (maxMissing + 2) := by
      rw [Nat.mul_succ]
    omega

/-- **work proportional to the input**: the number of loop iterations and emitted results of the version
    number check is at most 102 per version entry of the inventory — whatever numbers the keys carry
    (`v30000000`, `v4294967295`, …) -/
theorem C17_version_check_linear (versions : List Nat) : (run versions).work ≤ (maxMissing + 2) * versions.length := by
  have := foldl_work_le versions { next := 1 }
  simpa [run] using this

/-- the results emitted are bounded the same way -/
theorem C17_version_errors_linear (versions : List Nat) : (run versions).e010 ≤ (run versions).work := by
  have key : ∀ (vs : List Nat) (a : Acc), a.e010 ≤ a.work → (vs.foldl stepVersion a).e010 ≤ (vs.foldl stepVersion a).work := by
    intro vs
    induction vs with
    | nil => intro a h; exact h
    | cons v vs ih =>
      intro a h
      apply ih
      unfold stepVersion
      split
      · exact h
      · simp only
        split <;> simp only <;> omega
  exact key versions { next := 1 } (by simp)

/-- before the repair the work was the numeric gap: a single key `v(n+1)` cost `n` iterations —
    proved for every `n`, not evaluated -/
theorem C17_gap_witness_before_fix (n : Nat) : workBefore [n + 1] = n + 1 := by
  simp [workBefore]; omega

/-- at `u32::MAX` the loop now stops instead of overflowing the counter -/
theorem C17_stops_at_u32_max (a : Acc) (h : a.stopped = false) : (stepVersion a u32Max).stopped = true := by
  unfold stepVersion
  simp [h]

end Rocfl.Theorems.C17
