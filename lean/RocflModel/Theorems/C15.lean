import RocflModel.Lemmas.S3Lemmas
/-
  C15 — an S3 repository behaves exactly like a filesystem repository.

  What is proved here is the part that is arithmetic: keys, the listing loop and the splitting of
  uploads.  That every operation leaves the same repository on both back ends is decided by the
  differential run of ./check C15 (the same histories against the filesystem store and against the
  S3 store talking to an S3 stand-in, compared answer by answer and key by key).
-/
namespace Rocfl.S3

open Rocfl

/-- however many entries the service returns per page, `list_prefix` assembles exactly the full
    listing, in order, with no entry lost or repeated -/
theorem C15_list_page_independent (all : List Entry) (pageSize : Nat) (h : 0 < pageSize) :
    listAll all pageSize (all.length + 1) 0 = all := by
  simpa using listAll_drop all pageSize h (all.length + 1) 0 (by omega)

/-- two page sizes give the same listing -/
theorem C15_list_same_for_all_page_sizes (all : List Entry) (n m : Nat) (hn : 0 < n) (hm : 0 < m) :
    listAll all n (all.length + 1) 0 = listAll all m (all.length + 1) 0 := by
  rw [C15_list_page_independent all n hn, C15_list_page_independent all m hm]

/-- a key built from the (normalised) repository prefix and a relative path is made relative again
    by the byte offset `list_prefix` uses — for every prefix, including non-ASCII ones -/
theorem C15_key_roundtrip (pre rel : Str) (h1 : pre ≠ []) (h2 : pre.getLast? ≠ some '/')
    (h3 : rel ≠ []) (h4 : rel.head? ≠ some '/') :
    relativize pre (keyOf pre rel) = some rel := by
  unfold relativize keyOf prefixOffset
  rw [join_plain pre rel h1 h2 h3 h4]
  have : pre.isEmpty = false := by cases pre <;> simp_all
  simp only [this, Bool.false_eq_true, ↓reduceIte]
  rw [dropBytes_append]
  have e : '/'.utf8Size = 1 := by decide
  simp [dropBytes, e]

theorem C15_key_roundtrip_no_prefix (rel : Str) (h4 : rel.head? ≠ some '/') :
    relativize [] (keyOf [] rel) = some rel := by
  unfold relativize keyOf prefixOffset
  rw [join_empty_prefix rel h4]
  simp [dropBytes]

/-- the prefix the client keeps never ends in a slash, whatever the user passed -/
theorem C15_prefix_normalised (p : Str) : (normPrefix p).getLast? ≠ some '/' := normPrefix_last p

/-- why that matters (the defect repaired in 71e105c): with the prefix `pre/` kept as given, every
    listed key lost its first character -/
theorem C15_trailing_slash_witness :
    relativize ['p', 'r', 'e', '/'] (keyOf ['p', 'r', 'e', '/'] ['a', 'b', 'c']) = some ['b', 'c'] := by
  have e1 : 'p'.utf8Size = 1 := by decide
  have e2 : 'r'.utf8Size = 1 := by decide
  have e3 : 'e'.utf8Size = 1 := by decide
  have e4 : '/'.utf8Size = 1 := by decide
  have e5 : 'a'.utf8Size = 1 := by decide
  have k : keyOf ['p', 'r', 'e', '/'] ['a', 'b', 'c'] = ['p', 'r', 'e', '/', 'a', 'b', 'c'] := by decide
  rw [k]
  simp [relativize, prefixOffset, utf8Len, dropBytes, e1, e2, e3, e4, e5]

/-- the bodies of a multipart upload concatenate to the file, none is empty, and every part but the
    last has exactly the part size -/
theorem C15_multipart (bytes : List Nat) :
    (chunks partSize bytes.length bytes).flatten = bytes ∧
    (∀ c ∈ chunks partSize bytes.length bytes, 0 < c.length ∧ c.length ≤ partSize) ∧
    (∀ c ∈ (chunks partSize bytes.length bytes).dropLast, c.length = partSize) :=
  ⟨chunks_flatten partSize (by decide) _ _ (Nat.le_refl _), chunks_sizes partSize (by decide) _ _ (Nat.le_refl _),
   chunks_full partSize (by decide) _ _ (Nat.le_refl _)⟩

example : listAll [.key ['a'], .dir ['b', '/'], .key ['c']] 2 4 0 = [.key ['a'], .dir ['b', '/'], .key ['c']] := by decide
example : entries ["p/a".toList, "p/d/x".toList, "p/d/y".toList, "q".toList] "p/".toList true =
    [.key "p/a".toList, .dir "p/d/".toList] := by decide

/-! ### a delimiter listing is the directory view of the key set -/

/-- **files of a directory**: a listing of `pfx` with the delimiter `/` enumerates as keys exactly the
    stored keys below `pfx` that have no further `/` — the files directly in that directory -/
theorem C15_listing_files (keys : List Str) (pfx k : Str) :
    Entry.key k ∈ entries keys pfx true ↔
      k ∈ keys ∧ pfx.isPrefixOf k = true ∧ commonPrefix pfx.length k = none := by
  rw [entries_delim, group_mem_key]
  simp only [List.not_mem_nil, false_or, List.mem_filter]
  constructor
  · rintro ⟨⟨a, b⟩, c⟩; exact ⟨a, b, c⟩
  · rintro ⟨a, b, c⟩; exact ⟨⟨a, b⟩, c⟩

/-- **sub-directories**: it enumerates as common prefixes exactly the directories directly below
    `pfx` that hold at least one key, however deep — none is left out and none is invented -/
theorem C15_listing_dirs (keys : List Str) (pfx cp : Str) :
    Entry.dir cp ∈ entries keys pfx true ↔
      ∃ k, k ∈ keys ∧ pfx.isPrefixOf k = true ∧ commonPrefix pfx.length k = some cp := by
  rw [entries_delim, group_mem_dir]
  simp only [List.not_mem_nil, false_or, List.mem_filter]
  constructor
  · rintro ⟨k, ⟨a, b⟩, c⟩; exact ⟨k, a, b, c⟩
  · rintro ⟨k, a, b, c⟩; exact ⟨k, ⟨a, b⟩, c⟩

/-- **recursive listing** (no delimiter): exactly the stored keys below the prefix, in order -/
theorem C15_listing_recursive (keys : List Str) (pfx : Str) :
    entries keys pfx false = (keys.filter (fun k => pfx.isPrefixOf k)).map Entry.key := rfl

end Rocfl.S3
