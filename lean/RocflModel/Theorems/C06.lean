import RocflModel.Validator
/-
  C06 — validate reports every corruption of a stored object.
-/
namespace Rocfl.Theorems.C06
open Rocfl Rocfl.Validator

/-- **every corruption kind has a check that answers to it** when fixity checking is on -/
theorem C06_every_kind_has_a_check (c : Corruption) : expectedCodes c true ≠ [] := by
  cases c <;> simp [expectedCodes]

/-- **structural corruptions are answered without fixity checking as well** -/
theorem C06_structural_without_fixity (c : Corruption) (h : c.structural = true) : expectedCodes c false ≠ [] := by
  cases c <;> simp_all [expectedCodes, Corruption.structural]

/-- the corruptions that need fixity checking are exactly the in-content byte corruptions -/
theorem C06_only_content_bytes_need_fixity (c : Corruption) : expectedCodes c false = [] ↔ c.structural = false := by
  cases c <;> simp [expectedCodes, Corruption.structural]

/-- **any change of an inventory's bytes is caught by its sidecar**: with an injective digest, a sidecar
    written for bytes `b` does not validate any other bytes `b'` -/
theorem C06_inventory_bytes (digest : α → Str) (hinj : ∀ x y, (digest x).map asciiLower = (digest y).map asciiLower → x = y)
    (b b' : α) (hne : b ≠ b') : sidecarOk digest b' (digest b) = false := by
  simp only [sidecarOk]
  cases h : ((digest b).map asciiLower == (digest b').map asciiLower) with
  | false => rfl
  | true => exact absurd (hinj b b' (by simpa using h)) hne

/-- **any change of the digest recorded in a sidecar** — other than a change of hex case, which the
    statement excludes as compensated — is caught -/
theorem C06_sidecar_digest (digest : α → Str) (b : α) (recorded : Str)
    (hne : recorded.map asciiLower ≠ (digest b).map asciiLower) : sidecarOk digest b recorded = false := by
  simp only [sidecarOk]
  cases h : (recorded.map asciiLower == (digest b).map asciiLower) with
  | false => rfl
  | true => exact absurd (by simpa using h) hne

/-- a sidecar written for the bytes validates them (the premise of the two theorems is inhabited) -/
theorem C06_sidecar_accepts_written (digest : α → Str) (b : α) : sidecarOk digest b (digest b) = true := by
  simp [sidecarOk]

end Rocfl.Theorems.C06
