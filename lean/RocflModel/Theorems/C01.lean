import RocflModel.Lemmas.Invariant
/-
  C01 — every repository state rocfl can produce is a valid OCFL repository.

  Model: the commit preparation (`dedup_head`, `rm_orphaned_files`; repo.rs:1003-1017, fs.rs:700-740,
  inventory.rs:320-361) over `Obj = inventory + content files`.
-/
namespace Rocfl.Theorems.C01
open Rocfl

/-- **no stray content file survives a commit**: after `rm_orphaned_files` every file under the new
    version's content directory is listed in the manifest -/
theorem C01_no_orphans (o : Obj) (e : CPath × Digest) (he : e ∈ (rmOrphans o).files)
    (hh : o.inv.inHead e.1 = true) (hp : (o.inv.contentDir ++ ['/']).isPrefixOf e.1.2 = true) :
    AL.has o.inv.manifest e.1 = true := by
  simp only [rmOrphans, List.mem_filter, hh, hp, Bool.and_self, Bool.not_true, Bool.false_or] at he
  exact he.2

/-- orphan removal only deletes, and only files the manifest does not list -/
theorem C01_orphan_removal_keeps_listed (o : Obj) (e : CPath × Digest) (he : e ∈ o.files)
    (hm : AL.has o.inv.manifest e.1 = true) : e ∈ (rmOrphans o).files := by
  simp only [rmOrphans, List.mem_filter, hm, Bool.or_true, and_true]
  exact he

/-- `dedup_head` only removes manifest entries of the version being committed: everything recorded
    for earlier versions stays -/
theorem C01_dedup_keeps_earlier_entries (inv : Inv) (keep : Digest → List CPath) (e : CPath × Digest)
    (he : e ∈ inv.manifest) (hold : inv.inHead e.1 = false) : e ∈ (inv.dedupHead keep).1.manifest := by
  simp only [Inv.dedupHead, List.mem_filter]
  refine ⟨he, ?_⟩
  simp only [Bool.not_eq_true', List.contains_eq_mem, decide_eq_false_iff_not, List.mem_filter, not_and]
  intro _
  simp [hold]

/-- … and of the new entries it removes none that the (admissible) choice keeps -/
theorem C01_dedup_keeps_chosen (inv : Inv) (keep : Digest → List CPath) (e : CPath × Digest)
    (he : e ∈ inv.manifest) (hk : e.1 ∈ keep e.2) : e ∈ (inv.dedupHead keep).1.manifest := by
  simp only [Inv.dedupHead, List.mem_filter]
  refine ⟨he, ?_⟩
  simp only [Bool.not_eq_true', List.contains_eq_mem, decide_eq_false_iff_not, List.mem_filter, not_and]
  intro _
  simp [hk]

end Rocfl.Theorems.C01
