import RocflModel.Lemmas.Invariant
import RocflModel.Lemmas.RepoInvariant
/-
  C01 — every repository state rocfl can produce is a valid OCFL repository.

  Model: the commit preparation (`dedup_head`, `rm_orphaned_files`; repo.rs:1003-1017, fs.rs:700-740,
  inventory.rs:320-361) over `Obj = inventory + content files`.
-/
namespace Rocfl.Theorems.C01
open Rocfl

/-- **no stray content file survives a commit**: after `rm_orphaned_files` every file under the new
    version's content directory is listed in the manifest -/
theorem C01_no_orphans (o : Obj) (e : CPath × Digest) (he : e ∈ (rmOrphans o).files)
    (hh : o.inv.inHead e.1 = true) (hp : (o.inv.contentDir ++ ['/']).isPrefixOf e.1.2 = true) :
    AL.has o.inv.manifest e.1 = true := by
  simp only [rmOrphans, List.mem_filter, hh, hp, Bool.and_self, Bool.not_true, Bool.false_or] at he
  exact he.2

/-- orphan removal only deletes, and only files the manifest does not list -/
theorem C01_orphan_removal_keeps_listed (o : Obj) (e : CPath × Digest) (he : e ∈ o.files)
    (hm : AL.has o.inv.manifest e.1 = true) : e ∈ (rmOrphans o).files := by
  simp only [rmOrphans, List.mem_filter, hm, Bool.or_true, and_true]
  exact he

/-- `dedup_head` only removes manifest entries of the version being committed: everything recorded
    for earlier versions stays -/
theorem C01_dedup_keeps_earlier_entries (inv : Inv) (keep : Digest → List CPath) (e : CPath × Digest)
    (he : e ∈ inv.manifest) (hold : inv.inHead e.1 = false) : e ∈ (inv.dedupHead keep).1.manifest := by
  simp only [Inv.dedupHead, List.mem_filter]
  refine ⟨he, ?_⟩
  simp only [Bool.not_eq_true', List.contains_eq_mem, decide_eq_false_iff_not, List.mem_filter, not_and]
  intro _
  simp [hold]

/-- … and of the new entries it removes none that the (admissible) choice keeps -/
theorem C01_dedup_keeps_chosen (inv : Inv) (keep : Digest → List CPath) (e : CPath × Digest)
    (he : e ∈ inv.manifest) (hk : e.1 ∈ keep e.2) : e ∈ (inv.dedupHead keep).1.manifest := by
  simp only [Inv.dedupHead, List.mem_filter]
  refine ⟨he, ?_⟩
  simp only [Bool.not_eq_true', List.contains_eq_mem, decide_eq_false_iff_not, List.mem_filter, not_and]
  intro _
  simp [hk]

/-- **every history**: in every repository reachable by any sequence of create / cp / mv / rm / reset /
    commit / upgrade / purge operations — whatever their arguments and outcomes — every committed object
    has exactly the versions 1 … head, and the logical state of each of its versions lists every path
    once, holds no path that is both a file and a directory, and no empty path -/
theorem C01_reachable_objects_wellformed (spec : SpecV) (ops : List (Op × Str)) (id : Str) (o : Obj)
    (h : AL.get (run spec ops).main id = some o) :
    (1 ≤ o.inv.head.number ∧ o.inv.versions.length = o.inv.head.number) ∧
    ∀ v ∈ o.inv.versions, AL.NoDupKeys v.state ∧ NoConflict v.state ∧ [] ∉ AL.keys v.state := by
  have hr := reachable_ok spec ops
  have ho := main_get_ok hr h
  exact ⟨ho.1, fun v hv => ⟨(ho.2 v hv).nodup, (ho.2 v hv).noConflict, (ho.2 v hv).noRoot⟩⟩

/-- in particular no logical path of any version of any reachable object is also a directory there -/
theorem C01_reachable_file_is_not_dir (spec : SpecV) (ops : List (Op × Str)) (id : Str) (o : Obj)
    (h : AL.get (run spec ops).main id = some o) (v : Version) (hv : v ∈ o.inv.versions) (p : LPath)
    (hf : v.isFile p = true) : v.isDir p = false :=
  file_not_dir v ((main_get_ok (reachable_ok spec ops) h).2 v hv) p hf

end Rocfl.Theorems.C01
