import RocflModel.Lemmas.StageLemmas
/-
  C08 — staged changes and other objects never touch committed data.

  Model: `step` (Machine.lean) over `Repo = {main, staged}`; `main` is the content of the storage
  root outside `extensions/rocfl-staging`, `staged` the staging repository.
-/
namespace Rocfl.Theorems.C08
open Rocfl

/-- **staging operations never change the main repository** (new, cp, mv, rm, reset, reset --all;
    external and internal; succeeding, partially failing or failing) -/
theorem C08_staging_preserves_main (r : Repo) (now : Str) (op : Op) (h : op.isStaging = true) :
    (step r now op).2.main = r.main := by
  cases op with
  | create id spec alg cdir width =>
    simp only [step]
    split
    · rename_i r' hc; exact (createObject_frame _ _ _ _ _ _ _ _ hc).1
    · rfl
  | cpx id srcs dst rec =>
    simp only [step, copyExternal]
    split
    · rfl
    · exact (withStaged_frame _ _ _ _ _).1
  | cpi id ver srcs dst rec =>
    simp only [step, internalOp]
    split
    · rfl
    · exact (withStaged_frame _ _ _ _ _).1
  | mvi id srcs dst =>
    simp only [step, internalOp]
    split
    · rfl
    · exact (withStaged_frame _ _ _ _ _).1
  | rm id paths rec =>
    simp only [step, removeFiles]
    split
    · rfl
    · exact (withStaged_frame _ _ _ _ _).1
  | resetp id paths rec =>
    simp only [step, resetPaths]
    repeat' split
    all_goals rfl
  | resetAll id => rfl
  | commit => simp [Op.isStaging] at h
  | upgrade => simp [Op.isStaging] at h
  | purge => simp [Op.isStaging] at h


/-- **an operation on one object never alters the committed or staged form of any other object** -/
theorem C08_other_objects (r : Repo) (now : Str) (op : Op) (id' : Str) (hne : id' ≠ op.target) :
    AL.get (step r now op).2.main id' = AL.get r.main id' ∧
    AL.get (step r now op).2.staged id' = AL.get r.staged id' := by
  cases op with
  | create id spec alg cdir width =>
    simp only [step]
    split
    · rename_i r' hc
      have := createObject_frame _ _ _ _ _ _ _ _ hc
      exact ⟨by rw [this.1], this.2.2.1 id' hne⟩
    · exact ⟨rfl, rfl⟩
  | cpx id srcs dst rec =>
    simp only [step, copyExternal]
    split
    · exact ⟨rfl, rfl⟩
    · have := withStaged_frame r id now ([] : List (List Str)) (copyExternalBody srcs dst rec now)
      exact ⟨by rw [this.1], this.2.2 id' hne⟩
  | cpi id ver srcs dst rec =>
    simp only [step, internalOp]
    split
    · exact ⟨rfl, rfl⟩
    · have := withStaged_frame r id now () (internalBody false ver srcs dst rec now)
      exact ⟨by rw [this.1], this.2.2 id' hne⟩
  | mvi id srcs dst =>
    simp only [step, internalOp]
    split
    · exact ⟨rfl, rfl⟩
    · have := withStaged_frame r id now () (internalBody true none srcs dst true now)
      exact ⟨by rw [this.1], this.2.2 id' hne⟩
  | rm id paths rec =>
    simp only [step, removeFiles]
    split
    · exact ⟨rfl, rfl⟩
    · have := withStaged_frame r id now () (removeBody paths rec)
      exact ⟨by rw [this.1], this.2.2 id' hne⟩
  | resetp id paths rec =>
    simp only [step, resetPaths]
    split
    · exact ⟨rfl, rfl⟩
    · split
      · exact ⟨rfl, rfl⟩
      · split
        · exact ⟨rfl, rfl⟩
        · exact ⟨rfl, AL.get_insert_ne _ _ _ _ hne⟩
  | resetAll id => exact ⟨rfl, AL.get_erase_ne _ _ _ hne⟩
  | commit id m keep hasRoot => exact (commit_frame r id m keep hasRoot).2 id' hne
  | upgrade id t m keep hasLayout => exact (upgradeObject_frame r id t m keep hasLayout now).2 id' hne
  | purge id => exact ⟨AL.get_erase_ne _ _ _ hne, AL.get_erase_ne _ _ _ hne⟩

/-- **resetting all changes of an object leaves no trace of its staged version** (and nothing else moves) -/
theorem C08_reset_all_traceless (r : Repo) (now id : Str) :
    AL.get (step r now (.resetAll id)).2.staged id = none ∧ (step r now (.resetAll id)).2.main = r.main :=
  ⟨AL.get_erase_self _ _, rfl⟩

/-- **purge removes exactly the named object and its staged changes** -/
theorem C08_purge_exact (r : Repo) (now id : Str) :
    AL.get (step r now (.purge id)).2.main id = none ∧ AL.get (step r now (.purge id)).2.staged id = none ∧
    ∀ id', id' ≠ id → AL.get (step r now (.purge id)).2.main id' = AL.get r.main id' ∧
      AL.get (step r now (.purge id)).2.staged id' = AL.get r.staged id' :=
  ⟨AL.get_erase_self _ _, AL.get_erase_self _ _,
    fun _ hne => ⟨AL.get_erase_ne _ _ _ hne, AL.get_erase_ne _ _ _ hne⟩⟩

/-- reads of committed data are functions of `main` alone, hence answer identically whether or not
    changes are staged: the model's `getObjectFile` ignores `staged` -/
theorem C08_reads_ignore_staging (r : Repo) (s : List (Str × Obj)) (id : Str) (vn : Option Nat) (p : LPath) :
    getObjectFile { r with staged := s } id vn p = getObjectFile r id vn p := rfl

end Rocfl.Theorems.C08
