import RocflModel.Lemmas.S3Lemmas
/-
  C16 — S3 commits install the root inventory last and clean up after failures.
  The request script and its one-fault semantics (`S3.script`, `S3.exec`) are tied to the code by
  ./check C16: every request of real commits against the S3 stand-in is failed once.
-/
namespace Rocfl.S3

open Rocfl

/-- the root inventory is replaced only after every file of the new version has been stored, and
    its sidecar right after it -/
theorem C16_root_inventory_last (n : Nat) (upgrade : Bool) :
    (script n upgrade).take n = (List.range n).map Req.putVersionFile ∧
    (script n upgrade)[n]? = some Req.putRootInventory ∧
    (script n upgrade)[n + 1]? = some Req.putRootSidecar := by
  refine ⟨?_, ?_, ?_⟩ <;> simp [script]

theorem script_length (n : Nat) (upgrade : Bool) : (script n upgrade).length = n + 2 + (if upgrade then 3 else 0) := by
  cases upgrade <;> simp [script]

theorem take_no_delete (n : Nat) (upgrade : Bool) (k : Nat) (hk : k < (script n upgrade).length) :
    ∀ r ∈ (script n upgrade).take k, r ≠ Req.deleteOldDeclaration := by
  intro r hr
  cases upgrade with
  | false =>
    have := List.mem_of_mem_take hr
    simp [script] at this
    rcases this with ⟨a, _, rfl⟩ | rfl | rfl <;> simp
  | true =>
    -- the deletion is the last request; a strict prefix does not contain it
    have hs : script n true = ((List.range n).map Req.putVersionFile ++ [.putRootInventory, .putRootSidecar, .listRoot, .putDeclaration]) ++ [.deleteOldDeclaration] := by
      simp [script]
    have hl : (script n true).length = n + 5 := by simp [script]
    rw [hs] at hr
    rw [List.take_append_of_le_length (by simp; omega)] at hr
    have := List.mem_of_mem_take hr
    simp at this
    rcases this with ⟨a, _, rfl⟩ | rfl | rfl | rfl | rfl <;> simp

/-- **any single failing request**: the commit reports an error and the object is exactly what it
    was — previous root inventory and sidecar, old declaration, nothing of the new version -/
theorem C16_failure_restores (n : Nat) (upgrade : Bool) (k : Nat) (hk : k < (script n upgrade).length) :
    exec n upgrade (some k) = (oldObj, false) := by
  simp only [exec, hk, ↓reduceIte]
  have h := fold_declOld ((script n upgrade).take k) {} (take_no_delete n upgrade k hk)
  simp only [rollback, oldObj, Prod.mk.injEq, and_true]
  cases hf : List.foldl apply {} (List.take k (script n upgrade)) with
  | mk u ri rs dO dN =>
    rw [hf] at h
    simp at h
    simp [h]

/-- without a failure the new version is complete and success is reported -/
theorem C16_success_installs (n : Nat) (upgrade : Bool) : exec n upgrade none = (newObj n upgrade, true) := by
  cases upgrade <;> simp [exec, script, List.foldl_append, fold_putFiles, apply, newObj]

/-- success is reported only with the complete new version in place -/
theorem C16_success_only_when_new (n : Nat) (upgrade : Bool) (f : Option Nat) :
    (exec n upgrade f).2 = true → (exec n upgrade f).1 = newObj n upgrade := by
  cases f with
  | none => intro _; rw [C16_success_installs]
  | some k =>
    by_cases hk : k < (script n upgrade).length
    · rw [C16_failure_restores n upgrade k hk]; simp
    · intro _
      have : exec n upgrade (some k) = exec n upgrade none := by simp [exec, hk]
      rw [this, C16_success_installs]

/-- the rollback before the repair: a failing sidecar upload left the object without root inventory -/
theorem C16_before_fix_witness (n : Nat) :
    (rollbackBefore (((script n false).take (n + 1)).foldl apply {})).rootInv = Ver.missing := by
  have : (script n false).take (n + 1) = (List.range n).map Req.putVersionFile ++ [.putRootInventory] := by
    simp only [script, Bool.false_eq_true, ↓reduceIte, List.append_nil]
    rw [List.take_append]
    simp [List.take_of_length_le]
  rw [this]
  simp [List.foldl_append, fold_putFiles, apply, rollbackBefore]

example : exec 3 true (some 4) = (oldObj, false) := by decide
example : (exec 2 true none).1.declOld = false := by decide

end Rocfl.S3
