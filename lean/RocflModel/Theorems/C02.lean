import RocflModel.Theorems.C08
import RocflModel.Lemmas.ReadForever
/-
  C02 — committed versions return exactly the ingested bytes, forever.

  Model: `getObjectFile` (repo.rs:374-385, fs.rs:298-317 over inventory.rs:204-275) on `Repo.main`.
-/
namespace Rocfl.Theorems.C02
open Rocfl

/-- reading committed data depends on the main repository only -/
theorem getObjectFile_congr (r r' : Repo) (id : Str) (vn : Option Nat) (p : LPath)
    (h : AL.get r'.main id = AL.get r.main id) : getObjectFile r' id vn p = getObjectFile r id vn p := by
  unfold getObjectFile; rw [h]

/-- **forever, part 1**: whatever is staged, reset or removed afterwards — on this or any other object,
    successfully or not — every read of every committed version answers exactly as before -/
theorem C02_staging_never_changes_reads (r : Repo) (now : Str) (op : Op) (hst : op.isStaging = true)
    (id : Str) (vn : Option Nat) (p : LPath) :
    getObjectFile (step r now op).2 id vn p = getObjectFile r id vn p :=
  getObjectFile_congr _ _ _ _ _ (by rw [C08.C08_staging_preserves_main r now op hst])

/-- **forever, part 2**: commits, upgrades and purges of *other* objects never change what an object returns -/
theorem C02_other_objects_never_change_reads (r : Repo) (now : Str) (op : Op) (id : Str) (hne : id ≠ op.target)
    (vn : Option Nat) (p : LPath) :
    getObjectFile (step r now op).2 id vn p = getObjectFile r id vn p :=
  getObjectFile_congr _ _ _ _ _ (C08.C08_other_objects r now op id hne).1

theorem fold_keeps (id : Str) (old : Obj) (vn : Nat) (hvn : vn ≤ old.inv.head.number) (p : LPath) :
    ∀ (h2 : List (Op × Str)) (r : Repo), RepoOk r → ExtInv r →
      (∀ op ∈ h2, ∀ i, op.1 = Op.purge i → i ≠ id) →
      ∀ cur, AL.get r.main id = some cur → old.inv.head.number ≤ cur.inv.head.number → readObj cur vn p = readObj old vn p →
      KeepsRead (h2.foldl (fun r (op : Op × Str) => (step r op.2 op.1).2) r) id old vn p := by
  intro h2
  induction h2 with
  | nil => intro r _ _ _ cur hg hle hrd; exact ⟨cur, hg, hle, hrd⟩
  | cons op rest ih =>
    intro r hok hext hnp cur hg hle hrd
    simp only [List.foldl_cons]
    obtain ⟨new, hnew, hle', hrd'⟩ := step_keeps_reads r op.2 op.1 hok hext id cur hg
      (fun i hi => hnp op (by simp) i hi) vn (by omega) p
    exact ih _ (step_ok r op.2 op.1 hok) (step_ext r op.2 op.1 hext hok)
      (fun o ho => hnp o (by simp [ho])) new hnew (by omega) (by rw [hrd', hrd])

/-- **forever**: take any history `h1` after which object `id` is committed with versions 1 … n, and
    any continuation `h2` — staging, failed and successful commits and upgrades of this and other
    objects, purges of other objects, in any order and with any arguments — that does not purge
    `id` itself.  Then every version `vn ≤ n` of `id` answers every read exactly as it did after `h1`. -/
theorem C02_reads_forever (spec : SpecV) (h1 h2 : List (Op × Str)) (id : Str) (old : Obj)
    (hm : AL.get (run spec h1).main id = some old)
    (hnp : ∀ op ∈ h2, ∀ i, op.1 = Op.purge i → i ≠ id)
    (vn : Nat) (hvn : vn ≤ old.inv.head.number) (p : LPath) :
    getObjectFile (run spec (h1 ++ h2)) id (some vn) p = getObjectFile (run spec h1) id (some vn) p := by
  obtain ⟨hok, hext⟩ := reachable_ext spec h1
  have hrun : run spec (h1 ++ h2) = h2.foldl (fun r (op : Op × Str) => (step r op.2 op.1).2) (run spec h1) := by
    simp [run, List.foldl_append]
  obtain ⟨new, hnew, _, hrd⟩ := fold_keeps id old vn hvn p h2 (run spec h1) hok hext hnp old hm (Nat.le_refl _) rfl
  rw [hrun, getObjectFile_eq_readObj _ _ _ _ new hnew, getObjectFile_eq_readObj _ _ _ _ old hm, hrd]

/-- and the object is still there, with at least the versions it had -/
theorem C02_versions_never_disappear (spec : SpecV) (h1 h2 : List (Op × Str)) (id : Str) (old : Obj)
    (hm : AL.get (run spec h1).main id = some old)
    (hnp : ∀ op ∈ h2, ∀ i, op.1 = Op.purge i → i ≠ id) :
    ∃ new, AL.get (run spec (h1 ++ h2)).main id = some new ∧ old.inv.head.number ≤ new.inv.head.number := by
  obtain ⟨hok, hext⟩ := reachable_ext spec h1
  have hrun : run spec (h1 ++ h2) = h2.foldl (fun r (op : Op × Str) => (step r op.2 op.1).2) (run spec h1) := by
    simp [run, List.foldl_append]
  obtain ⟨new, hnew, hle, _⟩ := fold_keeps id old 0 (Nat.zero_le _) [] h2 (run spec h1) hok hext hnp old hm (Nat.le_refl _) rfl
  exact ⟨new, by rw [hrun]; exact hnew, hle⟩

end Rocfl.Theorems.C02
