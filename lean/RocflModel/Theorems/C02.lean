import RocflModel.Theorems.C08
/-
  C02 — committed versions return exactly the ingested bytes, forever.

  Model: `getObjectFile` (repo.rs:374-385, fs.rs:298-317 over inventory.rs:204-275) on `Repo.main`.
-/
namespace Rocfl.Theorems.C02
open Rocfl

/-- reading committed data depends on the main repository only -/
theorem getObjectFile_congr (r r' : Repo) (id : Str) (vn : Option Nat) (p : LPath)
    (h : AL.get r'.main id = AL.get r.main id) : getObjectFile r' id vn p = getObjectFile r id vn p := by
  unfold getObjectFile; rw [h]

/-- **forever, part 1**: whatever is staged, reset or removed afterwards — on this or any other object,
    successfully or not — every read of every committed version answers exactly as before -/
theorem C02_staging_never_changes_reads (r : Repo) (now : Str) (op : Op) (hst : op.isStaging = true)
    (id : Str) (vn : Option Nat) (p : LPath) :
    getObjectFile (step r now op).2 id vn p = getObjectFile r id vn p :=
  getObjectFile_congr _ _ _ _ _ (by rw [C08.C08_staging_preserves_main r now op hst])

/-- **forever, part 2**: commits, upgrades and purges of *other* objects never change what an object returns -/
theorem C02_other_objects_never_change_reads (r : Repo) (now : Str) (op : Op) (id : Str) (hne : id ≠ op.target)
    (vn : Option Nat) (p : LPath) :
    getObjectFile (step r now op).2 id vn p = getObjectFile r id vn p :=
  getObjectFile_congr _ _ _ _ _ (C08.C08_other_objects r now op id hne).1

end Rocfl.Theorems.C02
