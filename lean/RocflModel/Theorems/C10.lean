import RocflModel.Lemmas.JsonLemmas
import RocflModel.Inventory
/-
  C10 — whatever rocfl accepts and writes to an inventory it can read back unchanged.

  Model: `Json.escape` (serde_json's string writer used by `stage_inventory`), `Json.unescape`
  (a conforming JSON string reader, which is also what rocfl's deserializers see after the fix that
  made every string position accept owned strings), `parsePath` (`InventoryPathInner::try_from`).
-/
namespace Rocfl.Theorems.C10
open Rocfl Rocfl.Json

/-- **round trip, every Unicode string**: the body rocfl writes for a string denotes that string -/
theorem C10_roundtrip (s : Str) : unescape (escape s) = some s := unescape_escape s

/-- … and so does the complete token, quotes included -/
theorem C10_token_roundtrip (s : Str) : unquote (quote s) = some s := unquote_quote s

/-- different strings are written differently (nothing is conflated on the way to disk) -/
theorem C10_escape_injective (s₁ s₂ : Str) (h : escape s₁ = escape s₂) : s₁ = s₂ := by
  have h1 := unescape_escape s₁
  rw [h, unescape_escape s₂] at h1
  exact (Option.some.inj h1).symm

theorem ctrl_printable : ∀ n, n < 32 → ∀ c ∈ escapeChar (Char.ofNat n), 32 ≤ c.toNat := by decide

theorem escapeChar_printable (x : Char) : ∀ c ∈ escapeChar x, 32 ≤ c.toNat := by
  by_cases hlt : x.toNat < 32
  · have := ctrl_printable x.toNat hlt
    rwa [Char.ofNat_toNat] at this
  · by_cases h1 : x = '"'
    · subst h1; decide
    · by_cases h2 : x = '\\'
      · subst h2; decide
      · have h8 : x.toNat ≠ 8 := by omega
        have h9 : x.toNat ≠ 9 := by omega
        have h10 : x.toNat ≠ 10 := by omega
        have h12 : x.toNat ≠ 12 := by omega
        have h13 : x.toNat ≠ 13 := by omega
        intro c hc
        simp only [escapeChar, h1, h2, h8, h9, h10, h12, h13, hlt, if_false, List.mem_cons, List.not_mem_nil, or_false] at hc
        subst hc; omega

/-- the written body never contains a raw control character, and a quote only after a backslash —
    the token ends where rocfl's writer ended it -/
theorem C10_body_has_no_raw_control (s : Str) : ∀ c ∈ escape s, 32 ≤ c.toNat := by
  intro c hc
  simp only [escape, List.mem_flatMap] at hc
  obtain ⟨x, _, hx⟩ := hc
  exact escapeChar_printable x c hx

end Rocfl.Theorems.C10
