import RocflModel.Lemmas.ScanLemmas
import RocflModel.Theorems.C08
import RocflModel.Theorems.C14
/-
  C19 — every committed object is found, exactly once, under any layout.

  Model: the id pre-filter of the repository scan (`Scan.extractId`, fs.rs:39-40, 851-880) over the
  serialised inventory, and the set of committed / staged objects of the repository state machine.
-/
namespace Rocfl.Theorems.C19
open Rocfl Rocfl.Scan Rocfl.Json

/-- **the scan's id filter sees the real id**, for every non-empty Unicode id (quotes, backslashes,
    control characters, `/`, glob metacharacters …) and both the compact and the pretty-printed
    serialisation -/
theorem C19_id_prefilter (pre ws1 ws2 id rest : Str) (hpre : ∀ c ∈ pre, c ≠ '"')
    (hw1 : ∀ c ∈ ws1, isWs c = true) (hw2 : ∀ c ∈ ws2, isWs c = true) (hid : id ≠ []) :
    extractId (pre ++ (idKey ++ (ws1 ++ ':' :: (ws2 ++ (quote id ++ rest))))) = some id :=
  extractId_serialized pre ws1 ws2 id rest hpre hw1 hw2 hid

/-- the compact form rocfl writes: `{"id":"…",…` -/
theorem C19_id_prefilter_compact (id rest : Str) (hid : id ≠ []) :
    extractId ('{' :: (idKey ++ (':' :: (quote id ++ rest)))) = some id := by
  have := extractId_serialized ['{'] [] [] id rest (by decide) (by simp) (by simp) hid
  simpa using this

/-- **staged-only objects are never listed**: staging operations do not add (or remove) committed objects -/
theorem C19_staging_never_lists (r : Repo) (now : Str) (op : Op) (h : op.isStaging = true) :
    (step r now op).2.main.map (·.1) = r.main.map (·.1) := by
  rw [C08.C08_staging_preserves_main r now op h]

/-- **a purged object is not found**, and purging leaves every other object listed -/
theorem C19_purged_not_found (r : Repo) (now id : Str) :
    AL.get (step r now (.purge id)).2.main id = none ∧
    ∀ id', id' ≠ id → AL.get (step r now (.purge id)).2.main id' = AL.get r.main id' :=
  ⟨(C08.C08_purge_exact r now id).1, fun id' h => ((C08.C08_purge_exact r now id).2.2 id' h).1⟩

/-- **a committed object is found**: after a successful commit the object is in the main repository
    and no longer staged -/
theorem C19_committed_is_found (r : Repo) (id : Str) (m : Meta) (keep : Digest → List CPath) (hasRoot : Bool)
    (h : (commit r id m keep hasRoot).1 = .ok ()) :
    (AL.get (commit r id m keep hasRoot).2.main id).isSome = true ∧
    AL.get (commit r id m keep hasRoot).2.staged id = none := by
  obtain ⟨o, new, _, hn, _, _, hs⟩ := C14.C14_commit_next r id m keep hasRoot h
  exact ⟨by simp [hn], hs⟩

end Rocfl.Theorems.C19
