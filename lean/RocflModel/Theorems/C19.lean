import RocflModel.Lemmas.ScanLemmas
import RocflModel.Lemmas.GlobLemmas
import RocflModel.Theorems.C08
import RocflModel.Theorems.C14
/-
  C19 — every committed object is found, exactly once, under any layout.

  Model: the id pre-filter of the repository scan (`Scan.extractId`, fs.rs:39-40, 851-880) over the
  serialised inventory, and the set of committed / staged objects of the repository state machine.
-/
namespace Rocfl.Theorems.C19
open Rocfl Rocfl.Scan Rocfl.Json

/-- **the scan's id filter sees the real id**, for every non-empty Unicode id (quotes, backslashes,
    control characters, `/`, glob metacharacters …) and both the compact and the pretty-printed
    serialisation -/
theorem C19_id_prefilter (pre ws1 ws2 id rest : Str) (hpre : ∀ c ∈ pre, c ≠ '"')
    (hw1 : ∀ c ∈ ws1, isWs c = true) (hw2 : ∀ c ∈ ws2, isWs c = true) (hid : id ≠ []) :
    extractId (pre ++ (idKey ++ (ws1 ++ ':' :: (ws2 ++ (quote id ++ rest))))) = some id :=
  extractId_serialized pre ws1 ws2 id rest hpre hw1 hw2 hid

/-- the compact form rocfl writes: `{"id":"…",…` -/
theorem C19_id_prefilter_compact (id rest : Str) (hid : id ≠ []) :
    extractId ('{' :: (idKey ++ (':' :: (quote id ++ rest)))) = some id := by
  have := extractId_serialized ['{'] [] [] id rest (by decide) (by simp) (by simp) hid
  simpa using this

/-- **staged-only objects are never listed**: staging operations do not add (or remove) committed objects -/
theorem C19_staging_never_lists (r : Repo) (now : Str) (op : Op) (h : op.isStaging = true) :
    (step r now op).2.main.map (·.1) = r.main.map (·.1) := by
  rw [C08.C08_staging_preserves_main r now op h]

/-- **a purged object is not found**, and purging leaves every other object listed -/
theorem C19_purged_not_found (r : Repo) (now id : Str) :
    AL.get (step r now (.purge id)).2.main id = none ∧
    ∀ id', id' ≠ id → AL.get (step r now (.purge id)).2.main id' = AL.get r.main id' :=
  ⟨(C08.C08_purge_exact r now id).1, fun id' h => ((C08.C08_purge_exact r now id).2.2 id' h).1⟩

/-- **a committed object is found**: after a successful commit the object is in the main repository
    and no longer staged -/
theorem C19_committed_is_found (r : Repo) (id : Str) (m : Meta) (keep : Digest → List CPath) (hasRoot : Bool)
    (h : (commit r id m keep hasRoot).1 = .ok ()) :
    (AL.get (commit r id m keep hasRoot).2.main id).isSome = true ∧
    AL.get (commit r id m keep hasRoot).2.staged id = none := by
  obtain ⟨o, new, _, hn, _, _, hs⟩ := C14.C14_commit_next r id m keep hasRoot h
  exact ⟨by simp [hn], hs⟩

/-! ### the id filter of `ls` (globset, matched on the UTF-8 bytes) -/

/-- **an object named by its escaped id is selected, and nothing else is**: a pattern whose bytes are
    the id's bytes, each preceded by a backslash, is accepted by the glob parser and matches exactly
    the strings with the same bytes — whatever glob metacharacters, slashes or quotes the id contains -/
theorem C19_escaped_id_selects_exactly (ls : Bool) (pat id s : Str)
    (h : toByteChars pat = escapeAll (toByteChars id)) :
    globMatchX ls pat s = some (decide (toByteChars s = toByteChars id)) := by
  unfold globMatchX
  rw [h, parseGlob_escaped]
  have : (toByteChars id).map (fun c => GTok.s (.lit c)) = ((toByteChars id).map STok.lit).map GTok.s := by
    simp
  simp only [Option.map_some, this, matchG_plain, matchS_lits]

/-- **`ls '*'` leaves no object out**: as an id filter `*` matches every id (also ids with `/`) -/
theorem C19_star_selects_all (s : Str) : globMatchX false ['*'] s = some true := by
  have hp : parseGlob (toByteChars ['*']) = some [.s .star] := by rfl
  unfold globMatchX
  rw [hp]
  have := matchG_plain false [.star] (toByteChars s)
  simp only [List.map_cons, List.map_nil] at this
  simp only [Option.map_some, this, matchS_star_all]

end Rocfl.Theorems.C19
