import RocflModel.Lemmas.ScriptLemmas
import RocflModel.Stage
/-
  C12 — writes stay inside the repository and never land in another object's root.

  Model: `safeRel` / `resolveJoin` / `notInsideObject` (fs.rs `ensure_within_storage_root`,
  `ensure_not_inside_object`, `storage_root.join(..)`), `installNewObject` (Script.lean).
-/
namespace Rocfl.Theorems.C12
open Rocfl

/-- **confinement**: an object root that passes the guard resolves to a path strictly below the
    storage root — for every storage root and every mapped root string (whatever the id was) -/
theorem C12_safe_root_is_inside (root : Path) (rel : Str) (h : safeRel rel = true) :
    inside root (resolveJoin root rel) = true ∧ resolveJoin root rel ≠ root := by
  rw [resolveJoin_safe root rel h]
  refine ⟨inside_append _ _, ?_⟩
  intro e
  have : splitSlash rel = [] := by
    have := congrArg List.length e
    simp only [List.length_append] at this
    exact List.eq_nil_of_length_eq_zero (by omega)
  exact splitSlash_ne_nil rel this

/-- the guard is needed: without it `../x` leaves the storage root (the repaired defect) -/
theorem C12_unguarded_escapes :
    inside ["repo".toList] (resolveJoin ["repo".toList] "../x".toList) = false ∧ safeRel "../x".toList = false := by
  decide

/-- absolute roots and roots with empty segments are refused as well -/
theorem C12_guard_refuses : safeRel "/abs".toList = false ∧ safeRel "a//b".toList = false ∧
    safeRel "a/./b".toList = false ∧ safeRel "".toList = false ∧ safeRel "a/..".toList = false := by
  decide

/-- **installing a new object touches only the staged object directory, the target and its missing
    parent directories**, all of which lie inside the storage root when the root passed the guard and
    the parents are ancestors of the target -/
theorem C12_new_object_confined (root sd : Path) (rel : Str) (parents : List Path) (h : safeRel rel = true)
    (hp : ∀ p ∈ parents, inside root p = true) :
    confined [root, sd] (installNewObject (resolveJoin root rel) sd parents) = true := by
  have hin := (C12_safe_root_is_inside root rel h).1
  simp only [confined, installNewObject, List.all_eq_true, List.mem_append, List.mem_map, List.mem_singleton]
  rintro c (⟨p, hpm, rfl⟩ | rfl)
  · intro q hq
    simp only [FsCall.touched, List.mem_singleton] at hq
    subst hq
    simp [hp _ hpm]
  · intro q hq
    simp only [FsCall.touched, List.mem_cons, List.not_mem_nil, or_false] at hq
    rcases hq with rfl | rfl
    · simp [inside, List.isPrefixOf_iff_prefix]
    · simp [hin]

/-- **never inside another object**: a target that passes `ensure_not_inside_object` is not below
    any existing object root -/
theorem C12_not_inside_other_object (objs : List Path) (target o : Path) (h : notInsideObject objs target = true)
    (ho : o ∈ objs) (hne : o ≠ target) : inside o target = false := by
  simp only [notInsideObject, List.all_eq_true] at h
  have := h o ho
  cases hi : inside o target with
  | false => rfl
  | true => simp [hi, hne] at this

/-! ### the content directory -/

theorem splitSlash_noslash (s : Str) (h : ∀ c ∈ s, c ≠ '/') : splitSlash s = [s] := by
  induction s with
  | nil => rfl
  | cons c cs ih =>
    have hc : c ≠ '/' := h c (List.mem_cons_self ..)
    have := ih (fun x hx => h x (List.mem_cons_of_mem _ hx))
    simp [splitSlash, this, hc]

/-- a content-directory name accepted by `validate_content_dir` is a single ordinary path segment -/
theorem validContentDir_safe (c : Str) (h : validContentDir c = true) : safeRel c = true ∧ splitSlash c = [c] := by
  simp only [validContentDir, Bool.not_eq_true', Bool.or_eq_false_iff, List.contains_eq_mem, decide_eq_false_iff_not] at h
  obtain ⟨⟨⟨h1, h2⟩, h3⟩, h4⟩ := h
  have hs : splitSlash c = [c] := splitSlash_noslash c (fun x hx he => h4 (he ▸ hx))
  refine ⟨?_, hs⟩
  have hne : c ≠ [] := by intro h; simp [h] at h1
  have hhead : c.head? ≠ some '/' := by
    cases c with
    | nil => simp
    | cons x xs =>
      simp only [List.head?_cons, ne_eq, Option.some.injEq]
      intro hx; exact h4 (hx ▸ List.mem_cons_self ..)
  simp only [safeRel, hs, List.all_cons, List.all_nil, Bool.and_true, Bool.and_eq_true, Bool.not_eq_true', bne_iff_ne, ne_eq]
  refine ⟨⟨by simpa using hne, by simpa using hhead⟩, ⟨by simpa using hne, ?_⟩, ?_⟩
  · simpa [dot] using h2
  · simpa [dotdot] using h3

/-- **a content directory that passes `validate_content_dir` keeps content below the version
    directory**: joined to any version directory it names exactly the one sub-directory of that name;
    conversely the names the tamper phase of the check writes into stored inventories are all refused -/
theorem C12_content_dir_confined (vdir : Path) (c : Str) (h : validContentDir c = true) :
    resolveJoin vdir c = vdir ++ [c] := by
  obtain ⟨hs, hsp⟩ := validContentDir_safe c h
  rw [resolveJoin_safe vdir c hs, hsp]

theorem C12_hostile_content_dirs_refused :
    validContentDir "../../victim".toList = false ∧ validContentDir "a/b".toList = false ∧
    validContentDir "..".toList = false ∧ validContentDir ".".toList = false ∧ validContentDir "".toList = false ∧
    validContentDir "content".toList = true := by decide

end Rocfl.Theorems.C12
