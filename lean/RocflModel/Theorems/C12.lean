import RocflModel.Lemmas.ScriptLemmas
/-
  C12 — writes stay inside the repository and never land in another object's root.

  Model: `safeRel` / `resolveJoin` / `notInsideObject` (fs.rs `ensure_within_storage_root`,
  `ensure_not_inside_object`, `storage_root.join(..)`), `installNewObject` (Script.lean).
-/
namespace Rocfl.Theorems.C12
open Rocfl

/-- **confinement**: an object root that passes the guard resolves to a path strictly below the
    storage root — for every storage root and every mapped root string (whatever the id was) -/
theorem C12_safe_root_is_inside (root : Path) (rel : Str) (h : safeRel rel = true) :
    inside root (resolveJoin root rel) = true ∧ resolveJoin root rel ≠ root := by
  rw [resolveJoin_safe root rel h]
  refine ⟨inside_append _ _, ?_⟩
  intro e
  have : splitSlash rel = [] := by
    have := congrArg List.length e
    simp only [List.length_append] at this
    exact List.eq_nil_of_length_eq_zero (by omega)
  exact splitSlash_ne_nil rel this

/-- the guard is needed: without it `../x` leaves the storage root (the repaired defect) -/
theorem C12_unguarded_escapes :
    inside ["repo".toList] (resolveJoin ["repo".toList] "../x".toList) = false ∧ safeRel "../x".toList = false := by
  decide

/-- absolute roots and roots with empty segments are refused as well -/
theorem C12_guard_refuses : safeRel "/abs".toList = false ∧ safeRel "a//b".toList = false ∧
    safeRel "a/./b".toList = false ∧ safeRel "".toList = false ∧ safeRel "a/..".toList = false := by
  decide

/-- **installing a new object touches only the staged object directory, the target and its missing
    parent directories**, all of which lie inside the storage root when the root passed the guard and
    the parents are ancestors of the target -/
theorem C12_new_object_confined (root sd : Path) (rel : Str) (parents : List Path) (h : safeRel rel = true)
    (hp : ∀ p ∈ parents, inside root p = true) :
    confined [root, sd] (installNewObject (resolveJoin root rel) sd parents) = true := by
  have hin := (C12_safe_root_is_inside root rel h).1
  simp only [confined, installNewObject, List.all_eq_true, List.mem_append, List.mem_map, List.mem_singleton]
  rintro c (⟨p, hpm, rfl⟩ | rfl)
  · intro q hq
    simp only [FsCall.touched, List.mem_singleton] at hq
    subst hq
    simp [hp _ hpm]
  · intro q hq
    simp only [FsCall.touched, List.mem_cons, List.not_mem_nil, or_false] at hq
    rcases hq with rfl | rfl
    · simp [inside, List.isPrefixOf_iff_prefix]
    · simp [hin]

/-- **never inside another object**: a target that passes `ensure_not_inside_object` is not below
    any existing object root -/
theorem C12_not_inside_other_object (objs : List Path) (target o : Path) (h : notInsideObject objs target = true)
    (ho : o ∈ objs) (hne : o ≠ target) : inside o target = false := by
  simp only [notInsideObject, List.all_eq_true] at h
  have := h o ho
  cases hi : inside o target with
  | false => rfl
  | true => simp [hi, hne] at this

end Rocfl.Theorems.C12
