import RocflModel.Lemmas.Invariant
import RocflModel.Lemmas.RepoInvariant
/-
  C09 — the staged view equals the last version plus the staged operations.

  Model: `Version.addFile/removeFile`, `stageExternalFile`, `removeOne`, `extOne` … (Stage.lean /
  Inventory.lean, mirroring repo.rs:1098-1257 and inventory.rs:363-476, 695-713, 867-884).
-/
namespace Rocfl.Theorems.C09
open Rocfl

/-- **a path can never be both a file and a directory**: `add_file` (the only way a logical path
    enters a version state) keeps the state free of file/directory clashes -/
theorem C09_add_keeps_no_clash (v v' : Version) (d : Digest) (p : LPath)
    (h : v.addFile d p = .ok v') (hs : StateOk v.state) : StateOk v'.state :=
  (addFile_ok v v' d p h hs).1

theorem C09_remove_keeps_no_clash (v : Version) (p : LPath) (hs : StateOk v.state) :
    StateOk (v.removeFile p).state := removeFile_ok v p hs

/-- in a clash-free state a logical file is never also a logical directory -/
theorem C09_file_is_not_dir (v : Version) (hs : StateOk v.state) (p : LPath) (hf : v.isFile p = true) :
    v.isDir p = false := file_not_dir v hs p hf

/-- **cp semantics for one accepted file**: staging an external file at logical path `lp` makes the
    staged view `view[lp ↦ digest]` (add or overwrite, nothing else changes), stores the bytes at the
    path's own content path and records that path in the manifest -/
theorem C09_stage_file_view (o o' : Obj) (lp : LPath) (d : Digest) (hl : o.inv.LenOk)
    (h : stageExternalFile o lp d = .ok o') :
    o'.inv.headVersion.state = AL.insert o.inv.headVersion.state lp d ∧
    AL.get o'.files (o.inv.newContentPath lp) = some d ∧
    AL.get o'.inv.manifest (o.inv.newContentPath lp) = some d := by
  rw [stageExternalFile_eq] at h
  split at h
  · cases h
  · split at h
    · cases h
    · cases h
      refine ⟨?_, AL.get_insert_self _ _ _, AL.get_insert_self _ _ _⟩
      exact Inv.withHeadEntry_state o.inv lp d hl

/-- … and it is refused exactly when the path clashes with the staged view or with what is
    physically staged; a refused source changes nothing -/
theorem C09_stage_file_refused (o : Obj) (lp : LPath) (d : Digest) :
    (∃ o', stageExternalFile o lp d = .ok o') ↔
      (o.inv.headVersion.conflicts lp = false ∧ physConflict o.files (o.inv.newContentPath lp) = false) := by
  rw [stageExternalFile_eq]
  cases o.inv.headVersion.conflicts lp <;> cases physConflict o.files (o.inv.newContentPath lp) <;> simp

/-- **rm semantics**: after removing `p` the path is absent from the staged view and every other
    path keeps its entry -/
theorem C09_remove_absent (o : Obj) (p : LPath) (hl : o.inv.LenOk) :
    AL.get (removeOne o p).inv.headVersion.state p = none ∧
    ∀ q, q ≠ p → AL.get (removeOne o p).inv.headVersion.state q = AL.get o.inv.headVersion.state q := by
  rw [removeOne_eq]
  have hset : (o.inv.setHeadVersion (o.inv.headVersion.removeFile p)).headVersion = o.inv.headVersion.removeFile p :=
    Inv.headVersion_set _ _ hl
  cases hf : o.inv.headVersion.isFile p with
  | false =>
    simp only [Bool.false_eq_true, if_false]
    refine ⟨?_, fun _ _ => trivial⟩
    simpa [Version.isFile, AL.has] using hf
  | true =>
    simp only [if_true]
    cases hm : AL.has o.inv.manifest (o.inv.newContentPath p) with
    | true =>
      simp only [if_true]
      have : ({ (o.inv.setHeadVersion (o.inv.headVersion.removeFile p)) with
          manifest := AL.erase o.inv.manifest (o.inv.newContentPath p) } : Inv).headVersion
          = o.inv.headVersion.removeFile p := hset
      rw [this]
      exact ⟨AL.get_erase_self _ _, fun q hq => AL.get_erase_ne _ _ _ hq⟩
    | false =>
      simp only [Bool.false_eq_true, if_false]
      rw [hset]
      exact ⟨AL.get_erase_self _ _, fun q hq => AL.get_erase_ne _ _ _ hq⟩

/-- **every history**: whatever was staged, reset, committed or refused before, the staged version of
    every object is a well-formed tree (unique paths, nothing both file and directory, no empty
    path) on top of a consistent version numbering — the premise under which the step theorems
    above describe the staged view -/
theorem C09_reachable_staged_wellformed (spec : SpecV) (ops : List (Op × Str)) (id : Str) (o : Obj)
    (h : AL.get (run spec ops).staged id = some o) :
    StateOk o.inv.headVersion.state ∧ o.inv.LenOk :=
  ⟨InvOk.head_ok (staged_get_ok (reachable_ok spec ops) h), (staged_get_ok (reachable_ok spec ops) h).1⟩

/-- hence in every reachable staged view a file is never also a directory -/
theorem C09_reachable_staged_file_is_not_dir (spec : SpecV) (ops : List (Op × Str)) (id : Str) (o : Obj)
    (h : AL.get (run spec ops).staged id = some o) (p : LPath) (hf : o.inv.headVersion.isFile p = true) :
    o.inv.headVersion.isDir p = false :=
  file_not_dir _ (C09_reachable_staged_wellformed spec ops id o h).1 p hf

/-- **a recursive operation on a directory touches that directory only**: the paths `rm -r`, `reset -r`,
    `cp -i -r` and `mv -i` collect for a directory `d` are exactly the paths of the version of the form
    `d/…`; a neighbour whose name merely starts with `d` (`d12/x` next to `d1`) is never among them -/
theorem C09_directory_is_path_boundary (v : Version) (d p : Str) (hd : d ≠ []) (hl : d.getLast? ≠ some '/') :
    p ∈ v.pathsWithPrefix d ↔ p ∈ AL.keys v.state ∧ ∃ rest, p = d ++ '/' :: rest := by
  rw [pathsWithPrefix_iff v d p hd hl, under_iff]

theorem C09_sibling_directory_untouched (v : Version) (d : Str) (c : Char) (rest : Str) (hd : d ≠ [])
    (hl : d.getLast? ≠ some '/') (hc : c ≠ '/') : d ++ c :: rest ∉ v.pathsWithPrefix d := by
  intro h
  have := ((pathsWithPrefix_iff v d _ hd hl).mp h).2
  rw [under_sibling_false d _ c rest hc rfl] at this
  cases this

/-- **an internal recursive copy or move keeps every level below the copied directory**, whatever
    the directory is called (a name repeated further down, non-ASCII names) -/
theorem C09_internal_copy_keeps_levels (base rest dst : Str) (hb : base ≠ []) :
    logicalPathInDstDirInternal (base ++ '/' :: rest) base dst =
      parsePath ((if dst.getLast? == some '/' then dst else dst ++ ['/']) ++ rest) :=
  internal_destination base rest dst hb

end Rocfl.Theorems.C09
