import RocflModel.Json
/-
  Model of the id pre-filter of `InventoryIter` (fs.rs:39-40, 851-880, after the fix): the pattern
  `"id"\s*:\s*"((?:[^"\\]|\\.)+)"` is searched in the serialised inventory, the first capture is JSON
  decoded and handed to the id matcher (exact id for `get_inventory` without a layout, a glob for `ls`).
-/
namespace Rocfl.Scan
open Rocfl Rocfl.Json

def isWs (c : Char) : Bool := c = ' ' || c = '\t' || c = '\n' || c = '\r' || c.toNat = 11 || c.toNat = 12

def skipWs : Str → Str
  | c :: t => if isWs c then skipWs t else c :: t
  | [] => []

/-- `((?:[^"\\]|\\.)+)"` from the opening quote on: the captured body and what follows the closing quote -/
def scanBody : Str → Option (Str × Str)
  | [] => none
  | c :: t =>
    if c = '"' then some ([], t)
    else if c = '\\' then
      match t with
      | [] => none
      | e :: t' => if e = '\n' then none else (scanBody t').map (fun p => (c :: e :: p.1, p.2))
    else (scanBody t).map (fun p => (c :: p.1, p.2))
termination_by s => s.length

def idKey : Str := ['"', 'i', 'd', '"']

/-- the pattern anchored at the start of `s` -/
def matchAt (s : Str) : Option Str :=
  if idKey.isPrefixOf s then
    match skipWs (s.drop 4) with
    | ':' :: r =>
      match skipWs r with
      | '"' :: r' =>
        match scanBody r' with
        | some (b, _) => if b.isEmpty then none else some b
        | none => none
      | _ => none
    | _ => none
  else none

/-- leftmost match -/
def findFirst : Str → Option Str
  | [] => none
  | c :: t =>
    match matchAt (c :: t) with
    | some b => some b
    | none => findFirst t

/-- the id the pre-filter sees: the decoded capture (the raw capture if it does not decode) -/
def extractId (text : Str) : Option Str :=
  (findFirst text).map (fun b => (unescape b).getD b)

end Rocfl.Scan
