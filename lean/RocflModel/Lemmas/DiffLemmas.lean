import RocflModel.Diff
/-
  Fold invariants of the model of `Version::diff`.
-/
namespace Rocfl

/-! ### fold invariants of `Version::diff` -/

theorem diffLeft_seen_deletes (right : List (LPath × Digest)) (l : List (LPath × Digest)) (acc : DiffAcc) :
    (l.foldl (diffLeftStep right) acc).renames = acc.renames := by
  induction l generalizing acc with
  | nil => rfl
  | cons e l ih =>
    rw [List.foldl_cons, ih]
    unfold diffLeftStep
    split <;> rfl

/-- first loop, `Modified` entries: exactly the paths present on both sides with different digests -/
theorem diffLeft_modified (right : List (LPath × Digest)) (l : List (LPath × Digest)) (acc : DiffAcc) (p : LPath) :
    Diff.modified p ∈ (l.foldl (diffLeftStep right) acc).diffs ↔
      Diff.modified p ∈ acc.diffs ∨ ∃ ld rd, (p, ld) ∈ l ∧ AL.get right p = some rd ∧ ld ≠ rd := by
  induction l generalizing acc with
  | nil => simp
  | cons e l ih =>
    rw [List.foldl_cons, ih]
    obtain ⟨q, qd⟩ := e
    unfold diffLeftStep
    cases hr : AL.get right q with
    | none =>
      simp only
      constructor
      · rintro (h | ⟨ld, rd, hm, hg, hne⟩)
        · exact Or.inl h
        · exact Or.inr ⟨ld, rd, List.mem_cons_of_mem _ hm, hg, hne⟩
      · rintro (h | ⟨ld, rd, hm, hg, hne⟩)
        · exact Or.inl h
        · rcases List.mem_cons.mp hm with heq | hm
          · cases heq; rw [hr] at hg; cases hg
          · exact Or.inr ⟨ld, rd, hm, hg, hne⟩
    | some rd0 =>
      simp only
      by_cases hd : qd = rd0
      · simp only [hd, ne_eq, not_true_eq_false, if_false]
        constructor
        · rintro (h | ⟨ld, rd, hm, hg, hne⟩)
          · exact Or.inl h
          · exact Or.inr ⟨ld, rd, List.mem_cons_of_mem _ hm, hg, hne⟩
        · rintro (h | ⟨ld, rd, hm, hg, hne⟩)
          · exact Or.inl h
          · rcases List.mem_cons.mp hm with heq | hm
            · cases heq; rw [hr] at hg; cases hg; exact absurd rfl hne
            · exact Or.inr ⟨ld, rd, hm, hg, hne⟩
      · simp only [ne_eq, hd, not_false_eq_true, if_true, List.mem_append, List.mem_singleton]
        constructor
        · rintro ((h | h) | ⟨ld, rd, hm, hg, hne⟩)
          · exact Or.inl h
          · cases h; exact Or.inr ⟨qd, rd0, List.mem_cons_self .., hr, hd⟩
          · exact Or.inr ⟨ld, rd, List.mem_cons_of_mem _ hm, hg, hne⟩
        · rintro (h | ⟨ld, rd, hm, hg, hne⟩)
          · exact Or.inl (Or.inl h)
          · rcases List.mem_cons.mp hm with heq | hm
            · cases heq; exact Or.inl (Or.inr rfl)
            · exact Or.inr ⟨ld, rd, hm, hg, hne⟩

/-- the second loop adds no `Modified` entry -/
theorem diffRight_modified (r : List (LPath × Digest)) (acc : DiffAcc) (p : LPath) :
    Diff.modified p ∈ (r.foldl diffRightStep acc).diffs ↔ Diff.modified p ∈ acc.diffs := by
  induction r generalizing acc with
  | nil => rfl
  | cons e r ih =>
    rw [List.foldl_cons, ih]
    unfold diffRightStep
    split
    · rfl
    · split
      · rfl
      · split
        · rfl
        · simp


/-- first loop: `seen` collects the left paths that exist on the right -/
theorem diffLeft_seen (right : List (LPath × Digest)) (l : List (LPath × Digest)) (acc : DiffAcc) (q : LPath) :
    q ∈ (l.foldl (diffLeftStep right) acc).seen ↔
      q ∈ acc.seen ∨ ∃ ld, (q, ld) ∈ l ∧ (AL.get right q).isSome = true := by
  induction l generalizing acc with
  | nil => simp
  | cons e l ih =>
    rw [List.foldl_cons, ih]
    obtain ⟨p, pd⟩ := e
    unfold diffLeftStep
    cases hr : AL.get right p with
    | none =>
      simp only
      constructor
      · rintro (h | ⟨ld, hm, hs⟩)
        · exact Or.inl h
        · exact Or.inr ⟨ld, List.mem_cons_of_mem _ hm, hs⟩
      · rintro (h | ⟨ld, hm, hs⟩)
        · exact Or.inl h
        · rcases List.mem_cons.mp hm with heq | hm
          · have : q = p := congrArg Prod.fst heq
            subst this; rw [hr] at hs; cases hs
          · exact Or.inr ⟨ld, hm, hs⟩
    | some rd =>
      simp only [List.mem_cons]
      constructor
      · rintro ((h | h) | ⟨ld, hm, hs⟩)
        · subst h; exact Or.inr ⟨pd, Or.inl rfl, by simp [hr]⟩
        · exact Or.inl h
        · exact Or.inr ⟨ld, Or.inr hm, hs⟩
      · rintro (h | ⟨ld, hm, hs⟩)
        · exact Or.inl (Or.inr h)
        · rcases hm with heq | hm
          · exact Or.inl (Or.inl (congrArg Prod.fst heq))
          · exact Or.inr ⟨ld, hm, hs⟩

/-- first loop: a digest has pending deletes iff some left path with it is missing on the right -/
theorem diffLeft_deletes (right : List (LPath × Digest)) (l : List (LPath × Digest)) (acc : DiffAcc) (d : Digest) :
    (AL.get (l.foldl (diffLeftStep right) acc).deletes d).isSome = true ↔
      (AL.get acc.deletes d).isSome = true ∨ ∃ p, (p, d) ∈ l ∧ AL.get right p = none := by
  induction l generalizing acc with
  | nil => simp
  | cons e l ih =>
    rw [List.foldl_cons, ih]
    obtain ⟨p, pd⟩ := e
    unfold diffLeftStep
    cases hr : AL.get right p with
    | none =>
      simp only
      by_cases hd : d = pd
      · subst hd
        rw [AL.get_insert_self]
        constructor
        · intro _; exact Or.inr ⟨p, List.mem_cons_self .., hr⟩
        · intro _; exact Or.inl rfl
      · rw [AL.get_insert_ne _ _ _ _ hd]
        constructor
        · rintro (h | ⟨p', hm, hn⟩)
          · exact Or.inl h
          · exact Or.inr ⟨p', List.mem_cons_of_mem _ hm, hn⟩
        · rintro (h | ⟨p', hm, hn⟩)
          · exact Or.inl h
          · rcases List.mem_cons.mp hm with heq | hm
            · exact absurd (congrArg Prod.snd heq) hd
            · exact Or.inr ⟨p', hm, hn⟩
    | some rd =>
      simp only
      constructor
      · rintro (h | ⟨p', hm, hn⟩)
        · exact Or.inl h
        · exact Or.inr ⟨p', List.mem_cons_of_mem _ hm, hn⟩
      · rintro (h | ⟨p', hm, hn⟩)
        · exact Or.inl h
        · rcases List.mem_cons.mp hm with heq | hm
          · have : p' = p := congrArg Prod.fst heq
            subst this; rw [hr] at hn; cases hn
          · exact Or.inr ⟨p', hm, hn⟩

/-- the first loop produces no `Added` entry -/
theorem diffLeft_no_added (right : List (LPath × Digest)) (l : List (LPath × Digest)) (acc : DiffAcc) (q : LPath) :
    Diff.added q ∈ (l.foldl (diffLeftStep right) acc).diffs ↔ Diff.added q ∈ acc.diffs := by
  induction l generalizing acc with
  | nil => rfl
  | cons e l ih =>
    rw [List.foldl_cons, ih]
    unfold diffLeftStep
    split
    · rfl
    · simp only
      split
      · have : ∀ (x : List Diff), Diff.added q ∈ x ++ [Diff.modified e.1] ↔ Diff.added q ∈ x := by
          intro x; simp
        exact this _
      · rfl

/-! second loop: what becomes `Added`, what stays in `deletes` -/

def DiffAcc.avail (acc : DiffAcc) (d : Digest) : Prop :=
  (AL.get acc.deletes d).isSome = true ∨ (AL.get acc.renames d).isSome = true

theorem diffRightStep_seen (acc : DiffAcc) (e : LPath × Digest) : (diffRightStep acc e).seen = acc.seen := by
  unfold diffRightStep
  split
  · rfl
  · split
    · rfl
    · split <;> rfl

theorem diffRightStep_avail (acc : DiffAcc) (e : LPath × Digest) (d : Digest) :
    (diffRightStep acc e).avail d ↔ acc.avail d := by
  unfold diffRightStep
  split
  · rfl
  · cases hdel : AL.get acc.deletes e.2 with
    | some orig =>
      simp only [DiffAcc.avail]
      by_cases hd : d = e.2
      · subst hd
        simp [AL.get_erase_self, AL.get_insert_self, hdel]
      · rw [AL.get_erase_ne _ _ _ hd, AL.get_insert_ne _ _ _ _ hd]
    | none =>
      simp only
      cases hren : AL.get acc.renames e.2 with
      | some pr =>
        obtain ⟨o, r⟩ := pr
        simp only [DiffAcc.avail]
        by_cases hd : d = e.2
        · subst hd
          simp [AL.get_insert_self, hren]
        · rw [AL.get_insert_ne _ _ _ _ hd]
      | none => rfl

theorem diffRight_seen (r : List (LPath × Digest)) (acc : DiffAcc) : (r.foldl diffRightStep acc).seen = acc.seen := by
  induction r generalizing acc with
  | nil => rfl
  | cons e r ih => rw [List.foldl_cons, ih, diffRightStep_seen]

theorem diffRight_avail (r : List (LPath × Digest)) (acc : DiffAcc) (d : Digest) :
    (r.foldl diffRightStep acc).avail d ↔ acc.avail d := by
  induction r generalizing acc with
  | nil => rfl
  | cons e r ih => rw [List.foldl_cons, ih, diffRightStep_avail]

/-- second loop, `Added` entries: the unseen right-hand paths whose digest has no pending delete/rename -/
theorem diffRight_added (r : List (LPath × Digest)) (acc : DiffAcc) (q : LPath) :
    Diff.added q ∈ (r.foldl diffRightStep acc).diffs ↔
      Diff.added q ∈ acc.diffs ∨ ∃ d, (q, d) ∈ r ∧ q ∉ acc.seen ∧ ¬ acc.avail d := by
  induction r generalizing acc with
  | nil => simp
  | cons e r ih =>
    rw [List.foldl_cons, ih, diffRightStep_seen]
    have hav := fun d => diffRightStep_avail acc e d
    obtain ⟨p, pd⟩ := e
    constructor
    · rintro (h | ⟨d, hm, hs, ha⟩)
      · -- an `Added` produced by this very step
        unfold diffRightStep at h
        by_cases hseen : acc.seen.contains p = true
        · simp only [hseen, if_true] at h; exact Or.inl h
        · simp only [hseen] at h
          cases hdel : AL.get acc.deletes pd with
          | some orig => simp only [hdel] at h; exact Or.inl h
          | none =>
            simp only [hdel] at h
            cases hren : AL.get acc.renames pd with
            | some pr => simp only [hren] at h; exact Or.inl h
            | none =>
              simp only [hren] at h
              have h' : Diff.added q ∈ acc.diffs ++ [Diff.added p] := h
              rw [List.mem_append, List.mem_singleton] at h'
              rcases h' with h | h
              · exact Or.inl h
              · have hpq : p = q := by injection h with h'; exact h'.symm
                subst hpq
                refine Or.inr ⟨pd, List.mem_cons_self .., ?_, ?_⟩
                · simpa using hseen
                · simp [DiffAcc.avail, hdel, hren]
      · exact Or.inr ⟨d, List.mem_cons_of_mem _ hm, hs, fun h => ha ((hav d).mpr h)⟩
    · rintro (h | ⟨d, hm, hs, ha⟩)
      · left
        unfold diffRightStep
        split
        · exact h
        · split
          · exact h
          · split
            · exact h
            · simp [h]
      · rcases List.mem_cons.mp hm with heq | hm
        · have hqp : q = p := congrArg Prod.fst heq
          have hdp : d = pd := congrArg Prod.snd heq
          subst hqp; subst hdp
          left
          have hseen : ¬ acc.seen.contains q = true := by simpa using hs
          have hdel : AL.get acc.deletes d = none := by
            cases h : AL.get acc.deletes d with
            | none => rfl
            | some x => exact absurd (Or.inl (by simp [h])) ha
          have hren : AL.get acc.renames d = none := by
            cases h : AL.get acc.renames d with
            | none => rfl
            | some x => exact absurd (Or.inr (by simp [h])) ha
          unfold diffRightStep
          simp only [hseen, hdel, hren]
          simp
        · exact Or.inr ⟨d, hm, hs, fun h => ha ((hav d).mp h)⟩

/-- the second loop produces no `Modified`/`Deleted`, and `Deleted`/`Renamed` never sit in `diffs` -/
theorem diffLeft_diffs_kind (right : List (LPath × Digest)) (l : List (LPath × Digest)) (acc : DiffAcc)
    (h : ∀ x ∈ acc.diffs, (∃ p, x = .modified p) ∨ (∃ p, x = .added p)) :
    ∀ x ∈ (l.foldl (diffLeftStep right) acc).diffs, (∃ p, x = .modified p) ∨ (∃ p, x = .added p) := by
  induction l generalizing acc with
  | nil => exact h
  | cons e l ih =>
    rw [List.foldl_cons]
    apply ih
    unfold diffLeftStep
    split
    · exact h
    · simp only
      split
      · intro x hx
        have hx' : x ∈ acc.diffs ++ [Diff.modified e.1] := hx
        rw [List.mem_append, List.mem_singleton] at hx'
        rcases hx' with hx' | hx'
        · exact h x hx'
        · exact Or.inl ⟨_, hx'⟩
      · exact h

theorem diffRight_diffs_kind (r : List (LPath × Digest)) (acc : DiffAcc)
    (h : ∀ x ∈ acc.diffs, (∃ p, x = .modified p) ∨ (∃ p, x = .added p)) :
    ∀ x ∈ (r.foldl diffRightStep acc).diffs, (∃ p, x = .modified p) ∨ (∃ p, x = .added p) := by
  induction r generalizing acc with
  | nil => exact h
  | cons e r ih =>
    rw [List.foldl_cons]
    apply ih
    unfold diffRightStep
    split
    · exact h
    · split
      · exact h
      · split
        · exact h
        · intro x hx
          have hx' : x ∈ acc.diffs ++ [Diff.added e.1] := hx
          rw [List.mem_append, List.mem_singleton] at hx'
          rcases hx' with hx' | hx'
          · exact h x hx'
          · exact Or.inr ⟨_, hx'⟩

/-- where an entry of the final report comes from -/
theorem mem_diffStates (right left : List (LPath × Digest)) (x : Diff) :
    x ∈ diffStates right (some left) ↔
      let a2 := right.foldl diffRightStep (left.foldl (diffLeftStep right) {})
      x ∈ a2.diffs ∨ (∃ e ∈ a2.deletes, ∃ p ∈ e.2, x = .deleted p) ∨
        (∃ e ∈ a2.renames, x = .renamed (sortPaths e.2.1) (sortPaths e.2.2)) := by
  simp only [diffStates, List.mem_append, List.mem_flatMap, List.mem_map]
  constructor
  · rintro ((h | ⟨e, he, p, hp, hx⟩) | ⟨e, he, hx⟩)
    · exact Or.inl h
    · exact Or.inr (Or.inl ⟨e, he, p, hp, hx.symm⟩)
    · exact Or.inr (Or.inr ⟨e, he, hx.symm⟩)
  · rintro (h | ⟨e, he, p, hp, hx⟩ | ⟨e, he, hx⟩)
    · exact Or.inl (Or.inl h)
    · exact Or.inl (Or.inr ⟨e, he, p, hp, hx.symm⟩)
    · exact Or.inr ⟨e, he, hx.symm⟩

end Rocfl
