import RocflModel.Lemmas.GlobLemmas
import RocflModel.ListView
/-
  Glob facts behind the listing theorems of C20: literals followed by more tokens, `/*`, the parse of
  an escaped directory name followed by `/*`; and what the listing model yields for the three queries
  the help text of `ls` describes.
-/
namespace Rocfl

theorem matchS_lits_append (ls : Bool) (l : Str) (rest : List STok) (s : Str) :
    matchS ls (l.map .lit ++ rest) s = (l.isPrefixOf s && matchS ls rest (s.drop l.length)) := by
  induction l generalizing s with
  | nil => simp
  | cons c l ih =>
    cases s with
    | nil => simp [matchS]
    | cons d s =>
      simp only [List.map_cons, List.cons_append, matchS, ih, List.isPrefixOf, List.length_cons, List.drop_succ_cons]
      by_cases h : c = d
      · subst h; simp
      · have hb : (c == d) = false := by simp [h]
        simp [hb]

theorem matchS_slash_star (t : Str) :
    matchS true [.lit '/', .star] t = (t.head? == some '/' && decide ('/' ∉ t.tail)) := by
  cases t with
  | nil => simp [matchS]
  | cons c cs =>
    simp only [matchS, matchS_star_sep, List.head?_cons, List.tail_cons]
    by_cases h : c = '/'
    · subst h
      by_cases hm : '/' ∈ cs <;> simp [hm]
    · have h1 : ('/' == c) = false := by simp; exact fun h' => h h'.symm
      have h2 : (c == '/') = false := by simp [h]
      simp [h1, h2]

theorem parse_escaped_then (b rest : Str) : ∀ (f : Nat) (done : List GTok),
    parseGlobAux (b.length + f) (escapeAll b ++ rest) { done := done, cur := none } =
      parseGlobAux f rest { done := done ++ b.map (fun c => .s (.lit c)), cur := none } := by
  induction b with
  | nil => intro f done; simp [escapeAll]
  | cons c b ih =>
    intro f done
    have h1 : escapeAll (c :: b) ++ rest = '\\' :: c :: (escapeAll b ++ rest) := by simp [escapeAll]
    have hl : (c :: b).length + f = (b.length + f) + 1 := by simp; omega
    rw [h1, hl]
    conv => lhs; unfold parseGlobAux
    have e1 : ¬ ('\\' = '?') := by decide
    have e2 : ¬ ('\\' = '*') := by decide
    have e3 : ¬ ('\\' = '[') := by decide
    have e4 : ¬ ('\\' = '{') := by decide
    have e5 : ¬ ('\\' = '}') := by decide
    have e6 : ¬ ('\\' = ',') := by decide
    simp only [e1, e2, e3, e4, e5, e6, if_false, if_true]
    have hp : ({ done := done, cur := none } : PState).push (.lit c) = { done := done ++ [.s (.lit c)], cur := none } := rfl
    rw [hp, ih f _]
    simp

theorem parse_slash_star (n : Nat) (done : List GTok) :
    parseGlobAux (n + 3) ['/', '*'] { done := done, cur := none } = some (done ++ [.s (.lit '/'), .s .star]) := by
  have e : n + 3 = (n + 2) + 1 := rfl
  rw [e]
  conv => lhs; unfold parseGlobAux
  have d1 : ¬ ('/' = '?') := by decide
  have d2 : ¬ ('/' = '*') := by decide
  have d3 : ¬ ('/' = '[') := by decide
  have d4 : ¬ ('/' = '{') := by decide
  have d5 : ¬ ('/' = '}') := by decide
  have d6 : ¬ ('/' = ',') := by decide
  have d7 : ¬ ('/' = '\\') := by decide
  simp only [d1, d2, d3, d4, d5, d6, d7, if_false]
  have hp : ({ done := done, cur := none } : PState).push (.lit '/') = { done := done ++ [.s (.lit '/')], cur := none } := rfl
  rw [hp]
  have e2 : n + 2 = (n + 1) + 1 := rfl
  rw [e2]
  conv => lhs; unfold parseGlobAux
  have s1 : ¬ ('*' = '?') := by decide
  simp only [s1, if_false, if_true, List.head?_nil]
  have hp2 : ({ done := done ++ [.s (.lit '/')], cur := none } : PState).push .star = { done := done ++ [.s (.lit '/')] ++ [.s .star], cur := none } := rfl
  have hne : (none : Option Char) ≠ some '*' := by simp
  simp only [hp2]
  have e3 : n + 1 = n + 1 := rfl
  conv => lhs; unfold parseGlobAux
  simp

/-- the glob `\\d₁\\d₂…/*` parses to the literals of `d`, a `/` and a star -/
theorem parseGlob_escaped_dir (b : Str) :
    parseGlob (escapeAll b ++ ['/', '*']) = some ((b.map STok.lit ++ [STok.lit '/', STok.star]).map GTok.s) := by
  have hlen : (escapeAll b ++ ['/', '*']).length + 1 = b.length + (b.length + 3) := by
    have : (escapeAll b).length = 2 * b.length := by
      induction b with
      | nil => rfl
      | cons c b ih => simp [escapeAll] at ih ⊢; omega
    simp [this]; omega
  unfold parseGlob
  rw [hlen, parse_escaped_then b ['/', '*'] (b.length + 3) [], parse_slash_star]
  simp

end Rocfl

namespace Rocfl.ListView
open Rocfl

theorem parse_star : parseGlob (toByteChars ['*']) = some [.s .star] := by rfl

/-- **`ls <object>`** (no path, no `-D`) prints every logical path of the version -/
theorem list_all (paths : List Str) : listContents false none paths = some paths := by
  unfold listContents
  simp only [queryGlob, parse_star]
  have hm : ∀ s : Str, matchG false [.s .star] (toByteChars s) = true := by
    intro s
    have := matchG_plain false [.star] (toByteChars s)
    simp only [List.map_cons, List.map_nil] at this
    rw [this, matchS_star_all]
  simp [hm]

/-- **`ls -D <object>`** prints what `ls` prints in the top directory: the paths without a `/` and the
    top-level directories (with a trailing slash) -/
theorem list_top_level (paths : List Str) :
    listContents true none paths =
      some (paths.filter (fun p => decide ('/' ∉ toByteChars p)) ++
            ((dirsOf paths).filter (fun d => decide ('/' ∉ toByteChars d) && !d.isEmpty)).map (· ++ ['/'])) := by
  unfold listContents
  simp only [queryGlob, parse_star]
  have hm : ∀ s : Str, matchG true [.s .star] (toByteChars s) = decide ('/' ∉ toByteChars s) := by
    intro s
    have := matchG_plain true [.star] (toByteChars s)
    simp only [List.map_cons, List.map_nil] at this
    rw [this, matchS_star_sep]
  have hl : (['*'] : Str).getLast? = some '/' ↔ False := by decide
  simp only [hm, hl, if_false, bne_self_eq_false, Bool.and_false, Bool.false_eq_true, Bool.not_true, List.filter_filter]
  simp [Bool.and_comm]

end Rocfl.ListView

namespace Rocfl.ListView
open Rocfl

theorem toByteChars_append (a b : Str) : toByteChars (a ++ b) = toByteChars a ++ toByteChars b := by
  simp [toByteChars, utf8Bytes, List.flatMap_append]

/-- `s` names something directly inside the directory whose bytes are `bd` -/
def childOf (bd : Str) (s : Str) : Bool :=
  (bd ++ ['/']).isPrefixOf (toByteChars s) && decide ('/' ∉ (toByteChars s).drop (bd.length + 1))

theorem match_child (bd : Str) (s : Str) :
    matchG true ((bd.map STok.lit ++ [STok.lit '/', STok.star]).map GTok.s) (toByteChars s) = childOf bd s := by
  rw [matchG_plain, matchS_lits_append, matchS_slash_star]
  unfold childOf
  generalize toByteChars s = t
  induction bd generalizing t with
  | nil =>
    cases t with
    | nil => simp
    | cons c cs =>
      have : (c == '/') = ('/' == c) := by
        by_cases h : c = '/'
        · subst h; rfl
        · have h' : ¬ '/' = c := fun e => h e.symm
          have a1 : (c == '/') = false := by simp [h]
          have a2 : ('/' == c) = false := by simp [h']
          rw [a1, a2]
      simp [List.isPrefixOf, this]
  | cons b bd ih =>
    cases t with
    | nil => simp [List.isPrefixOf]
    | cons c cs =>
      simp only [List.cons_append, List.isPrefixOf, List.length_cons, List.drop_succ_cons]
      by_cases h : b = c
      · subst h
        simp only [beq_self_eq_true, Bool.true_and]
        have := ih cs
        simpa [Bool.and_assoc] using this
      · have hb : (b == c) = false := by simp [h]
        simp [hb]

/-- **`ls -D <object> <directory>`** lists the directory's direct children: when the query is a
    directory name (written with every byte escaped, so that no character is special) that names no
    file and exactly one logical directory, the command prints exactly the paths directly inside it
    and its direct sub-directories (with a trailing slash) -/
theorem list_directory (paths : List Str) (d q : Str)
    (hq : toByteChars q = escapeAll (toByteChars d))
    (hq0 : queryGlob (some q) = q) (hql : q.getLast? ≠ some '/') (hstar : q ≠ ['*'])
    (hnofile : ∀ p ∈ paths, toByteChars p ≠ toByteChars d)
    (hdir : ((dirsOf paths).filter (fun x => decide (toByteChars x = toByteChars d))).length = 1) :
    listContents true (some q) paths =
      some (paths.filter (childOf (toByteChars d)) ++
            ((dirsOf paths).filter (fun x => !(decide (toByteChars x = toByteChars d)) && childOf (toByteChars d) x)).map (· ++ ['/'])) := by
  unfold listContents
  simp only [hq0]
  have hl : (q.getLast? = some '/') ↔ False := ⟨hql, False.elim⟩
  rw [hq, parseGlob_escaped]
  have hlits : (toByteChars d).map (fun c => GTok.s (.lit c)) = ((toByteChars d).map STok.lit).map GTok.s := by simp
  have hm : ∀ s : Str, matchG true ((toByteChars d).map (fun c => GTok.s (.lit c))) (toByteChars s) = decide (toByteChars s = toByteChars d) := by
    intro s; rw [hlits, matchG_plain, matchS_lits]
  have hfiles : paths.filter (fun s => decide (toByteChars s = toByteChars d)) = [] := by
    apply List.filter_eq_nil_iff.mpr
    intro p hp
    simpa using hnofile p hp
  have hsub : toByteChars (q ++ ['/', '*']) = escapeAll (toByteChars d) ++ ['/', '*'] := by
    rw [toByteChars_append, hq]; rfl
  have hne : (q != ['*']) = true := by simpa using hstar
  simp only [hl, if_false, hm, hfiles, List.isEmpty_nil, hdir, beq_self_eq_true, hne, if_true, Bool.not_true,
    Bool.false_eq_true, Bool.and_self, hsub, parseGlob_escaped_dir, match_child]
  congr 3
  apply List.filter_congr
  intro x hx
  congr 1
  congr 1
  -- membership in the matched directories, for a directory of the object, is the byte comparison
  simp only [List.contains_eq_mem, List.mem_filter, hx, true_and]
  simp

/-- non-vacuity: the hypotheses of `list_directory` hold for the query `\\d` on an object with `d/a`, `d/s/b`, `x` -/
example :
    let paths : List Str := [['d', '/', 'a'], ['d', '/', 's', '/', 'b'], ['x']]
    let d : Str := ['d']
    let q : Str := [Char.ofNat 92, 'd']
    toByteChars q = escapeAll (toByteChars d) ∧ queryGlob (some q) = q ∧ q.getLast? ≠ some '/' ∧ q ≠ ['*'] ∧
      (∀ p ∈ paths, toByteChars p ≠ toByteChars d) ∧
      ((dirsOf paths).filter (fun x => decide (toByteChars x = toByteChars d))).length = 1 := by
  decide

end Rocfl.ListView
