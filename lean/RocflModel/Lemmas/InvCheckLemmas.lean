import RocflModel.InvCheck
/-
  Helper lemmas for the C07 theorems.
-/
namespace Rocfl.InvCheck

open Rocfl

theorem mem_ancestorsAux (a pre rest : Str) :
    a ∈ ancestorsAux pre rest ↔ ∃ r1 r2, rest = r1 ++ '/' :: r2 ∧ a = pre.reverse ++ r1 := by
  induction rest generalizing pre with
  | nil => simp [ancestorsAux]
  | cons c cs ih =>
    simp only [ancestorsAux, List.mem_append, ih]
    constructor
    · rintro (h | ⟨r1, r2, h1, h2⟩)
      · by_cases hc : c = '/'
        · simp [hc] at h
          exact ⟨[], cs, by simp [hc], by simp [h]⟩
        · simp [hc] at h
      · exact ⟨c :: r1, r2, by simp [h1], by simp [h2]⟩
    · rintro ⟨r1, r2, h1, h2⟩
      cases r1 with
      | nil =>
        left
        simp at h1 h2
        simp [h1.1, h2]
      | cons x xs =>
        right
        simp at h1
        exact ⟨xs, r2, h1.2, by simp [h2, h1.1]⟩

theorem mem_ancestors (a p : Str) : a ∈ ancestors p ↔ ∃ r, p = a ++ '/' :: r := by
  simp only [ancestors, mem_ancestorsAux, List.reverse_nil, List.nil_append]
  constructor
  · rintro ⟨r1, r2, h1, h2⟩; exact ⟨r2, by rw [h1, h2]⟩
  · rintro ⟨r, h⟩; exact ⟨a, r, h, rfl⟩

theorem noDup_iff (l : List Str) : noDup l = true ↔ l.Nodup := by
  induction l with
  | nil => simp [noDup]
  | cons p ps ih => simp [noDup, ih, List.nodup_cons]

/-- `q` is a directory above `p` -/
def DirAbove (q p : Str) : Prop := ∃ r, p = q ++ '/' :: r

theorem conflictFree_iff (ps : List Str) :
    conflictFree ps = true ↔ ∀ p ∈ ps, ∀ q ∈ ps, ¬ DirAbove q p := by
  simp only [conflictFree, List.all_eq_true, Bool.not_eq_true', DirAbove]
  constructor
  · intro h p hp q hq hr
    have := h p hp q ((mem_ancestors q p).2 hr)
    simp [hq] at this
  · intro h p hp a ha
    have hr := (mem_ancestors a p).1 ha
    cases hc : ps.contains a with
    | false => rfl
    | true =>
      have : a ∈ ps := by simpa using hc
      exact absurd hr (h p hp a this)

/-! ### paths -/

theorem trimLeading_of_head (p : Str) (h : p.head? ≠ some '/') : trimLeadingSlashes p = p := by
  cases p with
  | nil => simp [trimLeadingSlashes]
  | cons c cs =>
    have hc : c ≠ '/' := by simpa using h
    unfold trimLeadingSlashes
    split
    · rename_i heq; simp at heq; exact absurd heq.1 hc
    · rfl

theorem trimSlashes_of_edges (p : Str) (h1 : p.head? ≠ some '/') (h2 : p.getLast? ≠ some '/') :
    trimSlashes p = p := by
  unfold trimSlashes
  rw [trimLeading_of_head p h1]
  have : p.reverse.head? ≠ some '/' := by simpa [List.head?_reverse] using h2
  rw [trimLeading_of_head _ this, List.reverse_reverse]

theorem splitOnSlash_ne_nil (s : Str) : splitOnSlash s ≠ [] := by
  cases s with
  | nil => simp [splitOnSlash]
  | cons c cs =>
    unfold splitOnSlash
    split
    · simp
    · split <;> simp

theorem splitOnSlash_head_of_slash (cs : Str) : (splitOnSlash ('/' :: cs)).head? = some [] := by
  unfold splitOnSlash
  split
  · rename_i h; exact absurd h (splitOnSlash_ne_nil cs)
  · simp

theorem splitOnSlash_append_slash (s : Str) : splitOnSlash (s ++ ['/']) = splitOnSlash s ++ [[]] := by
  induction s with
  | nil => simp [splitOnSlash]
  | cons c cs ih =>
    have h1 : splitOnSlash (c :: cs ++ ['/']) = (match splitOnSlash (cs ++ ['/']) with
        | [] => [[c]]
        | h :: t => if c = '/' then [] :: h :: t else (c :: h) :: t) := by
      conv => lhs; unfold splitOnSlash
      rfl
    have h2 : splitOnSlash (c :: cs) = (match splitOnSlash cs with
        | [] => [[c]]
        | h :: t => if c = '/' then [] :: h :: t else (c :: h) :: t) := by
      conv => lhs; unfold splitOnSlash
      rfl
    rw [h1, h2, ih]
    cases hcs : splitOnSlash cs with
    | nil => exact absurd hcs (splitOnSlash_ne_nil cs)
    | cons h t =>
      simp only [List.cons_append]
      split <;> simp

def GoodPart (x : Str) : Prop := x ≠ [] ∧ x ≠ ['.'] ∧ x ≠ ['.', '.']

theorem pathOk_iff (p : Str) : pathOk p = true ↔ p ≠ [] ∧ ∀ x ∈ splitOnSlash p, GoodPart x := by
  have key : ∀ (q : Str), q ≠ [] → q.head? ≠ some '/' → q.getLast? ≠ some '/' →
      (illegalParts q = false ↔ ∀ x ∈ splitOnSlash q, GoodPart x) := by
    intro q hne h1 h2
    unfold illegalParts parsePath
    rw [trimSlashes_of_edges q h1 h2]
    have : q.isEmpty = false := by cases q <;> simp_all
    simp only [this, Bool.false_eq_true, ↓reduceIte]
    cases hany : (splitOnSlash q).any (fun p => p == ['.'] || p == ['.', '.'] || p.isEmpty) with
    | true =>
      simp only [↓reduceIte]
      constructor
      · intro h; cases h
      · intro h
        rw [List.any_eq_true] at hany
        obtain ⟨x, hx, hb⟩ := hany
        have g := h x hx
        simp only [Bool.or_eq_true, beq_iff_eq, List.isEmpty_iff] at hb
        rcases hb with (hb | hb) | hb
        · exact absurd hb g.2.1
        · exact absurd hb g.2.2
        · exact absurd hb g.1
    | false =>
      simp only [Bool.false_eq_true, ↓reduceIte, true_iff]
      intro x hx
      have := List.any_eq_false.1 hany x hx
      simp only [Bool.or_eq_true, beq_iff_eq, List.isEmpty_iff, not_or] at this
      exact ⟨this.2, this.1.1, this.1.2⟩
  constructor
  · intro h
    simp only [pathOk, Bool.and_eq_true, Bool.not_eq_true', edgeSlash, Bool.or_eq_false_iff, beq_eq_false_iff_ne, ne_eq] at h
    obtain ⟨⟨⟨h1, h2⟩, h3⟩, h4⟩ := h
    have hne : p ≠ [] := by cases p <;> simp_all
    exact ⟨hne, (key p hne h1 h2).1 h4⟩
  · rintro ⟨hne, hall⟩
    have h1 : p.head? ≠ some '/' := by
      intro h
      cases p with
      | nil => simp at h
      | cons c cs =>
        simp at h; subst h
        have := splitOnSlash_head_of_slash cs
        cases hs : splitOnSlash ('/' :: cs) with
        | nil => exact absurd hs (splitOnSlash_ne_nil _)
        | cons a t =>
          rw [hs] at this; simp at this; subst this
          exact (hall [] (by rw [hs]; simp)).1 rfl
    have h2 : p.getLast? ≠ some '/' := by
      intro h
      obtain ⟨s, hs⟩ : ∃ s, p = s ++ ['/'] := by
        rcases List.eq_nil_or_concat p with h0 | ⟨s, c, hsc⟩
        · exact absurd h0 hne
        · subst hsc; simp at h; exact ⟨s, by simp [h]⟩
      subst hs
      exact (hall [] (by rw [splitOnSlash_append_slash]; simp)).1 rfl
    simp only [pathOk, Bool.and_eq_true, Bool.not_eq_true', edgeSlash, Bool.or_eq_false_iff, beq_eq_false_iff_ne, ne_eq]
    refine ⟨⟨⟨h1, h2⟩, ?_⟩, (key p hne h1 h2).2 hall⟩
    cases p <;> simp_all

/-! ### version numbering -/

open ValidateNums in
theorem stepVersion_live (a : Acc) (v : Nat) (hs : a.stopped = false) (hv : v < ValidateNums.u32Max) (hn : a.next ≤ v) :
    (stepVersion a v).stopped = false ∧ (stepVersion a v).next = v + 1 ∧
    a.e010 ≤ (stepVersion a v).e010 ∧ ((stepVersion a v).e010 = a.e010 ↔ v = a.next) := by
  unfold stepVersion
  simp only [hs, Bool.false_eq_true, ↓reduceIte]
  have : ¬ (v ≥ ValidateNums.u32Max) := by omega
  simp only [this, ↓reduceIte]
  refine ⟨trivial, trivial, by omega, ?_⟩
  simp only [maxMissing]
  constructor
  · intro h
    by_cases hg : v - a.next > 100
    · simp only [hg, ↓reduceIte] at h; omega
    · simp only [hg, ↓reduceIte] at h; omega
  · intro h; subst h; simp

open ValidateNums in
theorem fold_gapfree (l : List Nat) : ∀ (a : Acc), a.stopped = false → l.Pairwise (· < ·) →
    (∀ v ∈ l, a.next ≤ v ∧ v < ValidateNums.u32Max) →
    a.e010 ≤ (l.foldl stepVersion a).e010 ∧
    ((l.foldl stepVersion a).e010 = a.e010 ↔ l = List.range' a.next l.length) := by
  induction l with
  | nil => intro a _ _ _; simp
  | cons v vs ih =>
    intro a hs hp hb
    have hv := hb v (by simp)
    obtain ⟨s1, s2, s3, s4⟩ := stepVersion_live a v hs hv.2 hv.1
    have hp' := List.pairwise_cons.1 hp
    have hb' : ∀ w ∈ vs, (stepVersion a v).next ≤ w ∧ w < ValidateNums.u32Max := by
      intro w hw
      have := hp'.1 w hw
      have := hb w (by simp [hw])
      rw [s2]; omega
    obtain ⟨i1, i2⟩ := ih (stepVersion a v) s1 hp'.2 hb'
    simp only [List.foldl_cons, List.length_cons]
    refine ⟨by omega, ?_⟩
    rw [List.range'_succ]
    constructor
    · intro h
      have e1 : (stepVersion a v).e010 = a.e010 := by omega
      have hv' := s4.1 e1
      have := i2.1 (by omega)
      rw [s2] at this
      rw [hv'] at this ⊢
      rw [← this]
    · intro h
      have hh := List.cons.inj h
      have e1 := s4.2 hh.1
      have : vs = List.range' (stepVersion a v).next vs.length := by rw [s2, hh.1]; exact hh.2
      have := i2.2 this
      omega

open ValidateNums in
/-- no E010 is reported exactly when the ascending version numbers are 1, 2, …, n -/
theorem run_gapfree_iff (l : List Nat) (hp : l.Pairwise (· < ·)) (hb : ∀ v ∈ l, 1 ≤ v ∧ v < ValidateNums.u32Max) :
    (run l).e010 = 0 ↔ l = List.range' 1 l.length := by
  have := (fold_gapfree l { next := 1 } rfl hp (by simpa using hb)).2
  simpa [run] using this

/-! ### digest references -/

theorem refsOk_iff (i : AInv) :
    refsOk i = true ↔ (∀ d ∈ i.stateDigests, d ∈ i.manifestDigests) ∧ (∀ d ∈ i.manifestDigests, d ∈ i.stateDigests) := by
  simp [refsOk, List.all_eq_true]

end Rocfl.InvCheck
