import RocflModel.Script
namespace Rocfl

theorem inside_snoc_iff (a : Path) (k x : Str) : inside (a ++ [k]) (a ++ [x]) = true ↔ k = x := by
  simp only [inside, List.isPrefixOf_iff_prefix]
  constructor
  · intro h
    have := (List.prefix_append_right_inj a).mp h
    have h2 : [k].length ≤ [x].length := this.length_le
    have := List.prefix_iff_eq_take.mp this
    simpa using this
  · intro h; subst h; exact List.prefix_refl _

theorem prefix_snoc {d a : Path} {x : Str} (h : d.isPrefixOf (a ++ [x]) = true) :
    d.isPrefixOf a = true ∨ d = a ++ [x] := by
  rw [List.isPrefixOf_iff_prefix] at h
  obtain ⟨t, ht⟩ := h
  rcases List.eq_nil_or_concat t with rfl | ⟨t', y, rfl⟩
  · right; simpa using ht
  · left
    rw [List.isPrefixOf_iff_prefix]
    have : d ++ t' ++ [y] = a ++ [x] := by simpa [List.append_assoc] using ht
    have := List.append_inj' this rfl
    exact ⟨t', this.1⟩

theorem inside_trans {a b c : Path} (h1 : inside a b = true) (h2 : inside b c = true) : inside a c = true := by
  simp only [inside, List.isPrefixOf_iff_prefix] at *
  exact h1.trans h2

theorem inside_append (a b : Path) : inside a (a ++ b) = true := by
  simp [inside, List.isPrefixOf_iff_prefix]

/-- resolving a list of ordinary segments just appends them -/
theorem foldl_safe (segs : List Str) (acc : Path)
    (h : ∀ p ∈ segs, p.isEmpty = false ∧ (p == dot) = false ∧ (p == dotdot) = false) :
    segs.foldl (fun acc c => if c.isEmpty || c == dot then acc else if c == dotdot then acc.dropLast else acc ++ [c]) acc
      = acc ++ segs := by
  induction segs generalizing acc with
  | nil => simp
  | cons s segs ih =>
    obtain ⟨h1, h2, h3⟩ := h s (List.mem_cons_self ..)
    simp only [List.foldl_cons, h1, h2, h3, Bool.false_or, Bool.false_eq_true, if_false]
    rw [ih _ (fun p hp => h p (List.mem_cons_of_mem _ hp))]
    simp

theorem splitSlash_ne_nil (s : Str) : splitSlash s ≠ [] := by
  cases s with
  | nil => simp [splitSlash]
  | cons c cs =>
    simp only [splitSlash]
    split
    · simp
    · split <;> simp

theorem resolveJoin_safe (root : Path) (rel : Str) (h : safeRel rel = true) :
    resolveJoin root rel = root ++ splitSlash rel := by
  simp only [safeRel, Bool.and_eq_true, Bool.not_eq_true', bne_iff_ne, ne_eq, List.all_eq_true] at h
  obtain ⟨⟨_, hhead⟩, hall⟩ := h
  have hh : (rel.head? == some '/') = false := by simpa using hhead
  simp only [resolveJoin, hh, Bool.false_eq_true, if_false]
  apply foldl_safe
  intro p hp
  have := hall p hp
  refine ⟨?_, ?_, ?_⟩ <;> simp_all

end Rocfl
