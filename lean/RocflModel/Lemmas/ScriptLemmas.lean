import RocflModel.Script
namespace Rocfl

theorem inside_snoc_iff (a : Path) (k x : Str) : inside (a ++ [k]) (a ++ [x]) = true ↔ k = x := by
  simp only [inside, List.isPrefixOf_iff_prefix]
  constructor
  · intro h
    have := (List.prefix_append_right_inj a).mp h
    have h2 : [k].length ≤ [x].length := this.length_le
    have := List.prefix_iff_eq_take.mp this
    simpa using this
  · intro h; subst h; exact List.prefix_refl _

theorem prefix_snoc {d a : Path} {x : Str} (h : d.isPrefixOf (a ++ [x]) = true) :
    d.isPrefixOf a = true ∨ d = a ++ [x] := by
  rw [List.isPrefixOf_iff_prefix] at h
  obtain ⟨t, ht⟩ := h
  rcases List.eq_nil_or_concat t with rfl | ⟨t', y, rfl⟩
  · right; simpa using ht
  · left
    rw [List.isPrefixOf_iff_prefix]
    have : d ++ t' ++ [y] = a ++ [x] := by simpa [List.append_assoc] using ht
    have := List.append_inj' this rfl
    exact ⟨t', this.1⟩

theorem inside_trans {a b c : Path} (h1 : inside a b = true) (h2 : inside b c = true) : inside a c = true := by
  simp only [inside, List.isPrefixOf_iff_prefix] at *
  exact h1.trans h2

theorem inside_append (a b : Path) : inside a (a ++ b) = true := by
  simp [inside, List.isPrefixOf_iff_prefix]

/-- resolving a list of ordinary segments just appends them -/
theorem foldl_safe (segs : List Str) (acc : Path)
    (h : ∀ p ∈ segs, p.isEmpty = false ∧ (p == dot) = false ∧ (p == dotdot) = false) :
    segs.foldl (fun acc c => if c.isEmpty || c == dot then acc else if c == dotdot then acc.dropLast else acc ++ [c]) acc
      = acc ++ segs := by
  induction segs generalizing acc with
  | nil => simp
  | cons s segs ih =>
    obtain ⟨h1, h2, h3⟩ := h s (List.mem_cons_self ..)
    simp only [List.foldl_cons, h1, h2, h3, Bool.false_or, Bool.false_eq_true, if_false]
    rw [ih _ (fun p hp => h p (List.mem_cons_of_mem _ hp))]
    simp

theorem splitSlash_ne_nil (s : Str) : splitSlash s ≠ [] := by
  cases s with
  | nil => simp [splitSlash]
  | cons c cs =>
    simp only [splitSlash]
    split
    · simp
    · split <;> simp

theorem resolveJoin_safe (root : Path) (rel : Str) (h : safeRel rel = true) :
    resolveJoin root rel = root ++ splitSlash rel := by
  simp only [safeRel, Bool.and_eq_true, Bool.not_eq_true', bne_iff_ne, ne_eq, List.all_eq_true] at h
  obtain ⟨⟨_, hhead⟩, hall⟩ := h
  have hh : (rel.head? == some '/') = false := by simpa using hhead
  simp only [resolveJoin, hh, Bool.false_eq_true, if_false]
  apply foldl_safe
  intro p hp
  have := hall p hp
  refine ⟨?_, ?_, ?_⟩ <;> simp_all

def goodSeg (p : Str) : Bool := !p.isEmpty && p != dot && p != dotdot

theorem fold_len_le (segs : List Str) (acc : Path) :
    (segs.foldl (fun acc c => if c.isEmpty || c == dot then acc else if c == dotdot then acc.dropLast else acc ++ [c]) acc).length
      ≤ acc.length + (segs.filter goodSeg).length := by
  induction segs generalizing acc with
  | nil => simp
  | cons s segs ih =>
    simp only [List.foldl_cons]
    refine Nat.le_trans (ih _) ?_
    by_cases h1 : (s.isEmpty || s == dot) = true
    · simp only [h1, if_true]
      have : goodSeg s = false := by
        simp only [goodSeg]
        rcases Bool.or_eq_true_iff.mp h1 with h | h
        · simp [h]
        · have : s = dot := by simpa using h
          simp [this]
      simp [List.filter_cons, this]
    · simp only [h1, Bool.false_eq_true, if_false]
      by_cases h2 : (s == dotdot) = true
      · have : goodSeg s = false := by
          have : s = dotdot := by simpa using h2
          simp [goodSeg, this]
        simp only [h2, if_true, List.filter_cons, this, List.length_dropLast, Bool.false_eq_true, if_false]
        omega
      · have : goodSeg s = true := by
          simp only [Bool.or_eq_true, not_or] at h1
          simp only [goodSeg, Bool.and_eq_true, Bool.not_eq_true', bne_iff_ne, ne_eq]
          refine ⟨⟨by simpa using h1.1, by simpa using h1.2⟩, by simpa using h2⟩
        simp only [h2, Bool.false_eq_true, if_false, List.filter_cons, this, if_true, List.length_append, List.length_cons, List.length_nil]
        omega

theorem filter_lt_of_bad (segs : List Str) (h : ∃ p ∈ segs, goodSeg p = false) :
    (segs.filter goodSeg).length < segs.length := by
  obtain ⟨p, hp, hb⟩ := h
  induction segs with
  | nil => cases hp
  | cons s segs ih =>
    rcases List.mem_cons.mp hp with rfl | hp
    · simp only [List.filter_cons, hb, Bool.false_eq_true, if_false, List.length_cons]
      have := List.length_filter_le goodSeg segs
      omega
    · have := ih hp
      have hle := List.length_filter_le goodSeg segs
      simp only [List.filter_cons, List.length_cons]
      split
      · simp only [List.length_cons]; omega
      · omega

theorem splitSlash_abs (cs : Str) : ∃ t, splitSlash ('/' :: cs) = [] :: t := by
  simp only [splitSlash]
  split
  · rename_i h; exact absurd h (splitSlash_ne_nil cs)
  · exact ⟨_, by simp; rfl⟩

/-- **the guard is exact**: the place the kernel resolves `root/rel` to is the root followed by
    exactly the segments of `rel` if and only if `ensure_within_storage_root` accepts `rel` -/
theorem resolveJoin_exact_iff (root : Path) (rel : Str) :
    resolveJoin root rel = root ++ splitSlash rel ↔ safeRel rel = true := by
  constructor
  · intro h
    cases hs : safeRel rel with
    | true => rfl
    | false =>
      exfalso
      -- some segment is dropped, or the path is absolute
      have hbad : ∃ p ∈ splitSlash rel, goodSeg p = false := by
        cases rel with
        | nil => exact ⟨[], by simp [splitSlash], by simp [goodSeg]⟩
        | cons c cs =>
          by_cases hc : c = '/'
          · subst hc
            obtain ⟨t, ht⟩ := splitSlash_abs cs
            exact ⟨[], by rw [ht]; exact List.mem_cons_self .., by simp [goodSeg]⟩
          · have : (splitSlash (c :: cs)).all (fun p => !p.isEmpty && p != dot && p != dotdot) = false := by
              have hh : ((c :: cs).head? != some '/') = true := by simp [hc]
              simp only [safeRel, List.isEmpty_cons, Bool.not_false, Bool.true_and, hh] at hs
              exact hs
            have := List.all_eq_false.mp this
            obtain ⟨p, hp, hq⟩ := this
            exact ⟨p, hp, by simpa [goodSeg] using hq⟩
      have hlt := filter_lt_of_bad _ hbad
      have hle := fold_len_le (splitSlash rel) (if rel.head? == some '/' then [] else root)
      have hlen : (resolveJoin root rel).length = root.length + (splitSlash rel).length := by
        rw [h, List.length_append]
      have hbase : (if rel.head? == some '/' then ([] : Path) else root).length ≤ root.length := by
        split <;> simp
      simp only [resolveJoin] at hlen
      rw [hlen] at hle
      omega
  · exact resolveJoin_safe root rel

end Rocfl
