import RocflModel.S3
namespace Rocfl.S3
open Rocfl

theorem dropBytes_append (a b : Str) (n : Nat) : dropBytes (utf8Len a + n) (a ++ b) = dropBytes n b := by
  induction a with
  | nil => simp
  | cons c cs ih =>
    have hp := utf8Size_pos c
    have e : utf8Len (c :: cs) + n = (c.utf8Size + utf8Len cs + n - 1) + 1 := by simp; omega
    rw [e, List.cons_append]
    conv => lhs; unfold dropBytes
    have h : c.utf8Size ≤ c.utf8Size + utf8Len cs + n - 1 + 1 := by omega
    simp only [h, ↓reduceIte]
    have : c.utf8Size + utf8Len cs + n - 1 + 1 - c.utf8Size = utf8Len cs + n := by omega
    rw [this, ih]

theorem listAll_drop (all : List Entry) (n : Nat) (hn : 0 < n) :
    ∀ fuel start, all.length - start < fuel → listAll all n fuel start = all.drop start := by
  intro fuel
  induction fuel with
  | zero => intro start h; omega
  | succ fuel ih =>
    intro start h
    simp only [listAll, listPage]
    by_cases ht : start + n < all.length
    · simp only [ht, ↓reduceIte]
      rw [ih (start + n) (by omega)]
      rw [← List.drop_drop, List.take_append_drop]
    · simp only [ht, ↓reduceIte]
      apply List.take_of_length_le
      simp; omega

theorem join_plain (pre rel : Str) (h1 : pre ≠ []) (h2 : pre.getLast? ≠ some '/') (h3 : rel ≠ [])
    (h4 : rel.head? ≠ some '/') : join pre rel = pre ++ '/' :: rel := by
  unfold join
  have e1 : rel.isEmpty = false := by cases rel <;> simp_all
  have e2 : pre.isEmpty = false := by cases pre <;> simp_all
  simp [h2, e1, e2, h4]

theorem join_empty_prefix (rel : Str) (h4 : rel.head? ≠ some '/') : join [] rel = rel := by
  unfold join
  cases rel with
  | nil => simp
  | cons c cs => simp at h4; simp [h4]

theorem dropWhile_head (l : Str) : (l.dropWhile (· = '/')).head? ≠ some '/' := by
  induction l with
  | nil => simp
  | cons c cs ih =>
    by_cases h : c = '/'
    · simpa [List.dropWhile, h] using ih
    · simp [List.dropWhile, h]

theorem normPrefix_last (p : Str) : (normPrefix p).getLast? ≠ some '/' := by
  unfold normPrefix
  rw [List.getLast?_reverse]
  exact dropWhile_head _

theorem chunks_flatten (n : Nat) (hn : 0 < n) : ∀ fuel (bs : List Nat), bs.length ≤ fuel →
    (chunks n fuel bs).flatten = bs := by
  intro fuel
  induction fuel with
  | zero => intro bs h; cases bs <;> simp_all [chunks]
  | succ fuel ih =>
    intro bs h
    cases bs with
    | nil => simp [chunks]
    | cons b bs =>
      simp only [chunks, List.flatten_cons]
      have h' : bs.length ≤ fuel := by simpa using h
      rw [ih _ (by simp only [List.length_drop, List.length_cons]; omega), List.take_append_drop]

theorem chunks_sizes (n : Nat) (hn : 0 < n) : ∀ fuel (bs : List Nat), bs.length ≤ fuel →
    ∀ c ∈ chunks n fuel bs, 0 < c.length ∧ c.length ≤ n := by
  intro fuel
  induction fuel with
  | zero => intro bs h c hc; cases bs <;> simp_all [chunks]
  | succ fuel ih =>
    intro bs h c hc
    cases bs with
    | nil => simp [chunks] at hc
    | cons b bs =>
      simp only [chunks, List.mem_cons] at hc
      have h' : bs.length ≤ fuel := by simpa using h
      rcases hc with hc | hc
      · subst hc; simp only [List.length_take, List.length_cons]; omega
      · exact ih _ (by simp only [List.length_drop, List.length_cons]; omega) c hc

/-- every part but the last is exactly `n` long (what S3 demands of a multipart upload, with n = 5 MiB) -/
theorem chunks_full (n : Nat) (hn : 0 < n) : ∀ fuel (bs : List Nat), bs.length ≤ fuel →
    ∀ c ∈ (chunks n fuel bs).dropLast, c.length = n := by
  intro fuel
  induction fuel with
  | zero => intro bs h c hc; cases bs <;> simp_all [chunks]
  | succ fuel ih =>
    intro bs h c hc
    cases bs with
    | nil => simp [chunks] at hc
    | cons b bs =>
      simp only [chunks] at hc
      cases hrest : chunks n fuel ((b :: bs).drop n) with
      | nil => rw [hrest] at hc; simp at hc
      | cons r rs =>
        have h' : bs.length ≤ fuel := by simpa using h
        rw [hrest, List.dropLast_cons_cons] at hc
        simp only [List.mem_cons] at hc
        rcases hc with hc | hc
        · subst hc
          -- there is a rest, so more than n bytes were available
          have hne : (b :: bs).drop n ≠ [] := by
            intro h0; rw [h0] at hrest; cases fuel <;> simp [chunks] at hrest
          have hl : n < (b :: bs).length := by
            cases Nat.lt_or_ge n (b :: bs).length with
            | inl h1 => exact h1
            | inr h1 => exact absurd (List.drop_eq_nil_of_le h1) hne
          simp only [List.length_take]; omega
        · have := ih ((b :: bs).drop n) (by simp only [List.length_drop, List.length_cons]; omega) c
          rw [hrest] at this
          exact this hc

theorem fold_putFiles (o : Obj) (l : List Nat) :
    (l.map Req.putVersionFile).foldl apply o = { o with uploaded := o.uploaded ++ l } := by
  induction l generalizing o with
  | nil => simp
  | cons x xs ih => simp [ih, apply, List.append_assoc]

theorem fold_declOld (l : List Req) (o : Obj) (h : ∀ r ∈ l, r ≠ .deleteOldDeclaration) :
    (l.foldl apply o).declOld = o.declOld := by
  induction l generalizing o with
  | nil => rfl
  | cons r rs ih =>
    simp only [List.foldl_cons]
    rw [ih _ (fun r' hr' => h r' (by simp [hr']))]
    cases r <;> simp_all [apply]

/-! ### what a delimiter listing enumerates -/

/-- one step of the delimiter grouping of `entries` -/
def groupStep (n : Nat) (acc : List Entry) (k : Str) : List Entry :=
  match commonPrefix n k with
  | some cp => if acc.getLast? = some (.dir cp) then acc else acc ++ [.dir cp]
  | none => acc ++ [.key k]

theorem entries_delim (keys : List Str) (pfx : Str) :
    entries keys pfx true = (keys.filter (fun k => pfx.isPrefixOf k)).foldl (groupStep pfx.length) [] := rfl

theorem group_mem_key (n : Nat) (l : List Str) (acc : List Entry) (k : Str) :
    Entry.key k ∈ l.foldl (groupStep n) acc ↔ Entry.key k ∈ acc ∨ (k ∈ l ∧ commonPrefix n k = none) := by
  induction l generalizing acc with
  | nil => simp
  | cons x l ih =>
    rw [List.foldl_cons, ih]
    unfold groupStep
    cases hx : commonPrefix n x with
    | some cp =>
      simp only
      have hne : ∀ (a : List Entry), Entry.key k ∈ a ++ [Entry.dir cp] ↔ Entry.key k ∈ a := by intro a; simp
      constructor
      · rintro (h | ⟨h1, h2⟩)
        · split at h
          · exact Or.inl h
          · exact Or.inl ((hne _).mp h)
        · exact Or.inr ⟨List.mem_cons_of_mem _ h1, h2⟩
      · rintro (h | ⟨h1, h2⟩)
        · left; split
          · exact h
          · exact (hne _).mpr h
        · rcases List.mem_cons.mp h1 with rfl | h1
          · rw [hx] at h2; cases h2
          · exact Or.inr ⟨h1, h2⟩
    | none =>
      simp only
      have hk : ∀ (a : List Entry), Entry.key k ∈ a ++ [Entry.key x] ↔ Entry.key k ∈ a ∨ k = x := by
        intro a; simp
      rw [hk]
      constructor
      · rintro ((h | h) | ⟨h1, h2⟩)
        · exact Or.inl h
        · subst h; exact Or.inr ⟨List.mem_cons_self .., hx⟩
        · exact Or.inr ⟨List.mem_cons_of_mem _ h1, h2⟩
      · rintro (h | ⟨h1, h2⟩)
        · exact Or.inl (Or.inl h)
        · rcases List.mem_cons.mp h1 with h1 | h1
          · exact Or.inl (Or.inr h1)
          · exact Or.inr ⟨h1, h2⟩

theorem group_mem_dir (n : Nat) (l : List Str) (acc : List Entry) (cp : Str) :
    Entry.dir cp ∈ l.foldl (groupStep n) acc ↔ Entry.dir cp ∈ acc ∨ ∃ k ∈ l, commonPrefix n k = some cp := by
  induction l generalizing acc with
  | nil => simp
  | cons x l ih =>
    rw [List.foldl_cons, ih]
    unfold groupStep
    cases hx : commonPrefix n x with
    | some cp' =>
      simp only
      constructor
      · rintro (h | ⟨k, h1, h2⟩)
        · split at h
          · exact Or.inl h
          · rw [List.mem_append, List.mem_singleton] at h
            rcases h with h | h
            · exact Or.inl h
            · injection h with h; subst h
              exact Or.inr ⟨x, List.mem_cons_self .., hx⟩
        · exact Or.inr ⟨k, List.mem_cons_of_mem _ h1, h2⟩
      · rintro (h | ⟨k, h1, h2⟩)
        · left; split
          · exact h
          · exact List.mem_append_left _ h
        · rcases List.mem_cons.mp h1 with rfl | h1
          · rw [hx] at h2; injection h2 with h2; subst h2
            left; split
            · rename_i hl
              exact List.mem_of_getLast? hl
            · simp
          · exact Or.inr ⟨k, h1, h2⟩
    | none =>
      simp only
      have hne : ∀ (a : List Entry), Entry.dir cp ∈ a ++ [Entry.key x] ↔ Entry.dir cp ∈ a := by intro a; simp
      rw [hne]
      constructor
      · rintro (h | ⟨k, h1, h2⟩)
        · exact Or.inl h
        · exact Or.inr ⟨k, List.mem_cons_of_mem _ h1, h2⟩
      · rintro (h | ⟨k, h1, h2⟩)
        · exact Or.inl h
        · rcases List.mem_cons.mp h1 with rfl | h1
          · rw [hx] at h2; cases h2
          · exact Or.inr ⟨k, h1, h2⟩

end Rocfl.S3
