import RocflModel.Lemmas.Invariant
import RocflModel.Machine
/-
  The invariant every repository reachable by any history satisfies: version bookkeeping is
  consistent and every logical state — of every version of every committed and staged object — has
  unique paths, no path that is both a file and a directory, and no empty path.
-/
namespace Rocfl

theorem AL.mem_erase_sub {α β : Type} [DecidableEq α] (l : List (α × β)) (k : α) (e : α × β) (h : e ∈ AL.erase l k) : e ∈ l := by
  induction l with
  | nil => simp [AL.erase] at h
  | cons x xs ih =>
    simp only [AL.erase] at h
    split at h
    · exact List.mem_cons_of_mem _ (ih h)
    · rcases List.mem_cons.1 h with h | h
      · exact h ▸ List.mem_cons_self
      · exact List.mem_cons_of_mem _ (ih h)

theorem AL.mem_insert_sub {α β : Type} [DecidableEq α] (l : List (α × β)) (k : α) (v : β) (e : α × β) (h : e ∈ AL.insert l k v) :
    e ∈ l ∨ e = (k, v) := by
  simp only [AL.insert, List.mem_append, List.mem_singleton] at h
  rcases h with h | h
  · exact Or.inl (AL.mem_erase_sub l k e h)
  · exact Or.inr h

def InvOk (inv : Inv) : Prop := inv.LenOk ∧ ∀ v ∈ inv.versions, StateOk v.state

def ObjOk (o : Obj) : Prop := InvOk o.inv

def RepoOk (r : Repo) : Prop := (∀ e ∈ r.main, ObjOk e.2) ∧ (∀ e ∈ r.staged, ObjOk e.2)

theorem InvOk.congr {a b : Inv} (hh : b.head.number = a.head.number) (hv : b.versions = a.versions) (h : InvOk a) : InvOk b := by
  obtain ⟨⟨h1, h2⟩, h3⟩ := h
  exact ⟨⟨by omega, by rw [hv, hh]; exact h2⟩, by rw [hv]; exact h3⟩

theorem InvOk.headVersion_mem {inv : Inv} (h : InvOk inv) : inv.headVersion ∈ inv.versions := by
  obtain ⟨⟨h1, h2⟩, _⟩ := h
  have hn : inv.head.number ≠ 0 := by omega
  have hlt : inv.head.number - 1 < inv.versions.length := by omega
  simp only [Inv.headVersion, Inv.getVersion, hn, if_false]
  rw [List.getElem?_eq_getElem hlt]
  simp

theorem InvOk.head_ok {inv : Inv} (h : InvOk inv) : StateOk inv.headVersion.state := h.2 _ h.headVersion_mem

theorem InvOk.setHead {inv : Inv} (h : InvOk inv) (v : Version) (hv : StateOk v.state) : InvOk (inv.setHeadVersion v) := by
  refine ⟨Inv.setHeadVersion_lenOk inv v h.1, ?_⟩
  intro w hw
  simp only [Inv.setHeadVersion] at hw
  rcases List.mem_or_eq_of_mem_set hw with hw | hw
  · exact h.2 w hw
  · exact hw ▸ hv

theorem InvOk.getVersion {inv : Inv} (h : InvOk inv) {n : Nat} {v : Version} (hv : inv.getVersion n = some v) : StateOk v.state := by
  simp only [Inv.getVersion] at hv
  split at hv
  · cases hv
  · exact h.2 v (List.mem_of_getElem? hv)

theorem InvOk.manifest {inv : Inv} (h : InvOk inv) (m : List (CPath × Digest)) : InvOk { inv with manifest := m } :=
  InvOk.congr (a := inv) rfl rfl h

theorem addFileToHead_ok {inv inv' : Inv} {d : Digest} {p : LPath} (h : InvOk inv) (he : inv.addFileToHead d p = .ok inv') : InvOk inv' := by
  simp only [Inv.addFileToHead] at he
  have h1 : InvOk { inv with manifest := AL.insert inv.manifest (inv.newContentPath p) d } := h.manifest _
  split at he
  · cases he
  · rename_i v hv
    cases he
    exact h1.setHead v (addFile_ok _ v d p hv h1.head_ok).1

theorem copyFileToHead_ok {inv inv' : Inv} {n : Nat} {src dst : LPath} (h : InvOk inv) (he : inv.copyFileToHead n src dst = .ok inv') : InvOk inv' := by
  simp only [Inv.copyFileToHead] at he
  split at he
  · cases he
  · split at he
    · cases he
    · split at he
      · cases he
      · rename_i v hv
        cases he
        exact (h.setHead v (addFile_ok _ v _ dst hv h.head_ok).1).manifest _

theorem moveFileInHead_ok {inv inv' : Inv} {src dst : LPath} (h : InvOk inv) (he : inv.moveFileInHead src dst = .ok inv') : InvOk inv' := by
  simp only [Inv.moveFileInHead] at he
  split at he
  · cases he
  · split at he
    · cases he
    · rename_i v hv
      cases he
      exact (h.setHead _ (removeFile_ok v src (addFile_ok _ v _ dst hv h.head_ok).1)).manifest _

theorem moveNewInHeadFile_ok {inv inv' : Inv} {d : Digest} {src dst : LPath} (h : InvOk inv) (he : inv.moveNewInHeadFile d src dst = .ok inv') : InvOk inv' := by
  simp only [Inv.moveNewInHeadFile] at he
  have h1 : InvOk { inv with manifest := AL.insert (AL.erase inv.manifest (inv.newContentPath src)) (inv.newContentPath dst) d } := h.manifest _
  split at he
  · cases he
  · rename_i v hv
    cases he
    exact h1.setHead _ (removeFile_ok v src (addFile_ok _ v d dst hv h1.head_ok).1)

theorem removeLogicalPathFromHead_ok {inv : Inv} (p : LPath) (h : InvOk inv) : InvOk (inv.removeLogicalPathFromHead p).1 := by
  simp only [Inv.removeLogicalPathFromHead]
  split
  · have h1 := h.setHead _ (removeFile_ok inv.headVersion p h.head_ok)
    split
    · exact h1.manifest _
    · exact h1
  · exact h

theorem updateMeta_ok {inv : Inv} (m : Meta) (h : InvOk inv) : InvOk (inv.updateMeta m) :=
  h.setHead _ h.head_ok

theorem dedupHead_ok {inv : Inv} (keep : Digest → List CPath) (h : InvOk inv) : InvOk (inv.dedupHead keep).1 := by
  simp only [Inv.dedupHead]
  exact h.manifest _

theorem ite_number (c : Prop) [Decidable c] (n w1 w2 : Nat) :
    (if c then ({ number := n, width := w1 } : VNum) else { number := n, width := w2 }).number = n := by
  split <;> rfl

theorem VNum.reparse_number (v : VNum) : v.reparse.number = v.number := by
  unfold VNum.reparse
  exact ite_number _ _ _ _

theorem reparse_ok {inv : Inv} (h : InvOk inv) : InvOk inv.reparse := by
  have hn : inv.reparse.head.number = inv.head.number := VNum.reparse_number inv.head
  have hv : inv.reparse.versions = inv.versions := by unfold Inv.reparse; rfl
  exact InvOk.congr hn hv h

theorem next_number (v v' : VNum) (h : v.next = .ok v') : v'.number = v.number + 1 := by
  unfold VNum.next at h
  split at h
  · cases h
  · cases h; rfl

theorem createStagingHead_ok {inv inv' : Inv} {now : Str} (h : InvOk inv) (he : inv.createStagingHead now = .ok inv') : InvOk inv' := by
  simp only [Inv.createStagingHead] at he
  split at he
  · cases he
  · rename_i vn hvn
    cases he
    have hn := next_number _ _ hvn
    obtain ⟨⟨h1, h2⟩, h3⟩ := h
    refine ⟨⟨by simp only; omega, by simp only [List.length_append, List.length_cons, List.length_nil]; omega⟩, ?_⟩
    intro v hv
    simp only [List.mem_append, List.mem_singleton] at hv
    rcases hv with hv | hv
    · exact h3 v hv
    · subst hv; exact InvOk.head_ok ⟨⟨h1, h2⟩, h3⟩

/-! ### objects -/

theorem touch_ok {o : Obj} (now : Str) (h : ObjOk o) : ObjOk (touch o now) := by
  unfold ObjOk touch
  exact InvOk.setHead h _ (InvOk.head_ok h)

theorem putFile_inv {o o' : Obj} {cp : CPath} {d : Digest} (he : putFile o cp d = .ok o') : o'.inv = o.inv := by
  unfold putFile at he
  split at he
  · cases he
  · cases he; rfl

theorem rmFile_inv (o : Obj) (cp : CPath) : (rmFile o cp).inv = o.inv := rfl

theorem stageExternalFile_ok {o o' : Obj} {lp : LPath} {d : Digest} (h : ObjOk o) (he : stageExternalFile o lp d = .ok o') : ObjOk o' := by
  unfold stageExternalFile at he
  split at he
  · cases he
  · split at he
    · cases he
    · rename_i o1 h1
      split at he
      · cases he
      · rename_i inv hinv
        cases he
        have : InvOk o1.inv := by rw [putFile_inv h1]; exact h
        exact addFileToHead_ok this hinv

theorem foldl_fst_ok {α β : Type} (f : Obj × β → α → Obj × β)
    (hf : ∀ acc a, ObjOk acc.1 → ObjOk (f acc a).1) : ∀ (l : List α) (acc : Obj × β), ObjOk acc.1 → ObjOk (l.foldl f acc).1 := by
  intro l
  induction l with
  | nil => intro acc ha; exact ha
  | cons a as ih => intro acc ha; exact ih _ (hf acc a ha)

theorem extOne_ok (c : ExtCtx) {o : Obj} (s : Src) (h : ObjOk o) : ObjOk (extOne c o s).1 := by
  unfold extOne
  cases s with
  | missing => exact h
  | file name d =>
    simp only
    split
    · exact h
    · split
      · exact h
      · rename_i o' ho'; exact stageExternalFile_ok h ho'
  | dir name files =>
    simp only
    split
    · apply foldl_fst_ok _ _ files (o, 0, []) h
      intro acc f ha
      split
      · exact ha
      · split
        · exact ha
        · rename_i o' ho'; exact stageExternalFile_ok ha ho'
    · exact h

theorem copyExternalBody_ok (srcs : List Src) (dst : Str) (recursive : Bool) (now : Str) {o : Obj} (h : ObjOk o) :
    ∀ o', (copyExternalBody srcs dst recursive now o).2.1 = some o' → ObjOk o' := by
  intro o' he
  unfold copyExternalBody at he
  split at he
  · cases he
  · simp only at he
    cases he
    apply touch_ok
    apply foldl_fst_ok _ _ srcs (o, 0, []) h
    intro acc s ha
    exact extOne_ok _ s ha

theorem copyOneInternal_ok {o o' : Obj} {n : Nat} {src dst : LPath} (h : ObjOk o) (he : copyOneInternal o n src dst = .ok o') : ObjOk o' := by
  unfold copyOneInternal at he
  split at he
  · cases he
  · split at he
    · cases he
    · split at he
      · cases he
      · split at he
        · cases he
        · split at he
          · cases he
          · rename_i o1 h1
            split at he
            · cases he
            · rename_i inv hinv
              cases he
              have : InvOk o1.inv := by rw [putFile_inv h1]; exact h
              exact addFileToHead_ok this hinv
    · split at he
      · cases he
      · rename_i inv hinv
        cases he
        exact copyFileToHead_ok h hinv

theorem moveOneInternal_ok {o o' : Obj} {src dst : LPath} (h : ObjOk o) (he : moveOneInternal o src dst = .ok o') : ObjOk o' := by
  unfold moveOneInternal at he
  split at he
  · cases he
  · split at he
    · cases he
    · split at he
      · cases he
      · split at he
        · cases he
        · split at he
          · cases he
          · rename_i o1 h1
            split at he
            · cases he
            · rename_i inv hinv
              cases he
              have : InvOk o1.inv := by rw [putFile_inv h1]; exact h
              exact moveNewInHeadFile_ok this hinv
    · split at he
      · cases he
      · rename_i inv hinv
        cases he
        exact moveFileInHead_ok h hinv

theorem internalBody_ok (move : Bool) (srcVer : Option Nat) (srcs : List Str) (dst : Str) (recursive : Bool) (now : Str)
    {o : Obj} (h : ObjOk o) : ∀ o', (internalBody move srcVer srcs dst recursive now o).2.1 = some o' → ObjOk o' := by
  intro o' he
  unfold internalBody at he
  simp only at he
  split at he
  · split at he <;> cases he
  · split at he
    · cases he
    · simp only at he
      cases he
      apply touch_ok
      apply foldl_fst_ok _ _ _ (o, _) h
      intro acc p ha
      split
      · exact ha
      · rename_i o2 ho2
        cases move with
        | true => exact moveOneInternal_ok ha (by simpa using ho2)
        | false => exact copyOneInternal_ok ha (by simpa using ho2)

theorem removeOne_ok {o : Obj} (p : LPath) (h : ObjOk o) : ObjOk (removeOne o p) := by
  unfold removeOne
  have := removeLogicalPathFromHead_ok p h
  split
  · rename_i inv cp heq
    rw [heq] at this
    exact this
  · rename_i inv heq
    rw [heq] at this
    exact this

theorem foldl_removeOne_ok (l : List LPath) {o : Obj} (h : ObjOk o) : ObjOk (l.foldl removeOne o) := by
  induction l generalizing o with
  | nil => exact h
  | cons p ps ih => exact ih (removeOne_ok p h)

theorem removeBody_ok (paths : List Str) (recursive : Bool) {o : Obj} (h : ObjOk o) :
    ∀ o', (removeBody paths recursive o).2.1 = some o' → ObjOk o' := by
  intro o' he
  unfold removeBody at he
  simp only at he
  cases he
  exact foldl_removeOne_ok _ h

theorem resetBody_ok (paths : List Str) (recursive : Bool) (now : Str) {o o' : Obj} (h : ObjOk o)
    (he : resetBody paths recursive now o = .ok o') : ObjOk o' := by
  unfold resetBody at he
  simp only at he
  have restore : ∀ (pn : Nat) (l : List LPath) (a : Except Err Obj), (∀ x, a = .ok x → ObjOk x) →
      ∀ y, l.foldl (fun (a : Except Err Obj) (p : LPath) =>
        match a with
        | .error e => .error e
        | .ok o2 =>
          let o3 := removeOne o2 p
          match o3.inv.copyFileToHead pn p p with
          | .error e => .error e
          | .ok inv => .ok { o3 with inv := inv }) a = .ok y → ObjOk y := by
    intro pn l
    induction l with
    | nil => intro a ha y hy; exact ha y hy
    | cons p ps ih =>
      intro a ha y hy
      simp only [List.foldl_cons] at hy
      apply ih _ _ y hy
      intro x hx
      cases a with
      | error e => simp at hx
      | ok o2 =>
        simp only at hx
        split at hx
        · cases hx
        · rename_i inv hinv
          cases hx
          exact copyFileToHead_ok (removeOne_ok p (ha o2 rfl)) hinv
  split at he
  · cases he
    exact touch_ok now (foldl_removeOne_ok _ h)
  · split at he
    · cases he
    · rename_i o4 ho4
      cases he
      apply touch_ok
      exact restore _ _ _ (fun x hx => by cases hx; exact foldl_removeOne_ok _ h) o4 ho4

/-! ### repositories -/

theorem RepoOk.empty (s : SpecV) : RepoOk (Repo.empty s) := by
  constructor <;> intro e he <;> simp [Repo.empty] at he

theorem staged_get_ok {r : Repo} {id : Str} {o : Obj} (h : RepoOk r) (hg : AL.get r.staged id = some o) : ObjOk o :=
  h.2 (id, o) (AL.mem_of_get hg)

theorem main_get_ok {r : Repo} {id : Str} {o : Obj} (h : RepoOk r) (hg : AL.get r.main id = some o) : ObjOk o :=
  h.1 (id, o) (AL.mem_of_get hg)

theorem insert_all_ok {l : List (Str × Obj)} {id : Str} {o : Obj} (hl : ∀ e ∈ l, ObjOk e.2) (ho : ObjOk o) :
    ∀ e ∈ AL.insert l id o, ObjOk e.2 := by
  intro e he
  rcases AL.mem_insert_sub l id o e he with he | he
  · exact hl e he
  · subst he; exact ho

theorem erase_all_ok {l : List (Str × Obj)} {id : Str} (hl : ∀ e ∈ l, ObjOk e.2) : ∀ e ∈ AL.erase l id, ObjOk e.2 :=
  fun e he => hl e (AL.mem_erase_sub l id e he)

theorem saveStaged_ok {r : Repo} {id : Str} {o : Obj} (h : RepoOk r) (ho : ObjOk o) : RepoOk (saveStaged r id o) :=
  ⟨h.1, insert_all_ok h.2 ho⟩

theorem getOrCreateStaged_ok {r r1 : Repo} {id now : Str} {o : Obj} (h : RepoOk r)
    (he : getOrCreateStaged r id now = .ok (r1, o)) : RepoOk r1 ∧ ObjOk o := by
  unfold getOrCreateStaged at he
  split at he
  · rename_i o0 hg
    cases he
    exact ⟨h, staged_get_ok h hg⟩
  · split at he
    · cases he
    · rename_i m hm
      split at he
      · cases he
      · rename_i inv hinv
        cases he
        have ho : ObjOk { inv := inv.reparse, files := [] } := reparse_ok (createStagingHead_ok (main_get_ok h hm) hinv)
        exact ⟨⟨h.1, insert_all_ok h.2 ho⟩, ho⟩

theorem withStaged_ok {α : Type} (r : Repo) (id now : Str) (dflt : α) (body : Obj → Except Err Unit × Option Obj × α)
    (h : RepoOk r) (hb : ∀ o, ObjOk o → ∀ o', (body o).2.1 = some o' → ObjOk o') :
    RepoOk (withStaged r id now dflt body).2.1 := by
  unfold withStaged
  split
  · exact h
  · rename_i r1 o hg
    obtain ⟨hr1, ho⟩ := getOrCreateStaged_ok h hg
    split
    · rename_i res o' a hbody
      exact saveStaged_ok hr1 (hb o ho o' (by rw [hbody]))
    · exact hr1

theorem createObject_ok {r r' : Repo} {id : Str} {spec : Option SpecV} {alg : DAlg} {cdir : Str} {width : Nat} {now : Str}
    (h : RepoOk r) (he : createObject r id spec alg cdir width now = .ok r') : RepoOk r' := by
  unfold createObject at he
  simp only at he
  split at he
  · cases he
  · split at he
    · cases he
    · split at he
      · cases he
      · split at he
        · cases he
        · split at he
          · cases he
          · cases he
            refine ⟨h.1, insert_all_ok h.2 ?_⟩
            apply reparse_ok
            refine ⟨⟨by simp, by simp⟩, ?_⟩
            intro v hv
            simp only [List.mem_singleton] at hv
            subst hv
            exact StateOk.nil

theorem foldl_rmFile_inv' (l : List CPath) (o : Obj) : (l.foldl rmFile o).inv = o.inv := by
  induction l generalizing o with
  | nil => rfl
  | cons c cs ih => simp only [List.foldl_cons]; rw [ih]; rfl

theorem prepareCommit_ok {o : Obj} (m : Meta) (keep : Digest → List CPath) (h : ObjOk o) : ObjOk (prepareCommit o m keep) := by
  unfold ObjOk prepareCommit
  simp only [rmOrphans_inv, foldl_rmFile_inv']
  exact updateMeta_ok m (dedupHead_ok keep h)

theorem commit_ok (r : Repo) (id : Str) (m : Meta) (keep : Digest → List CPath) (hasRoot : Bool) (h : RepoOk r) :
    RepoOk (commit r id m keep hasRoot).2 := by
  rcases commit_cases r id m keep hasRoot with ⟨e, _, hmain, hspec, hst⟩ | ⟨o, hs, _, _, _, heq⟩
  · -- a failed commit may still have saved the prepared staged object
    unfold commit commitInner
    cases hg : AL.get r.staged id with
    | none => exact h
    | some o =>
      simp only
      have hp : ObjOk (prepareCommit o m keep) := prepareCommit_ok m keep (staged_get_ok h hg)
      have hsv := saveStaged_ok (id := id) h hp
      split
      · exact h
      · split
        · split
          · exact hsv
          · split
            · exact hsv
            · exact ⟨insert_all_ok h.1 hp, erase_all_ok hsv.2⟩
        · split
          · exact hsv
          · split
            · exact hsv
            · split
              · exact hsv
              · exact ⟨insert_all_ok h.1 hp, erase_all_ok hsv.2⟩
  · rw [heq]
    have hp : ObjOk (prepareCommit o m keep) := prepareCommit_ok m keep (staged_get_ok h hs)
    exact ⟨insert_all_ok h.1 hp, erase_all_ok (insert_all_ok h.2 hp)⟩

theorem upgradeObject_ok (r : Repo) (id : Str) (t : SpecV) (m : Meta) (keep : Digest → List CPath) (hasLayout : Bool) (now : Str)
    (h : RepoOk r) : RepoOk (upgradeObject r id t m keep hasLayout now).2 := by
  unfold upgradeObject
  split
  · exact h
  · rename_i r1 o hg
    obtain ⟨hr1, ho⟩ := getOrCreateStaged_ok h hg
    split
    · exact hr1
    · split
      · exact hr1
      · apply commit_ok
        apply saveStaged_ok hr1
        exact InvOk.congr (a := o.inv) rfl rfl ho

theorem step_ok (r : Repo) (now : Str) (op : Op) (h : RepoOk r) : RepoOk (step r now op).2 := by
  cases op with
  | create id spec alg cdir width =>
    simp only [step]
    split
    · rename_i r' hr'; exact createObject_ok h hr'
    · exact h
  | cpx id srcs dst recursive =>
    simp only [step, copyExternal]
    split
    · exact h
    · exact withStaged_ok _ _ _ _ _ h (fun o ho => copyExternalBody_ok srcs dst recursive now ho)
  | cpi id ver srcs dst recursive =>
    simp only [step, internalOp]
    split
    · exact h
    · exact withStaged_ok _ _ _ _ _ h (fun o ho => internalBody_ok false ver srcs dst recursive now ho)
  | mvi id srcs dst =>
    simp only [step, internalOp]
    split
    · exact h
    · exact withStaged_ok _ _ _ _ _ h (fun o ho => internalBody_ok true none srcs dst true now ho)
  | rm id paths recursive =>
    simp only [step, removeFiles]
    split
    · exact h
    · exact withStaged_ok _ _ _ _ _ h (fun o ho => removeBody_ok paths recursive ho)
  | resetp id paths recursive =>
    simp only [step, resetPaths]
    split
    · exact h
    · split
      · exact h
      · rename_i o hg
        split
        · exact h
        · rename_i o' ho'
          exact saveStaged_ok h (resetBody_ok paths recursive now (staged_get_ok h hg) ho')
  | resetAll id => exact ⟨h.1, erase_all_ok h.2⟩
  | commit id m keep hasRoot => exact commit_ok r id m keep hasRoot h
  | upgrade id target m keep hasLayout => exact upgradeObject_ok r id target m keep hasLayout now h
  | purge id => exact ⟨erase_all_ok h.1, erase_all_ok h.2⟩

/-- every repository reachable by any history of operations is well-formed -/
theorem reachable_ok (spec : SpecV) (ops : List (Op × Str)) : RepoOk (run spec ops) :=
  run_induction spec (RepoOk.empty spec) (fun r now op h => step_ok r now op h) ops

end Rocfl
