import RocflModel.Lemmas.StageLemmas
namespace Rocfl

/-- no path of the state lies beneath another path of the state: nothing is both file and directory -/
def NoConflict (st : List (LPath × Digest)) : Prop :=
  ∀ a ∈ AL.keys st, ∀ b ∈ AL.keys st, under a b = false

structure StateOk (st : List (LPath × Digest)) : Prop where
  nodup : AL.NoDupKeys st
  noConflict : NoConflict st
  noRoot : [] ∉ AL.keys st

theorem StateOk.nil : StateOk [] := ⟨by simp [AL.NoDupKeys, AL.keys], by intro a ha; simp [AL.keys] at ha, by simp [AL.keys]⟩

theorem under_self (p : Str) : under p p = false := by
  unfold under
  cases h : (p ++ ['/']).isPrefixOf p with
  | false => rfl
  | true =>
    rw [List.isPrefixOf_iff_prefix] at h
    have := h.length_le
    simp only [List.length_append, List.length_cons, List.length_nil] at this
    omega

theorem keys_insert (st : List (LPath × Digest)) (p : LPath) (d : Digest) :
    ∀ a, a ∈ AL.keys (AL.insert st p d) ↔ (a ∈ AL.keys st ∧ a ≠ p) ∨ a = p := by
  intro a
  constructor
  · intro h
    by_cases hap : a = p
    · exact Or.inr hap
    · left
      have h1 : (AL.get (AL.insert st p d) a).isSome := (AL.get_isSome_iff_mem_keys _ _).mpr h
      rw [AL.get_insert_ne _ _ _ _ hap] at h1
      exact ⟨(AL.get_isSome_iff_mem_keys _ _).mp h1, hap⟩
  · rintro (⟨h, hne⟩ | rfl)
    · apply (AL.get_isSome_iff_mem_keys _ _).mp
      rw [AL.get_insert_ne _ _ _ _ hne]
      exact (AL.get_isSome_iff_mem_keys _ _).mpr h
    · apply (AL.get_isSome_iff_mem_keys _ _).mp
      rw [AL.get_insert_self]; rfl

theorem keys_erase (st : List (LPath × Digest)) (p : LPath) :
    ∀ a, a ∈ AL.keys (AL.erase st p) ↔ a ∈ AL.keys st ∧ a ≠ p := by
  intro a
  constructor
  · exact AL.keys_erase_sub st p a
  · rintro ⟨h, hne⟩
    apply (AL.get_isSome_iff_mem_keys _ _).mp
    rw [AL.get_erase_ne _ _ _ hne]
    exact (AL.get_isSome_iff_mem_keys _ _).mpr h

/-- `add_file` keeps the state conflict-free — the `validate_non_conflicting` guard is exactly what
    is needed -/
theorem addFile_ok (v v' : Version) (d : Digest) (p : LPath) (h : v.addFile d p = .ok v') (hs : StateOk v.state) :
    StateOk v'.state ∧ v'.state = AL.insert v.state p d ∧ v'.vmeta = v.vmeta := by
  unfold Version.addFile at h
  split at h
  · cases h
  · rename_i hc
    cases h
    refine ⟨?_, rfl, rfl⟩
    simp only [Version.conflicts, Version.isDir, Bool.or_eq_true, not_or, Bool.not_eq_true,
      List.isEmpty_iff, List.any_eq_false] at hc
    obtain ⟨⟨hne, hdir⟩, hfile⟩ := hc
    have hpne : p ≠ [] := by
      intro e; subst e; simp at hne
    refine ⟨AL.nodup_insert hs.nodup p d, ?_, ?_⟩
    · intro a ha b hb
      rw [keys_insert] at ha hb
      have key : ∀ x, x ∈ AL.keys v.state → ∃ e ∈ v.state, e.1 = x := by
        intro x hx; simpa [AL.keys] using hx
      rcases ha with ⟨ha, _⟩ | rfl <;> rcases hb with ⟨hb, _⟩ | rfl
      · exact hs.noConflict a ha b hb
      · obtain ⟨e, he, rfl⟩ := key a ha
        have := hfile e he
        simpa using this
      · obtain ⟨e, he, rfl⟩ := key b hb
        have := hdir e he
        simpa using this
      · exact under_self _
    · intro hm
      rw [keys_insert] at hm
      rcases hm with ⟨hm, _⟩ | hm
      · exact hs.noRoot hm
      · exact hpne hm.symm

theorem removeFile_ok (v : Version) (p : LPath) (hs : StateOk v.state) : StateOk (v.removeFile p).state := by
  refine ⟨AL.nodup_erase hs.nodup p, ?_, ?_⟩
  · intro a ha b hb
    simp only [Version.removeFile] at ha hb
    rw [keys_erase] at ha hb
    exact hs.noConflict a ha.1 b hb.1
  · intro hm
    simp only [Version.removeFile] at hm
    rw [keys_erase] at hm
    exact hs.noRoot hm.1

/-- in a well-formed state a file is never also a directory -/
theorem file_not_dir (v : Version) (hs : StateOk v.state) (p : LPath) (hf : v.isFile p = true) :
    v.isDir p = false := by
  have hk : p ∈ AL.keys v.state := (AL.get_isSome_iff_mem_keys _ _).mp hf
  have hne : p ≠ [] := fun e => hs.noRoot (e ▸ hk)
  simp only [Version.isDir, Bool.or_eq_false_iff, List.isEmpty_iff, List.any_eq_false]
  refine ⟨by simpa using hne, ?_⟩
  intro e he
  have : e.1 ∈ AL.keys v.state := by simp only [AL.keys, List.mem_map]; exact ⟨e, he, rfl⟩
  simpa using hs.noConflict p hk e.1 this

/-- the inventory's bookkeeping of versions is consistent: `versions[i]` is version `i+1`, up to the head -/
def Inv.LenOk (inv : Inv) : Prop := 1 ≤ inv.head.number ∧ inv.versions.length = inv.head.number

theorem Inv.headVersion_set (inv : Inv) (v : Version) (h : inv.LenOk) :
    (inv.setHeadVersion v).headVersion = v := by
  obtain ⟨h1, h2⟩ := h
  have hn : inv.head.number ≠ 0 := by omega
  simp only [Inv.headVersion, Inv.getVersion, Inv.setHeadVersion, hn, if_false]
  rw [List.getElem?_set_self (by omega)]
  rfl

theorem Inv.setHeadVersion_lenOk (inv : Inv) (v : Version) (h : inv.LenOk) : (inv.setHeadVersion v).LenOk := by
  simpa [Inv.LenOk, Inv.setHeadVersion] using h

/-! ### flat forms of the inventory operations -/

theorem Version.addFile_eq (v : Version) (d : Digest) (p : LPath) :
    v.addFile d p = if v.conflicts p then .error .illegalState else .ok { v with state := AL.insert v.state p d } := rfl

/-- the head version with `p ↦ d` added -/
def Inv.withHeadEntry (inv : Inv) (p : LPath) (d : Digest) : Inv :=
  inv.setHeadVersion { inv.headVersion with state := AL.insert inv.headVersion.state p d }

theorem Inv.addFileToHead_eq (inv : Inv) (d : Digest) (p : LPath) :
    inv.addFileToHead d p =
      if inv.headVersion.conflicts p then .error .illegalState
      else .ok { (inv.withHeadEntry p d) with manifest := AL.insert inv.manifest (inv.newContentPath p) d } := by
  have hh : ({ inv with manifest := AL.insert inv.manifest (inv.newContentPath p) d } : Inv).headVersion = inv.headVersion := rfl
  by_cases hc : inv.headVersion.conflicts p = true
  · simp only [Inv.addFileToHead, Version.addFile_eq, hh, hc, if_true]
  · simp only [Inv.addFileToHead, Version.addFile_eq, hh, hc]
    rfl

theorem Inv.copyFileToHead_eq (inv : Inv) (srcV : Nat) (src dst : LPath) :
    inv.copyFileToHead srcV src dst =
      match inv.getVersion srcV with
      | none => .error .notFound
      | some sv =>
        match sv.lookup src with
        | none => .error .notFound
        | some d =>
          if inv.headVersion.conflicts dst then .error .illegalState
          else .ok { (inv.withHeadEntry dst d) with manifest := AL.erase inv.manifest (inv.newContentPath dst) } := by
  unfold Inv.copyFileToHead
  cases inv.getVersion srcV with
  | none => rfl
  | some sv =>
    simp only
    cases sv.lookup src with
    | none => rfl
    | some d =>
      simp only
      by_cases hc : inv.headVersion.conflicts dst = true
      · simp only [Version.addFile_eq, hc, if_true]
      · simp only [Version.addFile_eq, hc]
        rfl


theorem Inv.withHeadEntry_head (inv : Inv) (p : LPath) (d : Digest) : (inv.withHeadEntry p d).head = inv.head := rfl
theorem Inv.withHeadEntry_manifest (inv : Inv) (p : LPath) (d : Digest) : (inv.withHeadEntry p d).manifest = inv.manifest := rfl
theorem Inv.withHeadEntry_state (inv : Inv) (p : LPath) (d : Digest) (h : inv.LenOk) :
    (inv.withHeadEntry p d).headVersion.state = AL.insert inv.headVersion.state p d := by
  rw [Inv.withHeadEntry, Inv.headVersion_set _ _ h]

/-- flat form of `stageExternalFile` -/
theorem stageExternalFile_eq (o : Obj) (lp : LPath) (d : Digest) :
    stageExternalFile o lp d =
      if o.inv.headVersion.conflicts lp then .error .illegalState
      else if physConflict o.files (o.inv.newContentPath lp) then .error .io
      else .ok { inv := { (o.inv.withHeadEntry lp d) with manifest := AL.insert o.inv.manifest (o.inv.newContentPath lp) d },
                 files := AL.insert o.files (o.inv.newContentPath lp) d } := by
  cases hc : o.inv.headVersion.conflicts lp with
  | true => simp [stageExternalFile, hc]
  | false =>
    cases hp : physConflict o.files (o.inv.newContentPath lp) with
    | true => simp [stageExternalFile, putFile, hc, hp]
    | false => simp [stageExternalFile, putFile, hc, hp, Inv.addFileToHead_eq]

/-- flat form of `removeOne` -/
theorem removeOne_eq (o : Obj) (p : LPath) :
    removeOne o p =
      if o.inv.headVersion.isFile p then
        if AL.has o.inv.manifest (o.inv.newContentPath p) then
          { inv := { (o.inv.setHeadVersion (o.inv.headVersion.removeFile p)) with
                     manifest := AL.erase o.inv.manifest (o.inv.newContentPath p) },
            files := AL.erase o.files (o.inv.newContentPath p) }
        else { o with inv := o.inv.setHeadVersion (o.inv.headVersion.removeFile p) }
      else o := by
  unfold removeOne Inv.removeLogicalPathFromHead
  by_cases hf : o.inv.headVersion.isFile p = true
  · by_cases hm : AL.has o.inv.manifest (o.inv.newContentPath p) = true
    · simp only [hf, hm, if_true]; rfl
    · simp only [hf, hm, if_true]; rfl
  · simp only [hf]; rfl

/-! ### directories are path boundaries -/

/-- **a directory's content is what lies below `dir/`**: `p` is under `d` exactly when it is `d`, a
    slash and something more — a sibling whose name merely starts with `d` (`img2/x` next to `img`)
    is not -/
theorem under_iff (d p : Str) : under d p = true ↔ ∃ rest, p = d ++ '/' :: rest := by
  unfold under
  rw [List.isPrefixOf_iff_prefix]
  constructor
  · rintro ⟨t, ht⟩
    exact ⟨t, by rw [← ht]; simp⟩
  · rintro ⟨rest, h⟩
    exact ⟨rest, by rw [h]; simp⟩

theorem under_sibling_false (d p : Str) (c : Char) (rest : Str) (hc : c ≠ '/') (hp : p = d ++ c :: rest) :
    under d p = false := by
  cases h : under d p with
  | false => rfl
  | true =>
    obtain ⟨r, hr⟩ := (under_iff d p).mp h
    rw [hp] at hr
    have := List.append_cancel_left hr
    injection this with h1 _
    exact absurd h1 hc

/-- `paths_with_prefix` (what `rm -r`, `reset -r`, `cp -i -r`, `mv -i` operate on for a directory):
    exactly the paths of the version that lie under that directory -/
theorem pathsWithPrefix_iff (v : Version) (d p : Str) (hd : d ≠ []) (hl : d.getLast? ≠ some '/') :
    p ∈ v.pathsWithPrefix d ↔ p ∈ AL.keys v.state ∧ under d p = true := by
  unfold Version.pathsWithPrefix under
  have h1 : d.isEmpty = false := by cases d with | nil => exact absurd rfl hd | cons _ _ => rfl
  have h2 : (d.getLast? == some '/') = false := by simpa using hl
  simp [h1, h2, List.mem_filter]

end Rocfl
