import RocflModel.Scan
import RocflModel.Lemmas.JsonLemmas
namespace Rocfl.Scan
open Rocfl Rocfl.Json

theorem scanBody_plain (c : Char) (t : Str) (h1 : c ≠ '"') (h2 : c ≠ '\\') :
    scanBody (c :: t) = (scanBody t).map (fun p => (c :: p.1, p.2)) := by
  conv => lhs; unfold scanBody
  simp [h1, h2]

theorem scanBody_pair (e : Char) (t : Str) (he : e ≠ '\n') :
    scanBody ('\\' :: e :: t) = (scanBody t).map (fun p => ('\\' :: e :: p.1, p.2)) := by
  conv => lhs; unfold scanBody
  simp [he]

theorem scanBody_ctrl : ∀ n, n < 32 → ∀ t : Str,
    scanBody (escapeChar (Char.ofNat n) ++ t) = (scanBody t).map (fun p => (escapeChar (Char.ofNat n) ++ p.1, p.2)) := by
  intro n hn t
  have : n = 0 ∨ n = 1 ∨ n = 2 ∨ n = 3 ∨ n = 4 ∨ n = 5 ∨ n = 6 ∨ n = 7 ∨ n = 8 ∨ n = 9 ∨ n = 10 ∨ n = 11 ∨
      n = 12 ∨ n = 13 ∨ n = 14 ∨ n = 15 ∨ n = 16 ∨ n = 17 ∨ n = 18 ∨ n = 19 ∨ n = 20 ∨ n = 21 ∨ n = 22 ∨
      n = 23 ∨ n = 24 ∨ n = 25 ∨ n = 26 ∨ n = 27 ∨ n = 28 ∨ n = 29 ∨ n = 30 ∨ n = 31 := by omega
  rcases this with h | h | h | h | h | h | h | h | h | h | h | h | h | h | h | h | h | h | h | h | h | h | h | h | h | h | h | h | h | h | h | h <;>
    (subst h
     simp only [escapeChar, hexDigitLower]
     simp (config := { decide := true }) only [List.cons_append, List.nil_append, ite_true, ite_false, if_true, if_false]
     first
       | (rw [scanBody_pair _ _ (by decide), scanBody_plain _ _ (by decide) (by decide),
             scanBody_plain _ _ (by decide) (by decide), scanBody_plain _ _ (by decide) (by decide),
             scanBody_plain _ _ (by decide) (by decide)]
          try (cases scanBody t <;> rfl))
       | (rw [scanBody_pair _ _ (by decide)]
          try (cases scanBody t <;> rfl)))

theorem scanBody_escapeChar (c : Char) (t : Str) :
    scanBody (escapeChar c ++ t) = (scanBody t).map (fun p => (escapeChar c ++ p.1, p.2)) := by
  by_cases hlt : c.toNat < 32
  · have := scanBody_ctrl c.toNat hlt t
    rwa [Char.ofNat_toNat] at this
  · by_cases hq : c = '"'
    · subst hq
      simp only [escapeChar, if_true, List.cons_append, List.nil_append]
      rw [scanBody_pair _ _ (by decide)]
    · by_cases hb : c = '\\'
      · subst hb
        simp only [escapeChar]
        simp (config := { decide := true }) only [List.cons_append, List.nil_append, if_true, if_false, ite_true, ite_false]
        rw [scanBody_pair _ _ (by decide)]
      · have e : escapeChar c = [c] := by
          have h8 : c.toNat ≠ 8 := by omega
          have h9 : c.toNat ≠ 9 := by omega
          have h10 : c.toNat ≠ 10 := by omega
          have h12 : c.toNat ≠ 12 := by omega
          have h13 : c.toNat ≠ 13 := by omega
          simp [escapeChar, hq, hb, h8, h9, h10, h12, h13, hlt]
        rw [e]
        exact scanBody_plain c t hq hb

/-- the capture ends exactly at the quote that closes the id token -/
theorem scanBody_escape (s rest : Str) : scanBody (escape s ++ '"' :: rest) = some (escape s, rest) := by
  induction s with
  | nil =>
    simp only [escape, List.flatMap_nil, List.nil_append]
    conv => lhs; unfold scanBody
    simp
  | cons c s ih =>
    have : escape (c :: s) = escapeChar c ++ escape s := by simp [escape]
    rw [this, List.append_assoc, scanBody_escapeChar, ih]
    rfl


theorem skipWs_append (ws y : Str) (hw : ∀ c ∈ ws, isWs c = true) : skipWs (ws ++ y) = skipWs y := by
  induction ws with
  | nil => rfl
  | cons c ws ih =>
    have hc : isWs c = true := hw c (List.mem_cons_self ..)
    simp only [List.cons_append, skipWs, hc, if_true]
    exact ih (fun x hx => hw x (List.mem_cons_of_mem _ hx))

theorem skipWs_nonws (c : Char) (t : Str) (h : isWs c = false) : skipWs (c :: t) = c :: t := by
  simp [skipWs, h]

theorem matchAt_ne_quote (c : Char) (t : Str) (h : c ≠ '"') : matchAt (c :: t) = none := by
  have : idKey.isPrefixOf (c :: t) = false := by
    simp only [idKey, List.isPrefixOf]
    have : ('"' == c) = false := by simpa using fun e => h e.symm
    simp [this]
  simp [matchAt, this]

theorem findFirst_skip (pre x : Str) (hpre : ∀ c ∈ pre, c ≠ '"') : findFirst (pre ++ x) = findFirst x := by
  induction pre with
  | nil => rfl
  | cons c pre ih =>
    simp only [List.cons_append, findFirst, matchAt_ne_quote c _ (hpre c (List.mem_cons_self ..))]
    exact ih (fun y hy => hpre y (List.mem_cons_of_mem _ hy))

theorem escape_ne_nil (s : Str) (h : s ≠ []) : escape s ≠ [] := by
  cases s with
  | nil => exact absurd rfl h
  | cons c s =>
    have : escapeChar c ≠ [] := by
      unfold escapeChar; repeat' split
      all_goals simp
    simp only [escape, List.flatMap_cons]
    intro e
    exact this (List.append_eq_nil_iff.mp e).1

/-- **the id pre-filter sees the real id**: in any serialisation `… "id" : "<escaped id>" …` whose text
    before the key contains no quote (compact or pretty-printed output of rocfl's writer), the
    extracted and decoded id is exactly the object's id — whatever characters it contains -/
theorem extractId_serialized (pre ws1 ws2 id rest : Str) (hpre : ∀ c ∈ pre, c ≠ '"')
    (hw1 : ∀ c ∈ ws1, isWs c = true) (hw2 : ∀ c ∈ ws2, isWs c = true) (hid : id ≠ []) :
    extractId (pre ++ (idKey ++ (ws1 ++ ':' :: (ws2 ++ (quote id ++ rest))))) = some id := by
  unfold extractId
  rw [findFirst_skip _ _ hpre]
  have hm : matchAt (idKey ++ (ws1 ++ ':' :: (ws2 ++ (quote id ++ rest)))) = some (escape id) := by
    have hp : idKey.isPrefixOf (idKey ++ (ws1 ++ ':' :: (ws2 ++ (quote id ++ rest)))) = true := by
      rw [List.isPrefixOf_iff_prefix]; exact List.prefix_append _ _
    have hd : (idKey ++ (ws1 ++ ':' :: (ws2 ++ (quote id ++ rest)))).drop 4 = ws1 ++ ':' :: (ws2 ++ (quote id ++ rest)) := by
      simp [idKey]
    simp only [matchAt, hp, if_true, hd]
    rw [skipWs_append _ _ hw1, skipWs_nonws ':' _ (by decide)]
    simp only
    rw [skipWs_append _ _ hw2]
    have hq : quote id ++ rest = '"' :: (escape id ++ '"' :: rest) := by simp [quote]
    rw [hq, skipWs_nonws '"' _ (by decide)]
    simp only
    rw [scanBody_escape]
    have : (escape id).isEmpty = false := by
      cases h : escape id with
      | nil => exact absurd h (escape_ne_nil id hid)
      | cons _ _ => rfl
    simp [this]
  have hf : findFirst (idKey ++ (ws1 ++ ':' :: (ws2 ++ (quote id ++ rest)))) = some (escape id) := by
    have : idKey ++ (ws1 ++ ':' :: (ws2 ++ (quote id ++ rest))) = '"' :: (['i', 'd', '"'] ++ (ws1 ++ ':' :: (ws2 ++ (quote id ++ rest)))) := by
      simp [idKey]
    rw [this] at hm ⊢
    simp only [findFirst, hm]
  rw [hf]
  simp [unescape_escape]

end Rocfl.Scan
