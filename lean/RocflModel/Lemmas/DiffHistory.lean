import RocflModel.Diff
/-
  Loop invariants of the models of `list_file_versions` (repo.rs) and of the `last_update`
  attribution of `construct_state` (types.rs).
-/
namespace Rocfl

/-- version `k` holds content `d` at path `p` -/
def Inv.holds (inv : Inv) (k : Nat) (p : LPath) (d : Digest) : Prop :=
  ∃ kv, inv.getVersion k = some kv ∧ kv.lookup p = some d

theorem lastUpdate_go_spec (inv : Inv) (p : LPath) (d : Digest) (vn : Nat) :
    ∀ (fuel n : Nat), n ≤ fuel → n ≤ vn → (∀ k, n ≤ k → k ≤ vn → inv.holds k p d) →
      let m := Inv.lastUpdate.go inv p d fuel n
      m ≤ n ∧ (∀ k, m ≤ k → k ≤ vn → inv.holds k p d) ∧ (m ≤ 1 ∨ ¬ inv.holds (m - 1) p d) := by
  intro fuel
  induction fuel with
  | zero =>
    intro n hf _ hall
    have : n = 0 := by omega
    subst this
    exact ⟨Nat.le_refl _, hall, Or.inl (by unfold Inv.lastUpdate.go; omega)⟩
  | succ fuel ih =>
    intro n hf hvn hall
    unfold Inv.lastUpdate.go
    by_cases h1 : n ≤ 1
    · simp only [h1, if_true]
      exact ⟨Nat.le_refl _, hall, Or.inl (by simp)⟩
    · simp only [h1, if_false]
      cases hg : inv.getVersion (n - 1) with
      | none =>
        simp only
        refine ⟨Nat.le_refl _, hall, Or.inr ?_⟩
        rintro ⟨kv, hk, _⟩
        rw [hg] at hk; cases hk
      | some pv =>
        simp only
        by_cases hl : pv.lookup p = some d
        · have : (pv.lookup p == some d) = true := by simp [hl]
          simp only [this, if_true]
          have hall' : ∀ k, n - 1 ≤ k → k ≤ vn → inv.holds k p d := by
            intro k hk1 hk2
            by_cases hkn : n ≤ k
            · exact hall k hkn hk2
            · have : k = n - 1 := by omega
              subst this
              exact ⟨pv, hg, hl⟩
          obtain ⟨a, b, c⟩ := ih (n - 1) (by omega) (by omega) hall'
          exact ⟨by omega, b, c⟩
        · have : (pv.lookup p == some d) = false := by simp [hl]
          simp only [this, Bool.false_eq_true, if_false]
          refine ⟨Nat.le_refl _, hall, Or.inr ?_⟩
          rintro ⟨kv, hk, hkl⟩
          rw [hg] at hk; cases hk
          exact hl hkl

/-- the content of path `p` in version `k` (`none`: no such version or no such path) -/
def Inv.contentAt (inv : Inv) (k : Nat) (p : LPath) : Option Digest :=
  (inv.getVersion k).bind (·.lookup p)

theorem fileVersions_fold (inv : Inv) (p : LPath) :
    ∀ n, n ≤ inv.versions.length →
      let r := (List.range n).foldl (inv.fileVersionsStep p) (none, [])
      r.1 = inv.contentAt n p ∧
      ∀ k, k ∈ r.2 ↔ 1 ≤ k ∧ k ≤ n ∧ inv.contentAt k p ≠ inv.contentAt (k - 1) p := by
  intro n
  induction n with
  | zero =>
    intro _
    refine ⟨by simp [Inv.contentAt, Inv.getVersion], ?_⟩
    intro k
    simp
    omega
  | succ n ih =>
    intro hn
    obtain ⟨ih1, ih2⟩ := ih (by omega)
    rw [List.range_succ, List.foldl_append]
    simp only [List.foldl_cons, List.foldl_nil]
    generalize hr : (List.range n).foldl (inv.fileVersionsStep p) (none, []) = r at ih1 ih2
    have hlt : n < inv.versions.length := by omega
    have hv : inv.versions[n]? = some inv.versions[n] := List.getElem?_eq_getElem hlt
    have hc : inv.contentAt (n + 1) p = inv.versions[n].lookup p := by
      simp [Inv.contentAt, Inv.getVersion, hv]
    have key : ∀ (r' : Option Digest × List Nat), r'.1 = inv.contentAt (n + 1) p →
        (∀ k, k ∈ r'.2 ↔ k ∈ r.2 ∨ (k = n + 1 ∧ inv.contentAt (n + 1) p ≠ r.1)) →
        r'.1 = inv.contentAt (n + 1) p ∧
          ∀ k, k ∈ r'.2 ↔ 1 ≤ k ∧ k ≤ n + 1 ∧ inv.contentAt k p ≠ inv.contentAt (k - 1) p := by
      intro r' h1 h2
      refine ⟨h1, ?_⟩
      intro k
      rw [h2, ih2]
      constructor
      · rintro (⟨a, b, c⟩ | ⟨rfl, c⟩)
        · exact ⟨a, by omega, c⟩
        · refine ⟨by omega, Nat.le_refl _, ?_⟩
          rw [Nat.add_sub_cancel, ← ih1]; exact c
      · rintro ⟨a, b, c⟩
        by_cases hk : k = n + 1
        · subst hk
          right
          refine ⟨rfl, ?_⟩
          rw [Nat.add_sub_cancel, ← ih1] at c; exact c
        · exact Or.inl ⟨a, by omega, c⟩
    unfold Inv.fileVersionsStep
    rw [hv]
    simp only
    cases hl : inv.versions[n].lookup p with
    | some d =>
      simp only
      by_cases he : r.1 = some d
      · have : (r.1 != some d) = false := by simp [he]
        simp only [this, Bool.false_eq_true, if_false]
        apply key
        · rw [hc, hl, he]
        · intro k; rw [hc, hl, he]; simp
      · have : (r.1 != some d) = true := by simp [he]
        simp only [this, if_true]
        apply key (some d, r.2 ++ [n + 1])
        · rw [hc, hl]
        · intro k
          rw [hc, hl]
          simp only [List.mem_append, List.mem_singleton]
          constructor
          · rintro (h | h)
            · exact Or.inl h
            · exact Or.inr ⟨h, fun h' => he h'.symm⟩
          · rintro (h | ⟨h, _⟩)
            · exact Or.inl h
            · exact Or.inr h
    | none =>
      simp only
      by_cases he : r.1.isSome = true
      · simp only [he, if_true]
        apply key (none, r.2 ++ [n + 1])
        · rw [hc, hl]
        · intro k
          rw [hc, hl]
          simp only [List.mem_append, List.mem_singleton]
          constructor
          · rintro (h | h)
            · exact Or.inl h
            · refine Or.inr ⟨h, fun h' => ?_⟩
              rw [← h'] at he; cases he
          · rintro (h | ⟨h, _⟩)
            · exact Or.inl h
            · exact Or.inr h
      · simp only [he, Bool.false_eq_true, if_false]
        have hn' : r.1 = none := by
          cases h : r.1 with
          | none => rfl
          | some x => rw [h] at he; exact absurd rfl he
        apply key
        · rw [hc, hl, hn']
        · intro k; rw [hc, hl, hn']; simp

end Rocfl
