import RocflModel.Lemmas.RepoInvariant
import RocflModel.Theorems.C08
/-
  Towards "committed versions return the same answers forever" (C02): every staging operation changes
  an inventory only in its head version and in manifest entries that belong to the head version.
-/
namespace Rocfl

def verLe (n : Nat) (e : CPath × Digest) : Bool := decide (e.1.1 ≤ n)

theorem filter_erase_of_not (l : List (CPath × Digest)) (k : CPath) (q : CPath × Digest → Bool)
    (hq : ∀ d, q (k, d) = false) : (AL.erase l k).filter q = l.filter q := by
  induction l with
  | nil => rfl
  | cons e t ih =>
    obtain ⟨a, b⟩ := e
    simp only [AL.erase]
    split
    · rename_i hak
      subst hak
      rw [ih]
      simp [List.filter_cons, hq b]
    · simp only [List.filter_cons, ih]

theorem filter_insert_of_not (l : List (CPath × Digest)) (k : CPath) (d : Digest) (q : CPath × Digest → Bool)
    (hq : ∀ d, q (k, d) = false) : (AL.insert l k d).filter q = l.filter q := by
  simp only [AL.insert, List.filter_append, filter_erase_of_not l k q hq]
  simp [List.filter_cons, hq d]

theorem mem_insert_le {l : List (CPath × Digest)} {k : CPath} {d : Digest} {n : Nat}
    (hl : ∀ e ∈ l, e.1.1 ≤ n) (hk : k.1 ≤ n) : ∀ e ∈ AL.insert l k d, e.1.1 ≤ n := by
  intro e he
  rcases AL.mem_insert_sub l k d e he with he | he
  · exact hl e he
  · subst he; exact hk

theorem mem_erase_le {l : List (CPath × Digest)} {k : CPath} {n : Nat}
    (hl : ∀ e ∈ l, e.1.1 ≤ n) : ∀ e ∈ AL.erase l k, e.1.1 ≤ n :=
  fun e he => hl e (AL.mem_erase_sub l k e he)

/-- `b` differs from `a` only in the head version and in manifest entries of the head version -/
structure HeadOnly (a b : Inv) : Prop where
  head : b.head.number = a.head.number
  cdir : b.contentDir = a.contentDir
  versions : ∀ k, k < a.head.number → b.getVersion k = a.getVersion k
  manifestLow : ∀ n, n < a.head.number → b.manifest.filter (verLe n) = a.manifest.filter (verLe n)
  manifestLe : (∀ e ∈ a.manifest, e.1.1 ≤ a.head.number) → ∀ e ∈ b.manifest, e.1.1 ≤ b.head.number

theorem HeadOnly.refl (a : Inv) : HeadOnly a a := ⟨rfl, rfl, fun _ _ => rfl, fun _ _ => rfl, fun h => h⟩

theorem HeadOnly.trans {a b c : Inv} (h1 : HeadOnly a b) (h2 : HeadOnly b c) : HeadOnly a c :=
  ⟨by rw [h2.head, h1.head], by rw [h2.cdir, h1.cdir],
   fun k hk => by rw [h2.versions k (by rw [h1.head]; exact hk), h1.versions k hk],
   fun n hn => by rw [h2.manifestLow n (by rw [h1.head]; exact hn), h1.manifestLow n hn],
   fun h => h2.manifestLe (h1.manifestLe h)⟩

theorem verLe_new_false (inv : Inv) (p : LPath) (n : Nat) (hn : n < inv.head.number) (d : Digest) :
    verLe n (inv.newContentPath p, d) = false := by
  show decide (inv.head.number ≤ n) = false
  exact decide_eq_false (by omega)

theorem HeadOnly.setHead (inv : Inv) (v : Version) (h : inv.LenOk) : HeadOnly inv (inv.setHeadVersion v) := by
  refine ⟨rfl, rfl, ?_, fun _ _ => rfl, fun h => h⟩
  intro k hk
  simp only [Inv.getVersion, Inv.setHeadVersion]
  split
  · rfl
  · rw [List.getElem?_set_ne]; omega

theorem HeadOnly.manifestInsert (inv : Inv) (p : LPath) (d : Digest) :
    HeadOnly inv { inv with manifest := AL.insert inv.manifest (inv.newContentPath p) d } :=
  ⟨rfl, rfl, fun _ _ => rfl,
   fun n hn => filter_insert_of_not _ _ _ _ (verLe_new_false inv p n hn),
   fun h => mem_insert_le h (Nat.le_refl _)⟩

theorem HeadOnly.manifestErase (inv : Inv) (p : LPath) :
    HeadOnly inv { inv with manifest := AL.erase inv.manifest (inv.newContentPath p) } :=
  ⟨rfl, rfl, fun _ _ => rfl,
   fun n hn => filter_erase_of_not _ _ _ (verLe_new_false inv p n hn),
   fun h => mem_erase_le h⟩

theorem addFileToHead_headOnly {inv inv' : Inv} {d : Digest} {p : LPath} (h : inv.LenOk)
    (he : inv.addFileToHead d p = .ok inv') : HeadOnly inv inv' := by
  simp only [Inv.addFileToHead] at he
  split at he
  · cases he
  · cases he
    exact (HeadOnly.manifestInsert inv p d).trans (HeadOnly.setHead _ _ h)

theorem copyFileToHead_headOnly {inv inv' : Inv} {n : Nat} {src dst : LPath} (h : inv.LenOk)
    (he : inv.copyFileToHead n src dst = .ok inv') : HeadOnly inv inv' := by
  simp only [Inv.copyFileToHead] at he
  split at he
  · cases he
  · split at he
    · cases he
    · split at he
      · cases he
      · rename_i v _
        cases he
        have h1 := HeadOnly.setHead inv v h
        have h2 := HeadOnly.manifestErase (inv.setHeadVersion v) dst
        exact h1.trans h2

theorem moveFileInHead_headOnly {inv inv' : Inv} {src dst : LPath} (h : inv.LenOk)
    (he : inv.moveFileInHead src dst = .ok inv') : HeadOnly inv inv' := by
  simp only [Inv.moveFileInHead] at he
  split at he
  · cases he
  · split at he
    · cases he
    · rename_i v _
      cases he
      exact (HeadOnly.setHead inv (v.removeFile src) h).trans (HeadOnly.manifestErase (inv.setHeadVersion (v.removeFile src)) dst)

theorem moveNewInHeadFile_headOnly {inv inv' : Inv} {d : Digest} {src dst : LPath} (h : inv.LenOk)
    (he : inv.moveNewInHeadFile d src dst = .ok inv') : HeadOnly inv inv' := by
  simp only [Inv.moveNewInHeadFile] at he
  split at he
  · cases he
  · cases he
    have h1 := HeadOnly.manifestErase inv src
    have h2 := HeadOnly.manifestInsert { inv with manifest := AL.erase inv.manifest (inv.newContentPath src) } dst d
    exact (h1.trans h2).trans (HeadOnly.setHead _ _ h)

theorem removeLogicalPathFromHead_headOnly {inv : Inv} (p : LPath) (h : inv.LenOk) :
    HeadOnly inv (inv.removeLogicalPathFromHead p).1 := by
  simp only [Inv.removeLogicalPathFromHead]
  split
  · split
    · exact (HeadOnly.setHead inv _ h).trans (HeadOnly.manifestErase (inv.setHeadVersion _) p)
    · exact HeadOnly.setHead inv _ h
  · exact HeadOnly.refl inv

theorem updateMeta_headOnly {inv : Inv} (m : Meta) (h : inv.LenOk) : HeadOnly inv (inv.updateMeta m) :=
  HeadOnly.setHead inv _ h

theorem dedupHead_headOnly {inv : Inv} (keep : Digest → List CPath) : HeadOnly inv (inv.dedupHead keep).1 := by
  refine ⟨rfl, rfl, fun _ _ => rfl, ?_, fun h e he => h e (List.mem_filter.1 he).1⟩
  intro n hn
  simp only [Inv.dedupHead, List.filter_filter]
  apply List.filter_congr
  intro e he
  -- an entry at or below `n` is not in the head version, hence never removed
  by_cases hv : verLe n e = true
  · have hnot : inv.inHead e.1 = false := by
      simp only [verLe, decide_eq_true_eq] at hv
      simp only [Inv.inHead, beq_eq_false_iff_ne, ne_eq]
      omega
    simp [hv, hnot]
  · simp [hv]

/-! ### objects -/

structure ObjStep (a b : Obj) : Prop where
  inv : HeadOnly a.inv b.inv
  files : ∀ e ∈ b.files, e ∈ a.files ∨ e.1.1 = a.inv.head.number

theorem ObjStep.refl (a : Obj) : ObjStep a a := ⟨HeadOnly.refl _, fun _ he => Or.inl he⟩

theorem ObjStep.trans {a b c : Obj} (h1 : ObjStep a b) (h2 : ObjStep b c) : ObjStep a c :=
  ⟨h1.inv.trans h2.inv, fun e he => by
    rcases h2.files e he with h | h
    · exact h1.files e h
    · exact Or.inr (by rw [h, h1.inv.head])⟩

theorem ObjStep.ofInv {a : Obj} {inv : Inv} (h : HeadOnly a.inv inv) : ObjStep a { a with inv := inv } :=
  ⟨h, fun _ he => Or.inl he⟩

theorem touch_step {o : Obj} (now : Str) (h : ObjOk o) : ObjStep o (touch o now) :=
  ObjStep.ofInv (HeadOnly.setHead o.inv _ h.1)

theorem putFile_step {o o' : Obj} {cp : CPath} {d : Digest} (hcp : cp.1 = o.inv.head.number)
    (he : putFile o cp d = .ok o') : ObjStep o o' := by
  unfold putFile at he
  split at he
  · cases he
  · cases he
    refine ⟨HeadOnly.refl _, fun e hm => ?_⟩
    rcases AL.mem_insert_sub o.files cp d e hm with hm | hm
    · exact Or.inl hm
    · subst hm; exact Or.inr hcp

theorem rmFile_step (o : Obj) (cp : CPath) : ObjStep o (rmFile o cp) :=
  ⟨HeadOnly.refl _, fun e he => Or.inl (AL.mem_erase_sub o.files cp e he)⟩

theorem stageExternalFile_step {o o' : Obj} {lp : LPath} {d : Digest} (h : ObjOk o)
    (he : stageExternalFile o lp d = .ok o') : ObjStep o o' := by
  unfold stageExternalFile at he
  split at he
  · cases he
  · split at he
    · cases he
    · rename_i o1 h1
      split at he
      · cases he
      · rename_i inv hinv
        cases he
        have s1 := putFile_step (o := o) (cp := o.inv.newContentPath lp) rfl h1
        have hl : o1.inv.LenOk := by rw [putFile_inv h1]; exact h.1
        exact s1.trans (ObjStep.ofInv (addFileToHead_headOnly hl hinv))

theorem foldl_fst_step {α β : Type} (f : Obj × β → α → Obj × β)
    (hf : ∀ acc a, ObjOk acc.1 → ObjOk (f acc a).1 ∧ ObjStep acc.1 (f acc a).1) (o : Obj) :
    ∀ (l : List α) (acc : Obj × β), ObjOk acc.1 → ObjStep o acc.1 → ObjStep o (l.foldl f acc).1 := by
  intro l
  induction l with
  | nil => intro acc _ hs; exact hs
  | cons a as ih =>
    intro acc ha hs
    exact ih _ (hf acc a ha).1 (hs.trans (hf acc a ha).2)

theorem extOne_step (c : ExtCtx) {o : Obj} (s : Src) (h : ObjOk o) : ObjStep o (extOne c o s).1 := by
  unfold extOne
  cases s with
  | missing => exact ObjStep.refl o
  | file name d =>
    simp only
    split
    · exact ObjStep.refl o
    · split
      · exact ObjStep.refl o
      · rename_i o' ho'; exact stageExternalFile_step h ho'
  | dir name files =>
    simp only
    split
    · apply foldl_fst_step _ _ o files (o, 0, []) h (ObjStep.refl o)
      intro acc f ha
      split
      · exact ⟨ha, ObjStep.refl _⟩
      · split
        · exact ⟨ha, ObjStep.refl _⟩
        · rename_i o' ho'; exact ⟨stageExternalFile_ok ha ho', stageExternalFile_step ha ho'⟩
    · exact ObjStep.refl o

theorem copyExternalBody_step (srcs : List Src) (dst : Str) (recursive : Bool) (now : Str) {o : Obj} (h : ObjOk o) :
    ∀ o', (copyExternalBody srcs dst recursive now o).2.1 = some o' → ObjStep o o' := by
  intro o' he
  unfold copyExternalBody at he
  split at he
  · cases he
  · simp only at he
    cases he
    refine (fun (k : ∀ x, ObjOk x → ObjStep o x → ObjStep o (touch x now)) => k _ ?a ?b)
      (fun x hx hs => hs.trans (touch_step now hx))
    case a =>
      apply foldl_fst_ok _ _ srcs (o, 0, []) h
      intro acc s ha
      exact extOne_ok _ s ha
    case b =>
      apply foldl_fst_step _ _ o srcs (o, 0, []) h (ObjStep.refl o)
      intro acc s ha
      exact ⟨extOne_ok _ s ha, extOne_step _ s ha⟩

theorem copyOneInternal_step {o o' : Obj} {n : Nat} {src dst : LPath} (h : ObjOk o)
    (he : copyOneInternal o n src dst = .ok o') : ObjStep o o' := by
  unfold copyOneInternal at he
  split at he
  · cases he
  · split at he
    · cases he
    · split at he
      · cases he
      · split at he
        · cases he
        · split at he
          · cases he
          · rename_i o1 h1
            split at he
            · cases he
            · rename_i inv hinv
              cases he
              have s1 := putFile_step (o := o) (cp := o.inv.newContentPath dst) rfl h1
              have hl : o1.inv.LenOk := by rw [putFile_inv h1]; exact h.1
              exact s1.trans (ObjStep.ofInv (addFileToHead_headOnly hl hinv))
    · split at he
      · cases he
      · rename_i inv hinv
        cases he
        exact ObjStep.ofInv (copyFileToHead_headOnly h.1 hinv)

theorem moveOneInternal_step {o o' : Obj} {src dst : LPath} (h : ObjOk o)
    (he : moveOneInternal o src dst = .ok o') : ObjStep o o' := by
  unfold moveOneInternal at he
  split at he
  · cases he
  · split at he
    · cases he
    · split at he
      · cases he
      · split at he
        · cases he
        · split at he
          · cases he
          · rename_i o1 h1
            split at he
            · cases he
            · rename_i inv hinv
              cases he
              have s1 := putFile_step (o := rmFile o _) (cp := o.inv.newContentPath dst) rfl h1
              have hl : o1.inv.LenOk := by rw [putFile_inv h1]; exact h.1
              exact ((rmFile_step o _).trans s1).trans (ObjStep.ofInv (moveNewInHeadFile_headOnly hl hinv))
    · split at he
      · cases he
      · rename_i inv hinv
        cases he
        exact ObjStep.ofInv (moveFileInHead_headOnly h.1 hinv)

theorem internalBody_step (move : Bool) (srcVer : Option Nat) (srcs : List Str) (dst : Str) (recursive : Bool) (now : Str)
    {o : Obj} (h : ObjOk o) : ∀ o', (internalBody move srcVer srcs dst recursive now o).2.1 = some o' → ObjStep o o' := by
  intro o' he
  unfold internalBody at he
  simp only at he
  split at he
  · split at he <;> cases he
  · split at he
    · cases he
    · simp only at he
      cases he
      refine (fun (k : ∀ x, ObjOk x → ObjStep o x → ObjStep o (touch x now)) => k _ ?a ?b)
        (fun x hx hs => hs.trans (touch_step now hx))
      case a =>
        apply foldl_fst_ok _ _ _ (o, _) h
        intro acc p ha
        split
        · exact ha
        · rename_i o2 ho2
          cases move with
          | true => exact moveOneInternal_ok ha (by simpa using ho2)
          | false => exact copyOneInternal_ok ha (by simpa using ho2)
      case b =>
        apply foldl_fst_step _ _ o _ (o, _) h (ObjStep.refl o)
        intro acc p ha
        split
        · exact ⟨ha, ObjStep.refl _⟩
        · rename_i o2 ho2
          cases move with
          | true => exact ⟨moveOneInternal_ok ha (by simpa using ho2), moveOneInternal_step ha (by simpa using ho2)⟩
          | false => exact ⟨copyOneInternal_ok ha (by simpa using ho2), copyOneInternal_step ha (by simpa using ho2)⟩

theorem removeOne_step {o : Obj} (p : LPath) (h : ObjOk o) : ObjStep o (removeOne o p) := by
  unfold removeOne
  have := removeLogicalPathFromHead_headOnly p h.1
  split
  · rename_i inv cp heq
    rw [heq] at this
    exact (ObjStep.ofInv this).trans (rmFile_step _ cp)
  · rename_i inv heq
    rw [heq] at this
    exact ObjStep.ofInv this

theorem foldl_removeOne_step (l : List LPath) {o : Obj} (h : ObjOk o) : ObjStep o (l.foldl removeOne o) := by
  induction l generalizing o with
  | nil => exact ObjStep.refl o
  | cons p ps ih => exact (removeOne_step p h).trans (ih (removeOne_ok p h))

theorem removeBody_step (paths : List Str) (recursive : Bool) {o : Obj} (h : ObjOk o) :
    ∀ o', (removeBody paths recursive o).2.1 = some o' → ObjStep o o' := by
  intro o' he
  unfold removeBody at he
  simp only at he
  cases he
  exact foldl_removeOne_step _ h

theorem resetBody_step (paths : List Str) (recursive : Bool) (now : Str) {o o' : Obj} (h : ObjOk o)
    (he : resetBody paths recursive now o = .ok o') : ObjStep o o' := by
  unfold resetBody at he
  simp only at he
  have restore : ∀ (pn : Nat) (l : List LPath) (a : Except Err Obj), (∀ x, a = .ok x → ObjOk x ∧ ObjStep o x) →
      ∀ y, l.foldl (fun (a : Except Err Obj) (p : LPath) =>
        match a with
        | .error e => .error e
        | .ok o2 =>
          let o3 := removeOne o2 p
          match o3.inv.copyFileToHead pn p p with
          | .error e => .error e
          | .ok inv => .ok { o3 with inv := inv }) a = .ok y → ObjOk y ∧ ObjStep o y := by
    intro pn l
    induction l with
    | nil => intro a ha y hy; exact ha y hy
    | cons p ps ih =>
      intro a ha y hy
      simp only [List.foldl_cons] at hy
      apply ih _ _ y hy
      intro x hx
      cases a with
      | error e => simp at hx
      | ok o2 =>
        simp only at hx
        split at hx
        · cases hx
        · rename_i inv hinv
          cases hx
          obtain ⟨ok2, st2⟩ := ha o2 rfl
          have ok3 := removeOne_ok p ok2
          exact ⟨copyFileToHead_ok ok3 hinv,
            (st2.trans (removeOne_step p ok2)).trans (ObjStep.ofInv (copyFileToHead_headOnly ok3.1 hinv))⟩
  split at he
  · cases he
    exact (foldl_removeOne_step _ h).trans (touch_step now (foldl_removeOne_ok _ h))
  · split at he
    · cases he
    · rename_i o4 ho4
      cases he
      obtain ⟨ok4, st4⟩ := restore _ _ _ (fun x hx => by cases hx; exact ⟨foldl_removeOne_ok _ h, foldl_removeOne_step _ h⟩) o4 ho4
      exact st4.trans (touch_step now ok4)

theorem foldl_rmFile_step (l : List CPath) (o : Obj) : ObjStep o (l.foldl rmFile o) := by
  induction l generalizing o with
  | nil => exact ObjStep.refl o
  | cons c cs ih => exact (rmFile_step o c).trans (ih _)

theorem prepareCommit_step {o : Obj} (m : Meta) (keep : Digest → List CPath) (h : ObjOk o) :
    ObjStep o (prepareCommit o m keep) := by
  unfold prepareCommit
  simp only
  have hd : HeadOnly o.inv (o.inv.dedupHead keep).1 := dedupHead_headOnly keep
  have hu : HeadOnly (o.inv.dedupHead keep).1 ((o.inv.dedupHead keep).1.updateMeta m) := updateMeta_headOnly m (dedupHead_ok keep h).1
  have s1 : ObjStep o { o with inv := (o.inv.dedupHead keep).1.updateMeta m } := ObjStep.ofInv (hd.trans hu)
  have s2 := foldl_rmFile_step (o.inv.dedupHead keep).2 { o with inv := (o.inv.dedupHead keep).1.updateMeta m }
  refine (s1.trans s2).trans ⟨HeadOnly.refl _, fun e he => Or.inl ?_⟩
  simp only [rmOrphans] at he
  exact (List.mem_filter.1 he).1

/-! ### the staged version extends the committed object -/

structure StagedOk (o : Obj) : Prop where
  manifestLe : ∀ e ∈ o.inv.manifest, e.1.1 ≤ o.inv.head.number
  filesHead : ∀ e ∈ o.files, e.1.1 = o.inv.head.number

structure Extends (o old : Obj) : Prop where
  head : o.inv.head.number = old.inv.head.number + 1
  cdir : o.inv.contentDir = old.inv.contentDir
  versions : ∀ k, k ≤ old.inv.head.number → o.inv.getVersion k = old.inv.getVersion k
  manifest : o.inv.manifest.filter (verLe old.inv.head.number) = old.inv.manifest

def MainOk (old : Obj) : Prop := ∀ e ∈ old.inv.manifest, e.1.1 ≤ old.inv.head.number

theorem ObjStep.stagedOk {a b : Obj} (hs : ObjStep a b) (h : StagedOk a) : StagedOk b :=
  ⟨hs.inv.manifestLe h.manifestLe, fun e he => by
    rcases hs.files e he with h1 | h1
    · rw [hs.inv.head]; exact h.filesHead e h1
    · rw [hs.inv.head]; exact h1⟩

theorem ObjStep.extends {a b old : Obj} (hs : ObjStep a b) (h : Extends a old) : Extends b old :=
  ⟨by rw [hs.inv.head]; exact h.head, by rw [hs.inv.cdir]; exact h.cdir,
   fun k hk => by rw [hs.inv.versions k (by rw [h.head]; omega)]; exact h.versions k hk,
   by rw [hs.inv.manifestLow _ (by rw [h.head]; omega)]; exact h.manifest⟩

structure ExtInv (r : Repo) : Prop where
  staged : ∀ id o, AL.get r.staged id = some o → StagedOk o
  main : ∀ id old, AL.get r.main id = some old → MainOk old
  ext : ∀ id o old, AL.get r.staged id = some o → AL.get r.main id = some old → Extends o old

theorem ExtInv.empty (s : SpecV) : ExtInv (Repo.empty s) :=
  ⟨fun _ _ h => by simp [Repo.empty] at h, fun _ _ h => by simp [Repo.empty] at h, fun _ _ _ h => by simp [Repo.empty] at h⟩

theorem ExtInv.saveStaged {r : Repo} {id : Str} {o : Obj} (h : ExtInv r) (ho : StagedOk o)
    (he : ∀ old, AL.get r.main id = some old → Extends o old) : ExtInv (saveStaged r id o) := by
  refine ⟨?_, h.main, ?_⟩
  · intro id' o' hg
    simp only [Rocfl.saveStaged] at hg
    by_cases hid : id' = id
    · subst hid; rw [AL.get_insert_self] at hg; cases hg; exact ho
    · rw [AL.get_insert_ne _ _ _ _ hid] at hg; exact h.staged id' o' hg
  · intro id' o' old hg hm
    simp only [Rocfl.saveStaged] at hg hm
    by_cases hid : id' = id
    · subst hid; rw [AL.get_insert_self] at hg; cases hg; exact he old hm
    · rw [AL.get_insert_ne _ _ _ _ hid] at hg; exact h.ext id' o' old hg hm

theorem filter_eq_self_of_all {l : List (CPath × Digest)} {n : Nat} (h : ∀ e ∈ l, e.1.1 ≤ n) : l.filter (verLe n) = l := by
  apply List.filter_eq_self.2
  intro e he
  simp [verLe, h e he]

theorem Inv.reparse_manifest (inv : Inv) : inv.reparse.manifest = inv.manifest := by unfold Inv.reparse; rfl
theorem Inv.reparse_versions (inv : Inv) : inv.reparse.versions = inv.versions := by unfold Inv.reparse; rfl
theorem Inv.reparse_contentDir (inv : Inv) : inv.reparse.contentDir = inv.contentDir := by unfold Inv.reparse; rfl
theorem Inv.reparse_number (inv : Inv) : inv.reparse.head.number = inv.head.number := VNum.reparse_number inv.head
theorem Inv.reparse_getVersion (inv : Inv) (k : Nat) : inv.reparse.getVersion k = inv.getVersion k := by
  simp only [Inv.getVersion, Inv.reparse_versions]

/-- the staged version `get_or_created_staged_inventory` derives from a committed object -/
theorem staged_from_main (m : Obj) (vn : VNum) (now : Str) (hvn : m.inv.head.next = .ok vn) (hmok : MainOk m) (hmo : ObjOk m)
    (inv0 : Inv) (h0 : inv0 = { m.inv with head := vn, versions := m.inv.versions ++ [{ state := m.inv.headVersion.state, vmeta := stagedMeta now }] }) :
    StagedOk { inv := inv0.reparse, files := [] } ∧ Extends { inv := inv0.reparse, files := [] } m := by
  have hn := next_number _ _ hvn
  have hnum : inv0.reparse.head.number = m.inv.head.number + 1 := by
    rw [Inv.reparse_number, h0]; exact hn
  have hman : inv0.reparse.manifest = m.inv.manifest := by rw [Inv.reparse_manifest, h0]
  constructor
  · refine ⟨?_, fun e he => by simp at he⟩
    intro e he
    show e.1.1 ≤ inv0.reparse.head.number
    rw [hnum]
    have he' : e ∈ m.inv.manifest := by
      have : e ∈ inv0.reparse.manifest := he
      rwa [hman] at this
    have := hmok e he'
    omega
  · refine ⟨hnum, ?_, ?_, ?_⟩
    · show inv0.reparse.contentDir = m.inv.contentDir
      rw [Inv.reparse_contentDir, h0]
    · intro k hk
      show inv0.reparse.getVersion k = m.inv.getVersion k
      rw [Inv.reparse_getVersion, h0]
      simp only [Inv.getVersion]
      split
      · rfl
      · have hlen := hmo.1.2
        rw [List.getElem?_append_left (by omega)]
    · show inv0.reparse.manifest.filter (verLe m.inv.head.number) = m.inv.manifest
      rw [hman]
      exact filter_eq_self_of_all hmok

theorem getOrCreateStaged_ext {r r1 : Repo} {id now : Str} {o : Obj} (h : ExtInv r) (hok : RepoOk r)
    (he : getOrCreateStaged r id now = .ok (r1, o)) :
    ExtInv r1 ∧ r1.main = r.main ∧ StagedOk o ∧ (∀ old, AL.get r.main id = some old → Extends o old) ∧
      AL.get r1.staged id = some o := by
  unfold getOrCreateStaged at he
  split at he
  · rename_i o0 hg
    cases he
    exact ⟨h, rfl, h.staged id _ hg, fun old hm => h.ext id _ old hg hm, hg⟩
  · split at he
    · cases he
    · rename_i m hm
      split at he
      · cases he
      · rename_i inv hinv
        cases he
        have hmok := h.main id m hm
        have hmo := main_get_ok hok hm
        simp only [Inv.createStagingHead] at hinv
        split at hinv
        · cases hinv
        · rename_i vn hvn
          have hinv' : inv = { m.inv with head := vn, versions := m.inv.versions ++ [{ state := m.inv.headVersion.state, vmeta := stagedMeta now }] } := by
            cases hinv; rfl
          obtain ⟨hso, hex⟩ := staged_from_main m vn now hvn hmok hmo inv hinv'
          refine ⟨?_, rfl, hso, ?_, ?_⟩
          · exact ExtInv.saveStaged (r := r) (id := id) h hso (fun old hm' => by rw [hm] at hm'; cases hm'; exact hex)
          · intro old hm'; rw [hm] at hm'; cases hm'; exact hex
          · exact AL.get_insert_self _ _ _

theorem withStaged_ext {α : Type} (r : Repo) (id now : Str) (dflt : α) (body : Obj → Except Err Unit × Option Obj × α)
    (h : ExtInv r) (hok : RepoOk r) (hb : ∀ o, ObjOk o → ∀ o', (body o).2.1 = some o' → ObjStep o o') :
    ExtInv (withStaged r id now dflt body).2.1 := by
  unfold withStaged
  split
  · exact h
  · rename_i r1 o hg
    obtain ⟨h1, hmain, hso, hex, _⟩ := getOrCreateStaged_ext h hok hg
    obtain ⟨_, ho⟩ := getOrCreateStaged_ok hok hg
    split
    · rename_i res o' a hbody
      have hs := hb o ho o' (by rw [hbody])
      exact ExtInv.saveStaged h1 (hs.stagedOk hso) (fun old hm => hs.extends (hex old (by rw [← hmain]; exact hm)))
    · exact h1

theorem createObject_ext {r r' : Repo} {id : Str} {spec : Option SpecV} {alg : DAlg} {cdir : Str} {width : Nat} {now : Str}
    (h : ExtInv r) (he : createObject r id spec alg cdir width now = .ok r') : ExtInv r' := by
  unfold createObject at he
  simp only at he
  split at he
  · cases he
  · split at he
    · cases he
    · split at he
      · cases he
      · split at he
        · cases he
        · rename_i hmain
          split at he
          · cases he
          · cases he
            have hnone : AL.get r.main (trimWs id) = none := by
              simp only [AL.has, Bool.not_eq_true, Option.isSome_eq_false_iff, Option.isNone_iff_eq_none] at hmain
              exact hmain
            apply ExtInv.saveStaged (r := r) h
            · refine ⟨fun e he => ?_, fun e he => by simp at he⟩
              have : e ∈ (Inv.reparse _).manifest := he
              rw [Inv.reparse_manifest] at this
              simp at this
            · intro old hm; rw [hnone] at hm; cases hm

theorem ExtInv.eraseStaged {r : Repo} (id : Str) (h : ExtInv r) : ExtInv { r with staged := AL.erase r.staged id } := by
  refine ⟨?_, h.main, ?_⟩
  · intro id' o hg
    by_cases hid : id' = id
    · subst hid; rw [AL.get_erase_self] at hg; cases hg
    · rw [AL.get_erase_ne _ _ _ hid] at hg; exact h.staged id' o hg
  · intro id' o old hg hm
    by_cases hid : id' = id
    · subst hid; rw [AL.get_erase_self] at hg; cases hg
    · rw [AL.get_erase_ne _ _ _ hid] at hg; exact h.ext id' o old hg hm

theorem ExtInv.purge {r : Repo} (id : Str) (h : ExtInv r) : ExtInv (purge r id) := by
  refine ⟨?_, ?_, ?_⟩
  · intro id' o hg
    simp only [Rocfl.purge] at hg
    by_cases hid : id' = id
    · subst hid; rw [AL.get_erase_self] at hg; cases hg
    · rw [AL.get_erase_ne _ _ _ hid] at hg; exact h.staged id' o hg
  · intro id' old hm
    simp only [Rocfl.purge] at hm
    by_cases hid : id' = id
    · subst hid; rw [AL.get_erase_self] at hm; cases hm
    · rw [AL.get_erase_ne _ _ _ hid] at hm; exact h.main id' old hm
  · intro id' o old hg hm
    simp only [Rocfl.purge] at hg hm
    by_cases hid : id' = id
    · subst hid; rw [AL.get_erase_self] at hg; cases hg
    · rw [AL.get_erase_ne _ _ _ hid] at hg hm; exact h.ext id' o old hg hm

/-- the repository after the staged object `o2` of `id` has been installed -/
theorem ExtInv.install {r : Repo} {id : Str} {o2 : Obj} (h : ExtInv r) (ho2 : StagedOk o2) (st : List (Str × Obj))
    (hst : ∀ id', id' ≠ id → AL.get st id' = AL.get r.staged id') (hsid : AL.get st id = none) :
    ExtInv { repoSpec := r.repoSpec, main := AL.insert r.main id (installed (AL.get r.main id) o2), staged := st } := by
  refine ⟨?_, ?_, ?_⟩
  · intro id' o hg
    by_cases hid : id' = id
    · subst hid; rw [hsid] at hg; cases hg
    · rw [hst id' hid] at hg; exact h.staged id' o hg
  · intro id' old hm
    simp only at hm
    by_cases hid : id' = id
    · subst hid
      rw [AL.get_insert_self] at hm
      cases hm
      exact ho2.manifestLe
    · rw [AL.get_insert_ne _ _ _ _ hid] at hm; exact h.main id' old hm
  · intro id' o old hg hm
    simp only at hg hm
    by_cases hid : id' = id
    · subst hid; rw [hsid] at hg; cases hg
    · rw [hst id' hid] at hg
      rw [AL.get_insert_ne _ _ _ _ hid] at hm
      exact h.ext id' o old hg hm

theorem commit_ext (r : Repo) (id : Str) (m : Meta) (keep : Digest → List CPath) (hasRoot : Bool) (h : ExtInv r) (hok : RepoOk r) :
    ExtInv (commit r id m keep hasRoot).2 := by
  cases hg : AL.get r.staged id with
  | none =>
    have : (commit r id m keep hasRoot).2 = r := by simp [commit, commitInner, hg]
    rw [this]; exact h
  | some o =>
    have ho := staged_get_ok hok hg
    have hs := prepareCommit_step m keep ho
    have hso2 : StagedOk (prepareCommit o m keep) := hs.stagedOk (h.staged id o hg)
    have hsaved : ExtInv (saveStaged r id (prepareCommit o m keep)) :=
      ExtInv.saveStaged h hso2 (fun old hm => hs.extends (h.ext id o old hg hm))
    have hinst := ExtInv.install (id := id) h hso2 (AL.erase (saveStaged r id (prepareCommit o m keep)).staged id)
      (fun id' hid => by simp [saveStaged, AL.get_erase_ne _ _ _ hid, AL.get_insert_ne _ _ _ _ hid]) (AL.get_erase_self _ _)
    unfold commit commitInner
    simp only [hg]
    split
    · exact h
    · split
      · split
        · exact hsaved
        · split
          · exact hsaved
          · rename_i hnm
            have hnone : AL.get r.main id = none := by
              simp only [AL.has, Bool.not_eq_true, Option.isSome_eq_false_iff, Option.isNone_iff_eq_none] at hnm
              exact hnm
            rw [hnone] at hinst
            exact hinst
      · split
        · exact hsaved
        · rename_i old hold
          split
          · exact hsaved
          · split
            · exact hsaved
            · rw [hold] at hinst
              exact hinst

theorem specChange_step (o : Obj) (t : SpecV) : ObjStep o { o with inv := { o.inv with spec := t } } :=
  ⟨⟨rfl, rfl, fun _ _ => rfl, fun _ _ => rfl, fun h => h⟩, fun _ he => Or.inl he⟩

theorem upgradeObject_ext (r : Repo) (id : Str) (t : SpecV) (m : Meta) (keep : Digest → List CPath) (hasLayout : Bool) (now : Str)
    (h : ExtInv r) (hok : RepoOk r) : ExtInv (upgradeObject r id t m keep hasLayout now).2 := by
  unfold upgradeObject
  split
  · exact h
  · rename_i r1 o hg
    obtain ⟨h1, hmain, hso, hex, _⟩ := getOrCreateStaged_ext h hok hg
    obtain ⟨hok1, ho⟩ := getOrCreateStaged_ok hok hg
    split
    · exact h1
    · split
      · exact h1
      · have hs := specChange_step o t
        have ho' : ObjOk { o with inv := { o.inv with spec := t } } := InvOk.congr (a := o.inv) rfl rfl ho
        apply commit_ext
        · exact ExtInv.saveStaged h1 (hs.stagedOk hso) (fun old hm => hs.extends (hex old (by rw [← hmain]; exact hm)))
        · exact saveStaged_ok hok1 ho'

theorem step_ext (r : Repo) (now : Str) (op : Op) (h : ExtInv r) (hok : RepoOk r) : ExtInv (step r now op).2 := by
  cases op with
  | create id spec alg cdir width =>
    simp only [step]
    split
    · rename_i r' hr'; exact createObject_ext h hr'
    · exact h
  | cpx id srcs dst recursive =>
    simp only [step, copyExternal]
    split
    · exact h
    · exact withStaged_ext _ _ _ _ _ h hok (fun o ho => copyExternalBody_step srcs dst recursive now ho)
  | cpi id ver srcs dst recursive =>
    simp only [step, internalOp]
    split
    · exact h
    · exact withStaged_ext _ _ _ _ _ h hok (fun o ho => internalBody_step false ver srcs dst recursive now ho)
  | mvi id srcs dst =>
    simp only [step, internalOp]
    split
    · exact h
    · exact withStaged_ext _ _ _ _ _ h hok (fun o ho => internalBody_step true none srcs dst true now ho)
  | rm id paths recursive =>
    simp only [step, removeFiles]
    split
    · exact h
    · exact withStaged_ext _ _ _ _ _ h hok (fun o ho => removeBody_step paths recursive ho)
  | resetp id paths recursive =>
    simp only [step, resetPaths]
    split
    · exact h
    · split
      · exact h
      · rename_i o hg
        split
        · exact h
        · rename_i o' ho'
          have hs := resetBody_step paths recursive now (staged_get_ok hok hg) ho'
          exact ExtInv.saveStaged h (hs.stagedOk (h.staged id o hg)) (fun old hm => hs.extends (h.ext id o old hg hm))
  | resetAll id => exact ExtInv.eraseStaged id h
  | commit id m keep hasRoot => exact commit_ext r id m keep hasRoot h hok
  | upgrade id target m keep hasLayout => exact upgradeObject_ext r id target m keep hasLayout now h hok
  | purge id => exact ExtInv.purge id h

/-- every reachable repository: staged versions extend the committed objects they were derived from -/
theorem reachable_ext (spec : SpecV) (ops : List (Op × Str)) : RepoOk (run spec ops) ∧ ExtInv (run spec ops) :=
  run_induction (P := fun r => RepoOk r ∧ ExtInv r) spec ⟨RepoOk.empty spec, ExtInv.empty spec⟩
    (fun r now op h => ⟨step_ok r now op h.1, step_ext r now op h.2 h.1⟩) ops

/-! ### reads of committed versions -/

def lowPaths (m : List (CPath × Digest)) (d : Digest) (vn : Nat) : List CPath :=
  ((m.filter (fun e => e.2 == d)).map (·.1)).filter (fun cp => cp.1 ≤ vn)

theorem lowPaths_filter (m : List (CPath × Digest)) (d : Digest) (vn n : Nat) (h : vn ≤ n) :
    lowPaths (m.filter (verLe n)) d vn = lowPaths m d vn := by
  induction m with
  | nil => rfl
  | cons e t ih =>
    by_cases hv : verLe n e = true
    · simp only [List.filter_cons, hv, ↓reduceIte]
      unfold lowPaths at ih ⊢
      by_cases hd : (e.2 == d) = true
      · simp only [List.filter_cons, hd, ↓reduceIte, List.map_cons]
        by_cases hc : decide (e.1.1 ≤ vn) = true
        · simp only [hc, ↓reduceIte]; rw [ih]
        · simp only [hc, ↓reduceIte]; exact ih
      · simp only [List.filter_cons, hd, ↓reduceIte]; exact ih
    · have hv' : verLe n e = false := by simpa using hv
      simp only [List.filter_cons, hv', Bool.false_eq_true, ↓reduceIte]
      rw [ih]
      unfold lowPaths
      by_cases hd : (e.2 == d) = true
      · simp only [List.filter_cons, hd, ↓reduceIte, List.map_cons]
        have : decide (e.1.1 ≤ vn) = false := by
          simp only [verLe, decide_eq_false_iff_not] at hv'
          simp only [decide_eq_false_iff_not]
          omega
        simp only [this, Bool.false_eq_true, ↓reduceIte]
      · have hd' : (e.2 == d) = false := by simpa using hd
        simp only [List.filter_cons, hd', Bool.false_eq_true, ↓reduceIte]

theorem cpfd_eq (a b : Inv) (d : Digest) (vn : Nat) (lp : Option LPath)
    (hm : lowPaths a.manifest d vn = lowPaths b.manifest d vn) (hc : a.contentDir = b.contentDir) :
    a.contentPathsForDigest d vn lp = b.contentPathsForDigest d vn lp := by
  unfold Inv.contentPathsForDigest Inv.pathsFor
  have ha : ((a.manifest.filter (fun e => e.2 == d)).map (·.1)).filter (fun cp => cp.1 ≤ vn) = lowPaths a.manifest d vn := rfl
  have hb : ((b.manifest.filter (fun e => e.2 == d)).map (·.1)).filter (fun cp => cp.1 ≤ vn) = lowPaths b.manifest d vn := rfl
  simp only [ha, hb, hm, hc]

theorem cpfd_mem_le (a : Inv) (d : Digest) (vn : Nat) (lp : Option LPath) (cps : List CPath)
    (h : a.contentPathsForDigest d vn lp = .ok cps) : ∀ cp ∈ cps, cp.1 ≤ vn := by
  unfold Inv.contentPathsForDigest at h
  simp only at h
  have hall : ∀ cp ∈ (a.pathsFor d).filter (fun cp => cp.1 ≤ vn), cp.1 ≤ vn := by
    intro cp hcp
    have := (List.mem_filter.1 hcp).2
    simpa using this
  split at h
  · cases h
  · split at h
    · split at h
      · split at h
        · cases h; exact hall
        · cases h
          intro cp hcp
          exact hall cp (List.mem_filter.1 hcp).1
      · cases h; exact hall
    · cases h; exact hall

theorem get_none_of_version {l : List (CPath × Digest)} {h : Nat} (hl : ∀ e ∈ l, e.1.1 = h) {cp : CPath} (hc : cp.1 ≠ h) :
    AL.get l cp = none := by
  cases hg : AL.get l cp with
  | none => rfl
  | some d =>
    have := hl (cp, d) (AL.mem_of_get hg)
    exact absurd this hc

theorem getObjectFile_eq_readObj (r : Repo) (id : Str) (vn : Nat) (p : LPath) (o : Obj) (h : AL.get r.main id = some o) :
    getObjectFile r id (some vn) p = readObj o vn p := by
  simp [getObjectFile, h]

/-- installing a staged version that extends the committed object changes no answer about the versions
    that were already there -/
theorem installed_read (old o2 : Obj) (hext : Extends o2 old) (hso : StagedOk o2)
    (vn : Nat) (hvn : vn ≤ old.inv.head.number) (p : LPath) :
    readObj (installed (some old) o2) vn p = readObj old vn p := by
  unfold readObj
  have hcp : (installed (some old) o2).inv.contentPathsForLogicalPath p vn = old.inv.contentPathsForLogicalPath p vn := by
    simp only [installed, Inv.contentPathsForLogicalPath, hext.versions vn hvn]
    cases old.inv.getVersion vn with
    | none => rfl
    | some v =>
      simp only
      cases v.lookup p with
      | none => rfl
      | some d =>
        simp only
        apply cpfd_eq _ _ _ _ _ _ hext.cdir
        rw [← lowPaths_filter o2.inv.manifest d vn old.inv.head.number hvn, hext.manifest]
  rw [hcp]
  cases hc : old.inv.contentPathsForLogicalPath p vn with
  | error e => rfl
  | ok cps =>
    simp only
    -- every content path of an earlier version is looked up in the files that were already there
    have hle : ∀ cp ∈ cps, cp.1 ≤ vn := by
      simp only [Inv.contentPathsForLogicalPath] at hc
      split at hc
      · cases hc
      · split at hc
        · cases hc
        · exact cpfd_mem_le _ _ _ _ _ hc
    have hfiles : cps.map (fun cp => AL.get (installed (some old) o2).files cp) = cps.map (fun cp => AL.get old.files cp) := by
      apply List.map_congr_left
      intro cp hcp'
      simp only [installed, Option.map_some, Option.getD_some, AL.get_append]
      have : AL.get o2.files cp = none :=
        get_none_of_version hso.filesHead (by have := hle cp hcp'; rw [hext.head]; omega)
      rw [this]
      cases AL.get old.files cp <;> rfl
    rw [hfiles]

/-- the object `id` is still there after the operation, at the same or a later head, and answers the
    read of version `vn` exactly as `old` did -/
def KeepsRead (r' : Repo) (id : Str) (old : Obj) (vn : Nat) (p : LPath) : Prop :=
  ∃ new, AL.get r'.main id = some new ∧ old.inv.head.number ≤ new.inv.head.number ∧ readObj new vn p = readObj old vn p

theorem KeepsRead.same {r r' : Repo} {id : Str} {old : Obj} (hm : AL.get r.main id = some old)
    (h : AL.get r'.main id = AL.get r.main id) (vn : Nat) (p : LPath) : KeepsRead r' id old vn p :=
  ⟨old, by rw [h]; exact hm, Nat.le_refl _, rfl⟩

theorem commit_keeps_reads (r : Repo) (id : Str) (m : Meta) (keep : Digest → List CPath) (hasRoot : Bool)
    (hok : RepoOk r) (hext : ExtInv r) (old : Obj) (hm : AL.get r.main id = some old)
    (vn : Nat) (hvn : vn ≤ old.inv.head.number) (p : LPath) :
    KeepsRead (commit r id m keep hasRoot).2 id old vn p := by
  rcases commit_cases r id m keep hasRoot with ⟨e, _, hmain, _⟩ | ⟨o, hs, _, _, _, heq⟩
  · exact KeepsRead.same hm (by rw [hmain]) vn p
  · have hstep := prepareCommit_step m keep (staged_get_ok hok hs)
    have hex2 : Extends (prepareCommit o m keep) old := hstep.extends (hext.ext id o old hs hm)
    have hso2 := hstep.stagedOk (hext.staged id o hs)
    refine ⟨installed (some old) (prepareCommit o m keep), ?_, ?_, installed_read old _ hex2 hso2 vn hvn p⟩
    · rw [heq]; simp only; rw [AL.get_insert_self, hm]
    · have := hex2.head
      show old.inv.head.number ≤ (prepareCommit o m keep).inv.head.number
      omega

theorem step_keeps_reads (r : Repo) (now : Str) (op : Op) (hok : RepoOk r) (hext : ExtInv r)
    (id : Str) (old : Obj) (hm : AL.get r.main id = some old) (hnp : ∀ i, op = .purge i → i ≠ id)
    (vn : Nat) (hvn : vn ≤ old.inv.head.number) (p : LPath) :
    KeepsRead (step r now op).2 id old vn p := by
  by_cases hst : op.isStaging = true
  · exact KeepsRead.same hm (by rw [Theorems.C08.C08_staging_preserves_main r now op hst]) vn p
  · by_cases hid : id = op.target
    · cases op with
      | commit id' m keep hasRoot =>
        simp only [Op.target] at hid
        subst hid
        exact commit_keeps_reads r id m keep hasRoot hok hext old hm vn hvn p
      | upgrade id' target m keep hasLayout =>
        simp only [Op.target] at hid
        subst hid
        simp only [step, upgradeObject]
        split
        · exact KeepsRead.same hm rfl vn p
        · rename_i r1 o hg
          obtain ⟨h1, hmain, hso, hex, _⟩ := getOrCreateStaged_ext hext hok hg
          obtain ⟨hok1, ho⟩ := getOrCreateStaged_ok hok hg
          have hm1 : AL.get r1.main id = some old := by rw [hmain]; exact hm
          split
          · exact KeepsRead.same hm (by rw [hmain]) vn p
          · split
            · exact KeepsRead.same hm (by rw [hmain]) vn p
            · have hs := specChange_step o target
              have ho' : ObjOk { o with inv := { o.inv with spec := target } } := InvOk.congr (a := o.inv) rfl rfl ho
              have hext' : ExtInv (saveStaged r1 id { o with inv := { o.inv with spec := target } }) :=
                ExtInv.saveStaged h1 (hs.stagedOk hso) (fun old' hm' => hs.extends (hex old' (by rw [← hmain]; exact hm')))
              exact commit_keeps_reads (saveStaged r1 id { o with inv := { o.inv with spec := target } }) id m keep hasLayout
                (saveStaged_ok hok1 ho') hext' old hm1 vn hvn p
      | purge id' =>
        simp only [Op.target] at hid
        exact absurd hid.symm (hnp id' rfl)
      | _ => simp [Op.isStaging] at hst
    · exact KeepsRead.same hm (Theorems.C08.C08_other_objects r now op id hid).1 vn p

end Rocfl
