import RocflModel.Lemmas.DiffLemmas
/-
  Exact contents of the `deletes` and `renames` maps of `Version::diff` after each loop — what the
  characterisations of `Deleted` and `Renamed` in Theorems/C18.lean rest on.
-/
namespace Rocfl

/-- the left-hand paths with digest `d` that are missing on the right, in the order of the left state -/
def missingOf (right l : List (LPath × Digest)) (d : Digest) : List LPath :=
  (l.filter (fun e => e.2 == d && (AL.get right e.1).isNone)).map (·.1)

/-- the right-hand paths with digest `d` that were not seen in the first loop, in order -/
def unseenOf (seen : List LPath) (r : List (LPath × Digest)) (d : Digest) : List LPath :=
  (r.filter (fun e => e.2 == d && !seen.contains e.1)).map (·.1)

theorem missingOf_cons_hit (right l : List (LPath × Digest)) (p : LPath) (d : Digest)
    (hr : AL.get right p = none) : missingOf right ((p, d) :: l) d = p :: missingOf right l d := by
  simp [missingOf, hr]

theorem missingOf_cons_other (right l : List (LPath × Digest)) (p : LPath) (pd d : Digest)
    (h : pd ≠ d ∨ (AL.get right p).isSome = true) : missingOf right ((p, pd) :: l) d = missingOf right l d := by
  unfold missingOf
  rw [List.filter_cons]
  have : ((pd == d) && (AL.get right p).isNone) = false := by
    rcases h with h | h
    · simp [h]
    · cases hg : AL.get right p with
      | none => rw [hg] at h; cases h
      | some x => simp
  simp only [this]
  rfl

/-- first loop: the list of pending deletes of a digest, exactly -/
theorem diffLeft_deletes_val (right : List (LPath × Digest)) (l : List (LPath × Digest)) (acc : DiffAcc) (d : Digest) :
    AL.get (l.foldl (diffLeftStep right) acc).deletes d =
      if missingOf right l d = [] then AL.get acc.deletes d
      else some ((AL.get acc.deletes d).getD [] ++ missingOf right l d) := by
  induction l generalizing acc with
  | nil => simp [missingOf]
  | cons e l ih =>
    rw [List.foldl_cons, ih]
    obtain ⟨p, pd⟩ := e
    unfold diffLeftStep
    cases hr : AL.get right p with
    | none =>
      simp only
      by_cases hd : d = pd
      · subst hd
        rw [AL.get_insert_self, missingOf_cons_hit _ _ _ _ hr]
        by_cases hm : missingOf right l d = []
        · simp [hm]
        · simp [hm]
      · rw [AL.get_insert_ne _ _ _ _ hd, missingOf_cons_other _ _ _ _ _ (Or.inl (Ne.symm hd))]
    | some rd =>
      simp only
      rw [missingOf_cons_other _ _ _ _ _ (Or.inr (by simp [hr]))]

theorem diffLeft_deletes_nodup (right : List (LPath × Digest)) (l : List (LPath × Digest)) (acc : DiffAcc)
    (h : AL.NoDupKeys acc.deletes) : AL.NoDupKeys (l.foldl (diffLeftStep right) acc).deletes := by
  induction l generalizing acc with
  | nil => exact h
  | cons e l ih =>
    rw [List.foldl_cons]
    apply ih
    unfold diffLeftStep
    split
    · exact AL.nodup_insert h _ _
    · exact h

/-! second loop -/

theorem unseenOf_cons_hit (seen : List LPath) (r : List (LPath × Digest)) (p : LPath) (d : Digest)
    (hs : seen.contains p = false) : unseenOf seen ((p, d) :: r) d = p :: unseenOf seen r d := by
  have : p ∉ seen := by simpa using hs
  simp [unseenOf, this]

theorem unseenOf_cons_other (seen : List LPath) (r : List (LPath × Digest)) (p : LPath) (pd d : Digest)
    (h : pd ≠ d ∨ seen.contains p = true) : unseenOf seen ((p, pd) :: r) d = unseenOf seen r d := by
  unfold unseenOf
  rw [List.filter_cons]
  have : ((pd == d) && !seen.contains p) = false := by
    rcases h with h | h
    · simp [h]
    · have : p ∈ seen := by simpa using h
      simp [this]
  simp only [this]
  rfl

theorem diffRightStep_seen_eq (acc : DiffAcc) (p : LPath) (pd : Digest) (hs : acc.seen.contains p = true) :
    diffRightStep acc (p, pd) = acc := by
  unfold diffRightStep; simp only [hs, if_true]

theorem diffRightStep_del (acc : DiffAcc) (p : LPath) (pd : Digest) (orig : List LPath)
    (hs : acc.seen.contains p = false) (hdel : AL.get acc.deletes pd = some orig) :
    diffRightStep acc (p, pd) =
      { acc with deletes := AL.erase acc.deletes pd, renames := AL.insert acc.renames pd (orig, [p]) } := by
  unfold diffRightStep; simp only [hs, hdel]; rfl

theorem diffRightStep_ren (acc : DiffAcc) (p : LPath) (pd : Digest) (o rn : List LPath)
    (hs : acc.seen.contains p = false) (hdel : AL.get acc.deletes pd = none)
    (hren : AL.get acc.renames pd = some (o, rn)) :
    diffRightStep acc (p, pd) = { acc with renames := AL.insert acc.renames pd (o, rn ++ [p]) } := by
  unfold diffRightStep; simp only [hs, hdel, hren]; rfl

theorem diffRightStep_add (acc : DiffAcc) (p : LPath) (pd : Digest)
    (hs : acc.seen.contains p = false) (hdel : AL.get acc.deletes pd = none)
    (hren : AL.get acc.renames pd = none) :
    diffRightStep acc (p, pd) = { acc with diffs := acc.diffs ++ [.added p] } := by
  unfold diffRightStep; simp only [hs, hdel, hren]; rfl

/-- a step of the second loop leaves the entries of every other digest alone -/
theorem diffRightStep_other (acc : DiffAcc) (p : LPath) (pd d : Digest) (hd : pd ≠ d) :
    AL.get (diffRightStep acc (p, pd)).deletes d = AL.get acc.deletes d ∧
    AL.get (diffRightStep acc (p, pd)).renames d = AL.get acc.renames d := by
  by_cases hs : acc.seen.contains p = true
  · rw [diffRightStep_seen_eq _ _ _ hs]; exact ⟨rfl, rfl⟩
  · have hs' : acc.seen.contains p = false := by simpa using hs
    cases hdel : AL.get acc.deletes pd with
    | some orig =>
      rw [diffRightStep_del _ _ _ _ hs' hdel]
      exact ⟨AL.get_erase_ne _ _ _ (Ne.symm hd), AL.get_insert_ne _ _ _ _ (Ne.symm hd)⟩
    | none =>
      cases hren : AL.get acc.renames pd with
      | some pr =>
        obtain ⟨o, rn⟩ := pr
        rw [diffRightStep_ren _ _ _ _ _ hs' hdel hren]
        exact ⟨rfl, AL.get_insert_ne _ _ _ _ (Ne.symm hd)⟩
      | none =>
        rw [diffRightStep_add _ _ _ hs' hdel hren]
        exact ⟨rfl, rfl⟩

theorem diffRightStep_nodup (acc : DiffAcc) (e : LPath × Digest)
    (h : AL.NoDupKeys acc.deletes ∧ AL.NoDupKeys acc.renames) :
    AL.NoDupKeys (diffRightStep acc e).deletes ∧ AL.NoDupKeys (diffRightStep acc e).renames := by
  unfold diffRightStep
  split
  · exact h
  · split
    · exact ⟨AL.nodup_erase h.1 _, AL.nodup_insert h.2 _ _⟩
    · split
      · exact ⟨h.1, AL.nodup_insert h.2 _ _⟩
      · exact h

theorem diffRight_nodup (r : List (LPath × Digest)) (acc : DiffAcc)
    (h : AL.NoDupKeys acc.deletes ∧ AL.NoDupKeys acc.renames) :
    AL.NoDupKeys (r.foldl diffRightStep acc).deletes ∧ AL.NoDupKeys (r.foldl diffRightStep acc).renames := by
  induction r generalizing acc with
  | nil => exact h
  | cons e r ih => rw [List.foldl_cons]; exact ih _ (diffRightStep_nodup acc e h)

/-- second loop: a digest keeps its pending deletes iff no unseen right-hand path has it -/
theorem diffRight_deletes_val (r : List (LPath × Digest)) (acc : DiffAcc) (d : Digest) :
    AL.get (r.foldl diffRightStep acc).deletes d =
      if unseenOf acc.seen r d = [] then AL.get acc.deletes d else none := by
  induction r generalizing acc with
  | nil => simp [unseenOf]
  | cons e r ih =>
    rw [List.foldl_cons, ih, diffRightStep_seen]
    obtain ⟨p, pd⟩ := e
    by_cases hs : acc.seen.contains p = true
    · rw [unseenOf_cons_other _ _ _ _ _ (Or.inr hs), diffRightStep_seen_eq _ _ _ hs]
    · have hs' : acc.seen.contains p = false := by simpa using hs
      by_cases hd : pd = d
      · subst hd
        rw [unseenOf_cons_hit _ _ _ _ hs']
        have hstep : AL.get (diffRightStep acc (p, pd)).deletes pd = none := by
          cases hdel : AL.get acc.deletes pd with
          | some orig => rw [diffRightStep_del _ _ _ _ hs' hdel]; exact AL.get_erase_self _ _
          | none =>
            cases hren : AL.get acc.renames pd with
            | some pr => obtain ⟨o, rn⟩ := pr; rw [diffRightStep_ren _ _ _ _ _ hs' hdel hren]; exact hdel
            | none => rw [diffRightStep_add _ _ _ hs' hdel hren]; exact hdel
        rw [hstep]
        simp
      · rw [unseenOf_cons_other _ _ _ _ _ (Or.inl hd), (diffRightStep_other acc p pd d hd).1]

/-- second loop: the rename entry of a digest, exactly -/
theorem diffRight_renames_val (r : List (LPath × Digest)) (acc : DiffAcc) (d : Digest) :
    AL.get (r.foldl diffRightStep acc).renames d =
      match unseenOf acc.seen r d with
      | [] => AL.get acc.renames d
      | q :: qs =>
        match AL.get acc.deletes d with
        | some orig => some (orig, q :: qs)
        | none =>
          match AL.get acc.renames d with
          | some (o, rn) => some (o, rn ++ q :: qs)
          | none => none := by
  induction r generalizing acc with
  | nil => simp [unseenOf]
  | cons e r ih =>
    rw [List.foldl_cons, ih, diffRightStep_seen]
    obtain ⟨p, pd⟩ := e
    by_cases hs : acc.seen.contains p = true
    · rw [unseenOf_cons_other _ _ _ _ _ (Or.inr hs)]
      rw [diffRightStep_seen_eq _ _ _ hs]
    · have hs' : acc.seen.contains p = false := by simpa using hs
      by_cases hd : pd = d
      · subst hd
        rw [unseenOf_cons_hit _ _ _ _ hs']
        cases hdel : AL.get acc.deletes pd with
        | some orig =>
          have h1 : AL.get (diffRightStep acc (p, pd)).deletes pd = none := by
            rw [diffRightStep_del _ _ _ _ hs' hdel]; exact AL.get_erase_self _ _
          have h2 : AL.get (diffRightStep acc (p, pd)).renames pd = some (orig, [p]) := by
            rw [diffRightStep_del _ _ _ _ hs' hdel]; exact AL.get_insert_self _ _ _
          rw [h1, h2]
          cases unseenOf acc.seen r pd with
          | nil => rfl
          | cons q qs => rfl
        | none =>
          cases hren : AL.get acc.renames pd with
          | some pr =>
            obtain ⟨o, rn⟩ := pr
            have h1 : AL.get (diffRightStep acc (p, pd)).deletes pd = none := by
              rw [diffRightStep_ren _ _ _ _ _ hs' hdel hren]; exact hdel
            have h2 : AL.get (diffRightStep acc (p, pd)).renames pd = some (o, rn ++ [p]) := by
              rw [diffRightStep_ren _ _ _ _ _ hs' hdel hren]; exact AL.get_insert_self _ _ _
            rw [h1, h2]
            cases unseenOf acc.seen r pd with
            | nil => rfl
            | cons q qs => simp
          | none =>
            rw [diffRightStep_add _ _ _ hs' hdel hren]
            simp only [hdel, hren]
            cases unseenOf acc.seen r pd with
            | nil => rfl
            | cons q qs => rfl
      · rw [unseenOf_cons_other _ _ _ _ _ (Or.inl hd)]
        rw [(diffRightStep_other acc p pd d hd).1, (diffRightStep_other acc p pd d hd).2]

/-! membership -/

theorem mem_missingOf (right l : List (LPath × Digest)) (d : Digest) (p : LPath) :
    p ∈ missingOf right l d ↔ (p, d) ∈ l ∧ AL.get right p = none := by
  simp only [missingOf, List.mem_map, List.mem_filter, Bool.and_eq_true, beq_iff_eq, Option.isNone_iff_eq_none]
  constructor
  · rintro ⟨⟨a, b⟩, ⟨hm, hd, hn⟩, hp⟩
    simp only at hd hn hp
    subst hd; subst hp
    exact ⟨hm, hn⟩
  · rintro ⟨hm, hn⟩
    exact ⟨(p, d), ⟨hm, rfl, hn⟩, rfl⟩

theorem mem_unseenOf (seen : List LPath) (r : List (LPath × Digest)) (d : Digest) (q : LPath) :
    q ∈ unseenOf seen r d ↔ (q, d) ∈ r ∧ q ∉ seen := by
  simp only [unseenOf, List.mem_map, List.mem_filter, Bool.and_eq_true, beq_iff_eq, Bool.not_eq_true',
    List.contains_eq_mem, decide_eq_false_iff_not]
  constructor
  · rintro ⟨⟨a, b⟩, ⟨hm, hd, hn⟩, hp⟩
    simp only at hd hn hp
    subst hd; subst hp
    exact ⟨hm, hn⟩
  · rintro ⟨hm, hn⟩
    exact ⟨(q, d), ⟨hm, rfl, hn⟩, rfl⟩

end Rocfl
