import RocflModel.Glob
/-
  Facts about the glob model that the listing theorems of C19 use: a pattern of literals matches
  exactly itself, `*` matches every id, an escaped id parses to its literals.
-/
namespace Rocfl

theorem matchS_lits (ls : Bool) (l s : Str) : matchS ls (l.map .lit) s = decide (s = l) := by
  induction l generalizing s with
  | nil => cases s <;> simp [matchS]
  | cons c l ih =>
    cases s with
    | nil => simp [matchS]
    | cons d s =>
      simp only [List.map_cons, matchS, ih]
      by_cases h : c = d
      · subst h; simp
      · have : ¬ d = c := fun h' => h h'.symm
        simp [h, this]

/-- `*` as an object-id filter (`literal_separator(false)`) matches every string -/
theorem matchS_star_all (s : Str) : matchS false [.star] s = true := by
  induction s with
  | nil => simp [matchS]
  | cons c s ih => simp [matchS, ih]

/-- `*` as a logical-path glob (`literal_separator(true)`) matches exactly the strings without `/` -/
theorem matchS_star_sep (s : Str) : matchS true [.star] s = decide ('/' ∉ s) := by
  induction s with
  | nil => simp [matchS]
  | cons c s ih =>
    simp only [matchS, ih]
    by_cases h : c = '/'
    · subst h; simp
    · have : ¬ '/' = c := fun h' => h h'.symm
      simp [h, this]

theorem expandAlts_plain (l : List STok) : expandAlts (l.map .s) = [l] := by
  induction l with
  | nil => rfl
  | cons t l ih => simp [expandAlts, ih]

theorem matchG_plain (ls : Bool) (l : List STok) (s : Str) : matchG ls (l.map .s) s = matchS ls l s := by
  simp [matchG, expandAlts_plain]

/-- every character preceded by a backslash -/
def escapeAll (b : Str) : Str := b.flatMap (fun c => ['\\', c])

theorem parse_escaped (b : Str) : ∀ (fuel : Nat) (done : List GTok), b.length < fuel →
    parseGlobAux fuel (escapeAll b) { done := done, cur := none } = some (done ++ b.map (fun c => .s (.lit c))) := by
  induction b with
  | nil =>
    intro fuel done hf
    cases fuel with
    | zero => cases hf
    | succ f => simp [escapeAll, parseGlobAux]
  | cons c b ih =>
    intro fuel done hf
    cases fuel with
    | zero => cases hf
    | succ f =>
      have hlen : b.length < f := by simpa using hf
      have h1 : escapeAll (c :: b) = '\\' :: c :: escapeAll b := by simp [escapeAll]
      rw [h1]
      unfold parseGlobAux
      have e1 : ¬ ('\\' = '?') := by decide
      have e2 : ¬ ('\\' = '*') := by decide
      have e3 : ¬ ('\\' = '[') := by decide
      have e4 : ¬ ('\\' = '{') := by decide
      have e5 : ¬ ('\\' = '}') := by decide
      have e6 : ¬ ('\\' = ',') := by decide
      simp only [e1, e2, e3, e4, e5, e6, if_false, if_true]
      have hp : ({ done := done, cur := none } : PState).push (.lit c) = { done := done ++ [.s (.lit c)], cur := none } := rfl
      rw [hp, ih f _ hlen]
      simp

theorem parseGlob_escaped (b : Str) : parseGlob (escapeAll b) = some (b.map (fun c => .s (.lit c))) := by
  have hl : b.length < (escapeAll b).length + 1 := by
    have : (escapeAll b).length = 2 * b.length := by
      induction b with
      | nil => rfl
      | cons c b ih => simp [escapeAll] at ih ⊢; omega
    omega
  have := parse_escaped b ((escapeAll b).length + 1) [] hl
  simpa [parseGlob] using this

end Rocfl
