import RocflModel.Machine
/-
  Helper lemmas about the staging / commit model (`Stage.lean`).
-/
namespace Rocfl

/-! ### small structural facts -/

@[simp] theorem Inv.setHeadVersion_head (inv : Inv) (v : Version) : (inv.setHeadVersion v).head = inv.head := rfl
@[simp] theorem Inv.setHeadVersion_manifest (inv : Inv) (v : Version) : (inv.setHeadVersion v).manifest = inv.manifest := rfl
@[simp] theorem Inv.updateMeta_head (inv : Inv) (m : Meta) : (inv.updateMeta m).head = inv.head := rfl
@[simp] theorem Inv.dedupHead_head (inv : Inv) (keep : Digest → List CPath) : (inv.dedupHead keep).1.head = inv.head := rfl
@[simp] theorem Inv.dedupHead_versions (inv : Inv) (keep : Digest → List CPath) :
    (inv.dedupHead keep).1.versions = inv.versions := rfl

theorem foldl_rmFile_inv (l : List CPath) (o : Obj) : (l.foldl rmFile o).inv = o.inv := by
  induction l generalizing o with
  | nil => rfl
  | cons a l ih => simp [List.foldl_cons, ih, rmFile]

@[simp] theorem rmOrphans_inv (o : Obj) : (rmOrphans o).inv = o.inv := rfl


theorem prepareCommit_head (o : Obj) (m : Meta) (keep : Digest → List CPath) :
    (prepareCommit o m keep).inv.head = o.inv.head := by
  simp [prepareCommit, foldl_rmFile_inv]

theorem prepareCommit_versions (o : Obj) (m : Meta) (keep : Digest → List CPath) :
    (prepareCommit o m keep).inv.versions =
      o.inv.versions.set (o.inv.head.number - 1) { (o.inv.dedupHead keep).1.headVersion with vmeta := m } := by
  simp [prepareCommit, foldl_rmFile_inv, Inv.updateMeta, Inv.setHeadVersion]

/-- what a commit can do: fail and leave the main repository untouched, or install the prepared
    staged object as the next version (the first one for a new object) and drop the staged version -/
theorem commit_cases (r : Repo) (id : Str) (m : Meta) (keep : Digest → List CPath) (hasRoot : Bool) :
    (∃ e, (commit r id m keep hasRoot).1 = .error e ∧ (commit r id m keep hasRoot).2.main = r.main ∧
      (commit r id m keep hasRoot).2.repoSpec = r.repoSpec ∧
      ∀ id', id' ≠ id → AL.get (commit r id m keep hasRoot).2.staged id' = AL.get r.staged id') ∨
    (∃ o, AL.get r.staged id = some o ∧ o.inv.keepAdmissible keep = true ∧
      ((AL.get r.main id = none ∧ (prepareCommit o m keep).inv.head.number = 1 ∧ hasRoot = true) ∨
       (∃ old, AL.get r.main id = some old ∧ old.inv.head.number + 1 = (prepareCommit o m keep).inv.head.number ∧
          continuesHistory (prepareCommit o m keep).inv old.inv = true)) ∧
      (commit r id m keep hasRoot).1 = .ok () ∧
      (commit r id m keep hasRoot).2 =
        { repoSpec := r.repoSpec,
          main := AL.insert r.main id (installed (AL.get r.main id) (prepareCommit o m keep)),
          staged := AL.erase (AL.insert r.staged id (prepareCommit o m keep)) id }) := by
  unfold commit commitInner
  cases hs : AL.get r.staged id with
  | none => left; first | exact ⟨_, rfl, rfl, rfl, fun _ _ => rfl⟩ | exact ⟨_, rfl, rfl, rfl, fun id' hne => AL.get_insert_ne _ _ _ _ hne⟩
  | some o =>
    simp only
    by_cases hk : o.inv.keepAdmissible keep = true
    · simp only [hk, Bool.not_true, Bool.false_eq_true, if_false]
      by_cases hn : (prepareCommit o m keep).inv.isNew = true
      · simp only [hn, if_true]
        by_cases hr : hasRoot = true
        · simp only [hr, Bool.not_true, Bool.false_eq_true, if_false]
          by_cases hm : AL.has r.main id = true
          · simp only [hm, if_true]; left; first | exact ⟨_, rfl, rfl, rfl, fun _ _ => rfl⟩ | exact ⟨_, rfl, rfl, rfl, fun id' hne => AL.get_insert_ne _ _ _ _ hne⟩
          · simp only [hm, if_false]
            right
            have hnone : AL.get r.main id = none := by
              simp only [AL.has, Bool.not_eq_true, Option.isSome_eq_false_iff, Option.isNone_iff_eq_none] at hm
              exact hm
            refine ⟨o, rfl, hk, Or.inl ⟨hnone, ?_, trivial⟩, rfl, ?_⟩
            · simpa [Inv.isNew] using hn
            · simp [hnone, saveStaged]
        · simp only [hr, Bool.not_false, if_true]
          have : hasRoot = false := by simpa using hr
          subst this
          left; first | exact ⟨_, rfl, rfl, rfl, fun _ _ => rfl⟩ | exact ⟨_, rfl, rfl, rfl, fun id' hne => AL.get_insert_ne _ _ _ _ hne⟩
      · simp only [hn, if_false]
        cases hm : AL.get r.main id with
        | none => left; first | exact ⟨_, rfl, rfl, rfl, fun _ _ => rfl⟩ | exact ⟨_, rfl, rfl, rfl, fun id' hne => AL.get_insert_ne _ _ _ _ hne⟩
        | some old =>
          simp only
          by_cases hh : old.inv.head.number + 1 = (prepareCommit o m keep).inv.head.number
          · simp only [hh, ne_eq, not_true_eq_false, if_false]
            by_cases hc : continuesHistory (prepareCommit o m keep).inv old.inv = true
            · simp only [hc, Bool.not_true, Bool.false_eq_true, if_false]
              right
              exact ⟨o, rfl, hk, Or.inr ⟨old, by first | rfl | trivial, hh, hc⟩, by first | rfl | simp [hc], by simp [saveStaged]⟩
            · have hc' : continuesHistory (prepareCommit o m keep).inv old.inv = false := by simpa using hc
              simp only [hc', Bool.not_false, if_true]
              left; first | exact ⟨_, rfl, rfl, rfl, fun _ _ => rfl⟩ | exact ⟨_, rfl, rfl, rfl, fun id' hne => AL.get_insert_ne _ _ _ _ hne⟩
          · simp only [hh, ne_eq, not_false_eq_true, if_true]
            left; first | exact ⟨_, rfl, rfl, rfl, fun _ _ => rfl⟩ | exact ⟨_, rfl, rfl, rfl, fun id' hne => AL.get_insert_ne _ _ _ _ hne⟩
    · have hk' : o.inv.keepAdmissible keep = false := by simpa using hk
      rw [hk']
      left; first | exact ⟨_, rfl, rfl, rfl, fun _ _ => rfl⟩ | exact ⟨_, rfl, rfl, rfl, fun id' hne => AL.get_insert_ne _ _ _ _ hne⟩



theorem getOrCreateStaged_frame (r : Repo) (id now : Str) (r1 : Repo) (o : Obj)
    (h : getOrCreateStaged r id now = .ok (r1, o)) :
    r1.main = r.main ∧ r1.repoSpec = r.repoSpec ∧ ∀ id', id' ≠ id → AL.get r1.staged id' = AL.get r.staged id' := by
  unfold getOrCreateStaged at h
  split at h
  · cases h; exact ⟨rfl, rfl, fun _ _ => rfl⟩
  · split at h
    · cases h
    · split at h
      · cases h
      · cases h; exact ⟨rfl, rfl, fun id' hne => AL.get_insert_ne _ _ _ _ hne⟩

/-- the frame of every on-demand staging operation: the main repository is untouched and so is the
    staged form of every other object -/
theorem withStaged_frame {α : Type} (r : Repo) (id now : Str) (dflt : α)
    (body : Obj → Except Err Unit × Option Obj × α) :
    (withStaged r id now dflt body).2.1.main = r.main ∧
    (withStaged r id now dflt body).2.1.repoSpec = r.repoSpec ∧
    ∀ id', id' ≠ id → AL.get (withStaged r id now dflt body).2.1.staged id' = AL.get r.staged id' := by
  unfold withStaged
  cases h : getOrCreateStaged r id now with
  | error e => exact ⟨rfl, rfl, fun _ _ => rfl⟩
  | ok p =>
    obtain ⟨r1, o⟩ := p
    have hf := getOrCreateStaged_frame r id now r1 o h
    simp only
    rcases hb : body o with ⟨res, o'?, a⟩
    cases o'? with
    | none => exact hf
    | some o' =>
      refine ⟨hf.1, hf.2.1, fun id' hne => ?_⟩
      simp only [saveStaged]
      rw [AL.get_insert_ne _ _ _ _ hne]
      exact hf.2.2 id' hne

theorem createObject_frame (r : Repo) (id : Str) (spec : Option SpecV) (alg : DAlg) (cdir : Str) (width : Nat)
    (now : Str) (r' : Repo) (h : createObject r id spec alg cdir width now = .ok r') :
    r'.main = r.main ∧ r'.repoSpec = r.repoSpec ∧
    (∀ id', id' ≠ trimWs id → AL.get r'.staged id' = AL.get r.staged id') ∧
    AL.get r.main (trimWs id) = none ∧ AL.get r.staged (trimWs id) = none := by
  unfold createObject at h
  simp only at h
  split at h; · cases h
  split at h; · cases h
  split at h; · cases h
  split at h; · cases h
  split at h; · cases h
  rename_i h1 h2
  cases h
  refine ⟨rfl, rfl, fun id' hne => AL.get_insert_ne _ _ _ _ hne, ?_, ?_⟩
  · simpa [AL.has] using h1
  · simpa [AL.has] using h2

/-- the object an operation is addressed to (`create` trims the id) -/
def Op.target : Op → Str
  | .create id .. => trimWs id
  | .cpx id .. => id | .cpi id .. => id | .mvi id .. => id | .rm id .. => id | .resetp id .. => id
  | .resetAll id => id | .commit id .. => id | .upgrade id .. => id | .purge id => id

/-- staging operations: everything except commit, upgrade and purge -/
def Op.isStaging : Op → Bool
  | .commit .. => false
  | .upgrade .. => false
  | .purge .. => false
  | _ => true


theorem commit_frame (r : Repo) (id : Str) (m : Meta) (keep : Digest → List CPath) (hasRoot : Bool) :
    (commit r id m keep hasRoot).2.repoSpec = r.repoSpec ∧
    ∀ id', id' ≠ id → AL.get (commit r id m keep hasRoot).2.main id' = AL.get r.main id' ∧
      AL.get (commit r id m keep hasRoot).2.staged id' = AL.get r.staged id' := by
  rcases commit_cases r id m keep hasRoot with ⟨e, _, hm, hsp, hst⟩ | ⟨o, _, _, _, _, heq⟩
  · exact ⟨hsp, fun id' hne => ⟨by rw [hm], hst id' hne⟩⟩
  · rw [heq]
    refine ⟨rfl, fun id' hne => ⟨AL.get_insert_ne _ _ _ _ hne, ?_⟩⟩
    simp only
    rw [AL.get_erase_ne _ _ _ hne, AL.get_insert_ne _ _ _ _ hne]

theorem upgradeObject_frame (r : Repo) (id : Str) (t : SpecV) (m : Meta) (keep : Digest → List CPath)
    (hasLayout : Bool) (now : Str) :
    (upgradeObject r id t m keep hasLayout now).2.repoSpec = r.repoSpec ∧
    ∀ id', id' ≠ id → AL.get (upgradeObject r id t m keep hasLayout now).2.main id' = AL.get r.main id' ∧
      AL.get (upgradeObject r id t m keep hasLayout now).2.staged id' = AL.get r.staged id' := by
  unfold upgradeObject
  cases h : getOrCreateStaged r id now with
  | error e => exact ⟨rfl, fun _ _ => ⟨rfl, rfl⟩⟩
  | ok p =>
    obtain ⟨r1, o⟩ := p
    have hf := getOrCreateStaged_frame r id now r1 o h
    simp only
    split
    · exact ⟨hf.2.1, fun id' hne => ⟨by rw [hf.1], hf.2.2 id' hne⟩⟩
    · split
      · exact ⟨hf.2.1, fun id' hne => ⟨by rw [hf.1], hf.2.2 id' hne⟩⟩
      · have hc := commit_frame (saveStaged r1 id { o with inv := { o.inv with spec := t } }) id m keep hasLayout
        unfold commit at hc
        refine ⟨by rw [hc.1]; exact hf.2.1, fun id' hne => ?_⟩
        have := hc.2 id' hne
        refine ⟨by rw [this.1]; simp [saveStaged, hf.1], ?_⟩
        rw [this.2]
        simp only [saveStaged]
        rw [AL.get_insert_ne _ _ _ _ hne]
        exact hf.2.2 id' hne

/-! ### destination paths of internal recursive copies -/

/-- **an internal recursive copy or move keeps every level below the copied directory**: for a source
    `base/rest` the destination is `dst/rest` — `rest` unchanged, whatever characters `base` is made of
    (a name repeated in `rest`, non-ASCII names) -/
theorem internal_destination (base rest dst : Str) (hb : base ≠ []) :
    logicalPathInDstDirInternal (base ++ '/' :: rest) base dst =
      parsePath ((if dst.getLast? == some '/' then dst else dst ++ ['/']) ++ rest) := by
  unfold logicalPathInDstDirInternal
  have h1 : base.isEmpty = false := by cases base with | nil => exact absurd rfl hb | cons _ _ => rfl
  have h2 : (base ++ '/' :: rest).drop (base.length + 1) = rest := by
    have : base ++ '/' :: rest = (base ++ ['/']) ++ rest := by simp
    rw [this, List.drop_append_of_le_length (by simp)]
    simp
  simp only [h1, Bool.false_eq_true, if_false, h2]

/-- copying the whole object (`base` empty) keeps the complete source path -/
theorem internal_destination_root (src dst : Str) :
    logicalPathInDstDirInternal src [] dst = parsePath ((if dst.getLast? == some '/' then dst else dst ++ ['/']) ++ src) := by
  simp [logicalPathInDstDirInternal]

end Rocfl
