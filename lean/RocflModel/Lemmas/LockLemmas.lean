import RocflModel.Lock
namespace Rocfl.Lock

/-- the invariant: lock files are exactly the ids held, no id is held by two processes, and a process
    that never held the lock has mutated nothing -/
structure Inv (s : Sys) : Prop where
  nodup : s.locks.Nodup
  held : ∀ i, (s.procs i).phase = .holding → (s.procs i).id ∈ s.locks
  unique : ∀ i j, i ≠ j → (s.procs i).phase = .holding → (s.procs j).phase = .holding → (s.procs i).id ≠ (s.procs j).id
  owned : ∀ l ∈ s.locks, ∃ i, (s.procs i).phase = .holding ∧ (s.procs i).id = l
  quiet : ∀ i, (s.procs i).phase = .refused ∨ (s.procs i).phase = .idle → (s.procs i).mutations = 0

theorem inv_init (ids : Nat → Nat) : Inv (init ids) where
  nodup := by simp [init]
  held := by intro i h; simp [init] at h
  unique := by intro i j _ h; simp [init] at h
  owned := by intro l hl; simp [init] at hl
  quiet := by intro i _; rfl

theorem inv_step (s : Sys) (i : Nat) (h : Inv s) : Inv (step s i) := by
  cases hp : (s.procs i).phase with
  | idle =>
    by_cases hl : (s.procs i).id ∈ s.locks
    · -- refused
      have e : stepProc s.locks (s.procs i) = (s.locks, { s.procs i with phase := .refused }) := by
        simp [stepProc, hp, hl]
      refine ⟨?_, ?_, ?_, ?_, ?_⟩
      · simp only [step, e]; exact h.nodup
      · intro k hk
        simp only [step, e] at hk ⊢
        by_cases hki : k = i
        · simp [hki] at hk
        · simp only [hki, if_false] at hk ⊢; exact h.held k hk
      · intro a b hab ha hb
        simp only [step, e] at ha hb ⊢
        by_cases hai : a = i
        · simp [hai] at ha
        · by_cases hbi : b = i
          · simp [hbi] at hb
          · simp only [hai, hbi, if_false] at ha hb ⊢; exact h.unique a b hab ha hb
      · intro l hl'
        simp only [step, e] at hl' ⊢
        obtain ⟨k, hk, hkl⟩ := h.owned l hl'
        have hki : k ≠ i := by intro e'; rw [e', hp] at hk; cases hk
        exact ⟨k, by simp [hki, hk], by simp [hki, hkl]⟩
      · intro k hk
        simp only [step, e] at hk ⊢
        by_cases hki : k = i
        · subst hki; simp only [if_true]; exact h.quiet k (Or.inr hp)
        · simp only [hki, if_false] at hk ⊢; exact h.quiet k hk
    · -- acquired
      have e : stepProc s.locks (s.procs i) = ((s.procs i).id :: s.locks, { s.procs i with phase := .holding }) := by
        simp [stepProc, hp, hl]
      refine ⟨?_, ?_, ?_, ?_, ?_⟩
      · simp only [step, e]; exact List.nodup_cons.mpr ⟨hl, h.nodup⟩
      · intro k hk
        simp only [step, e] at hk ⊢
        by_cases hki : k = i
        · simp [hki]
        · simp only [hki, if_false] at hk ⊢; exact List.mem_cons_of_mem _ (h.held k hk)
      · intro a b hab ha hb
        simp only [step, e] at ha hb ⊢
        by_cases hai : a = i
        · by_cases hbi : b = i
          · exact absurd (hai.trans hbi.symm) hab
          · simp only [hai, hbi, if_true, if_false] at hb ⊢
            intro e'
            exact hl (e' ▸ h.held b hb)
        · by_cases hbi : b = i
          · simp only [hai, hbi, if_true, if_false] at ha ⊢
            intro e'
            exact hl (e' ▸ h.held a ha)
          · simp only [hai, hbi, if_false] at ha hb ⊢; exact h.unique a b hab ha hb
      · intro l hl'
        simp only [step, e] at hl' ⊢
        rcases List.mem_cons.mp hl' with rfl | hl''
        · exact ⟨i, by simp, by simp⟩
        · obtain ⟨k, hk, hkl⟩ := h.owned l hl''
          have hki : k ≠ i := by intro e'; rw [e', hp] at hk; cases hk
          exact ⟨k, by simp [hki, hk], by simp [hki, hkl]⟩
      · intro k hk
        simp only [step, e] at hk ⊢
        by_cases hki : k = i
        · simp [hki] at hk
        · simp only [hki, if_false] at hk ⊢; exact h.quiet k hk
  | holding =>
    have e : stepProc s.locks (s.procs i) =
        (s.locks.erase (s.procs i).id, { s.procs i with phase := .done, mutations := (s.procs i).mutations + 1 }) := by
      simp [stepProc, hp]
    refine ⟨?_, ?_, ?_, ?_, ?_⟩
    · simp only [step, e]; exact h.nodup.erase _
    · intro k hk
      simp only [step, e] at hk ⊢
      by_cases hki : k = i
      · simp [hki] at hk
      · simp only [hki, if_false] at hk ⊢
        have hne : (s.procs k).id ≠ (s.procs i).id := h.unique k i hki hk hp
        exact (List.mem_erase_of_ne hne).mpr (h.held k hk)
    · intro a b hab ha hb
      simp only [step, e] at ha hb ⊢
      by_cases hai : a = i
      · simp [hai] at ha
      · by_cases hbi : b = i
        · simp [hbi] at hb
        · simp only [hai, hbi, if_false] at ha hb ⊢; exact h.unique a b hab ha hb
    · intro l hl'
      simp only [step, e] at hl' ⊢
      have hl'' : l ∈ s.locks := List.mem_of_mem_erase hl'
      have hne : l ≠ (s.procs i).id := by
        intro e'; subst e'
        exact (List.Nodup.mem_erase_iff h.nodup).mp hl' |>.1 rfl
      obtain ⟨k, hk, hkl⟩ := h.owned l hl''
      have hki : k ≠ i := by intro e'; subst e'; exact hne hkl.symm
      exact ⟨k, by simp [hki, hk], by simp [hki, hkl]⟩
    · intro k hk
      simp only [step, e] at hk ⊢
      by_cases hki : k = i
      · simp [hki] at hk
      · simp only [hki, if_false] at hk ⊢; exact h.quiet k hk
  | done =>
    have e : stepProc s.locks (s.procs i) = (s.locks, s.procs i) := by simp [stepProc, hp]
    have : step s i = s := by
      simp only [step, e]
      congr
      funext k
      by_cases hki : k = i <;> simp [hki]
    rw [this]; exact h
  | refused =>
    have e : stepProc s.locks (s.procs i) = (s.locks, s.procs i) := by simp [stepProc, hp]
    have : step s i = s := by
      simp only [step, e]
      congr
      funext k
      by_cases hki : k = i <;> simp [hki]
    rw [this]; exact h

theorem inv_run (s : Sys) (sched : List Nat) (h : Inv s) : Inv (run s sched) := by
  induction sched generalizing s with
  | nil => exact h
  | cons i sched ih => exact ih _ (inv_step s i h)


theorem stepProc_id (locks : List Nat) (p : Proc) : (stepProc locks p).2.id = p.id := by
  unfold stepProc; split <;> (try split) <;> rfl

theorem run_ids (s : Sys) (sched : List Nat) (k : Nat) : ((run s sched).procs k).id = (s.procs k).id := by
  induction sched generalizing s with
  | nil => rfl
  | cons i sched ih =>
    rw [run, List.foldl_cons]
    have := ih (step s i)
    rw [run] at this
    rw [this]
    simp only [step]
    by_cases hki : k = i
    · subst hki; simp [stepProc_id]
    · simp [hki]

end Rocfl.Lock
