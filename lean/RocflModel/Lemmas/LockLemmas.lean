import RocflModel.Lock
namespace Rocfl.Lock

/-- the invariant: lock files are exactly the ids held, no id is held by two processes, and a process
    that never held the lock has mutated nothing -/
structure Inv (s : Sys) : Prop where
  nodup : s.locks.Nodup
  held : ∀ i, (s.procs i).phase = .holding → (s.procs i).id ∈ s.locks
  unique : ∀ i j, i ≠ j → (s.procs i).phase = .holding → (s.procs j).phase = .holding → (s.procs i).id ≠ (s.procs j).id
  owned : ∀ l ∈ s.locks, ∃ i, (s.procs i).phase = .holding ∧ (s.procs i).id = l
  quiet : ∀ i, (s.procs i).phase = .refused ∨ (s.procs i).phase = .idle → (s.procs i).mutations = 0

theorem inv_init (ids : Nat → Nat) : Inv (init ids) where
  nodup := by simp [init]
  held := by intro i h; simp [init] at h
  unique := by intro i j _ h; simp [init] at h
  owned := by intro l hl; simp [init] at hl
  quiet := by intro i _; rfl

theorem inv_step (s : Sys) (i : Nat) (h : Inv s) : Inv (step s i) := by
  cases hp : (s.procs i).phase with
  | idle =>
    by_cases hl : (s.procs i).id ∈ s.locks
    · -- refused
      have e : stepProc s.locks (s.procs i) = (s.locks, { s.procs i with phase := .refused }) := by
        simp [stepProc, hp, hl]
      refine ⟨?_, ?_, ?_, ?_, ?_⟩
      · simp only [step, e]; exact h.nodup
      · intro k hk
        simp only [step, e] at hk ⊢
        by_cases hki : k = i
        · simp [hki] at hk
        · simp only [hki, if_false] at hk ⊢; exact h.held k hk
      · intro a b hab ha hb
        simp only [step, e] at ha hb ⊢
        by_cases hai : a = i
        · simp [hai] at ha
        · by_cases hbi : b = i
          · simp [hbi] at hb
          · simp only [hai, hbi, if_false] at ha hb ⊢; exact h.unique a b hab ha hb
      · intro l hl'
        simp only [step, e] at hl' ⊢
        obtain ⟨k, hk, hkl⟩ := h.owned l hl'
        have hki : k ≠ i := by intro e'; rw [e', hp] at hk; cases hk
        exact ⟨k, by simp [hki, hk], by simp [hki, hkl]⟩
      · intro k hk
        simp only [step, e] at hk ⊢
        by_cases hki : k = i
        · subst hki; simp only [if_true]; exact h.quiet k (Or.inr hp)
        · simp only [hki, if_false] at hk ⊢; exact h.quiet k hk
    · -- acquired
      have e : stepProc s.locks (s.procs i) = ((s.procs i).id :: s.locks, { s.procs i with phase := .holding }) := by
        simp [stepProc, hp, hl]
      refine ⟨?_, ?_, ?_, ?_, ?_⟩
      · simp only [step, e]; exact List.nodup_cons.mpr ⟨hl, h.nodup⟩
      · intro k hk
        simp only [step, e] at hk ⊢
        by_cases hki : k = i
        · simp [hki]
        · simp only [hki, if_false] at hk ⊢; exact List.mem_cons_of_mem _ (h.held k hk)
      · intro a b hab ha hb
        simp only [step, e] at ha hb ⊢
        by_cases hai : a = i
        · by_cases hbi : b = i
          · exact absurd (hai.trans hbi.symm) hab
          · simp only [hai, hbi, if_true, if_false] at hb ⊢
            intro e'
            exact hl (e' ▸ h.held b hb)
        · by_cases hbi : b = i
          · simp only [hai, hbi, if_true, if_false] at ha ⊢
            intro e'
            exact hl (e' ▸ h.held a ha)
          · simp only [hai, hbi, if_false] at ha hb ⊢; exact h.unique a b hab ha hb
      · intro l hl'
        simp only [step, e] at hl' ⊢
        rcases List.mem_cons.mp hl' with rfl | hl''
        · exact ⟨i, by simp, by simp⟩
        · obtain ⟨k, hk, hkl⟩ := h.owned l hl''
          have hki : k ≠ i := by intro e'; rw [e', hp] at hk; cases hk
          exact ⟨k, by simp [hki, hk], by simp [hki, hkl]⟩
      · intro k hk
        simp only [step, e] at hk ⊢
        by_cases hki : k = i
        · simp [hki] at hk
        · simp only [hki, if_false] at hk ⊢; exact h.quiet k hk
  | holding =>
    have e : stepProc s.locks (s.procs i) =
        (s.locks.erase (s.procs i).id, { s.procs i with phase := .done, mutations := (s.procs i).mutations + 1 }) := by
      simp [stepProc, hp]
    refine ⟨?_, ?_, ?_, ?_, ?_⟩
    · simp only [step, e]; exact h.nodup.erase _
    · intro k hk
      simp only [step, e] at hk ⊢
      by_cases hki : k = i
      · simp [hki] at hk
      · simp only [hki, if_false] at hk ⊢
        have hne : (s.procs k).id ≠ (s.procs i).id := h.unique k i hki hk hp
        exact (List.mem_erase_of_ne hne).mpr (h.held k hk)
    · intro a b hab ha hb
      simp only [step, e] at ha hb ⊢
      by_cases hai : a = i
      · simp [hai] at ha
      · by_cases hbi : b = i
        · simp [hbi] at hb
        · simp only [hai, hbi, if_false] at ha hb ⊢; exact h.unique a b hab ha hb
    · intro l hl'
      simp only [step, e] at hl' ⊢
      have hl'' : l ∈ s.locks := List.mem_of_mem_erase hl'
      have hne : l ≠ (s.procs i).id := by
        intro e'; subst e'
        exact (List.Nodup.mem_erase_iff h.nodup).mp hl' |>.1 rfl
      obtain ⟨k, hk, hkl⟩ := h.owned l hl''
      have hki : k ≠ i := by intro e'; subst e'; exact hne hkl.symm
      exact ⟨k, by simp [hki, hk], by simp [hki, hkl]⟩
    · intro k hk
      simp only [step, e] at hk ⊢
      by_cases hki : k = i
      · simp [hki] at hk
      · simp only [hki, if_false] at hk ⊢; exact h.quiet k hk
  | done =>
    have e : stepProc s.locks (s.procs i) = (s.locks, s.procs i) := by simp [stepProc, hp]
    have : step s i = s := by
      simp only [step, e]
      congr
      funext k
      by_cases hki : k = i <;> simp [hki]
    rw [this]; exact h
  | refused =>
    have e : stepProc s.locks (s.procs i) = (s.locks, s.procs i) := by simp [stepProc, hp]
    have : step s i = s := by
      simp only [step, e]
      congr
      funext k
      by_cases hki : k = i <;> simp [hki]
    rw [this]; exact h

theorem inv_run (s : Sys) (sched : List Nat) (h : Inv s) : Inv (run s sched) := by
  induction sched generalizing s with
  | nil => exact h
  | cons i sched ih => exact ih _ (inv_step s i h)


theorem stepProc_id (locks : List Nat) (p : Proc) : (stepProc locks p).2.id = p.id := by
  unfold stepProc; split <;> (try split) <;> rfl

theorem run_ids (s : Sys) (sched : List Nat) (k : Nat) : ((run s sched).procs k).id = (s.procs k).id := by
  induction sched generalizing s with
  | nil => rfl
  | cons i sched ih =>
    rw [run, List.foldl_cons]
    have := ih (step s i)
    rw [run] at this
    rw [this]
    simp only [step]
    by_cases hki : k = i
    · subst hki; simp [stepProc_id]
    · simp [hki]

/-! ### serialisability -/

structure InvS (ids : Nat → Nat) (fs : Nat → Nat → Nat) (store0 : Nat → Nat) (s : SysS) : Prop where
  ids_ok : ∀ i, (s.procs i).id = ids i
  store_ok : ∀ o, s.store o = serial ids fs store0 s.log o
  hold_ok : ∀ i, (s.procs i).phase = .holding → (s.procs i).snap = s.store (ids i) ∧ ids i ∈ s.locks
  excl : ∀ i j, i ≠ j → (s.procs i).phase = .holding → (s.procs j).phase = .holding → ids i ≠ ids j
  log_ok : ∀ i, i ∈ s.log ↔ (s.procs i).phase = .done

theorem serial_snoc_same (ids : Nat → Nat) (fs : Nat → Nat → Nat) (store0 : Nat → Nat) (log : List Nat) (i : Nat) :
    serial ids fs store0 (log ++ [i]) (ids i) = fs i (serial ids fs store0 log (ids i)) := by
  simp [serial, List.filter_append, List.foldl_append]

theorem serial_snoc_other (ids : Nat → Nat) (fs : Nat → Nat → Nat) (store0 : Nat → Nat) (log : List Nat) (i o : Nat)
    (h : o ≠ ids i) : serial ids fs store0 (log ++ [i]) o = serial ids fs store0 log o := by
  have : ¬ ids i = o := fun h' => h h'.symm
  simp [serial, List.filter_append, this]

theorem stepS_inv (ids : Nat → Nat) (fs : Nat → Nat → Nat) (store0 : Nat → Nat) (s : SysS) (i : Nat)
    (h : InvS ids fs store0 s) : InvS ids fs store0 (stepS fs s i) := by
  obtain ⟨hid, hst, hh, hx, hl⟩ := h
  unfold stepS
  simp only
  cases hp : (s.procs i).phase with
  | idle =>
    simp only
    by_cases hm : (s.procs i).id ∈ s.locks
    · simp only [hm, if_true]
      refine ⟨?_, hst, ?_, ?_, ?_⟩
      rotate_left 3
      · intro k
        by_cases hki : k = i
        · subst hki; rw [hl k, hp]; simp
        · simp only [hki, if_false]; exact hl k
      · intro k; by_cases hk : k = i
        · subst hk; simp [hid]
        · simp [hk, hid]
      · intro k hk
        by_cases hki : k = i
        · subst hki; simp at hk
        · simp only [hki, if_false] at hk ⊢; exact hh k hk
      · intro a b hab ha hb
        by_cases hai : a = i
        · subst hai; simp at ha
        · by_cases hbi : b = i
          · subst hbi; simp at hb
          · simp only [hai, hbi, if_false] at ha hb; exact hx a b hab ha hb
    · simp only [hm, if_false]
      have hmi : ids i ∉ s.locks := by rw [← hid i]; exact hm
      refine ⟨?_, hst, ?_, ?_, ?_⟩
      rotate_left 3
      · intro k
        by_cases hki : k = i
        · subst hki; rw [hl k, hp]; simp
        · simp only [hki, if_false]; exact hl k
      · intro k; by_cases hk : k = i
        · subst hk; simp [hid]
        · simp [hk, hid]
      · intro k hk
        by_cases hki : k = i
        · subst hki; simp [hid]
        · simp only [hki, if_false] at hk ⊢
          exact ⟨(hh k hk).1, List.mem_cons_of_mem _ (hh k hk).2⟩
      · intro a b hab ha hb
        by_cases hai : a = i
        · subst hai
          have hba : b ≠ a := fun h => hab h.symm
          simp only [hba, if_false] at hb
          intro he
          exact hmi (he ▸ (hh b hb).2)
        · by_cases hbi : b = i
          · subst hbi
            simp only [hai, if_false] at ha
            intro he
            exact hmi (he ▸ (hh a ha).2)
          · simp only [hai, hbi, if_false] at ha hb; exact hx a b hab ha hb
  | holding =>
    simp only
    obtain ⟨hsnap, hlock⟩ := hh i hp
    refine ⟨?_, ?_, ?_, ?_, ?_⟩
    rotate_left 4
    · intro k
      by_cases hki : k = i
      · subst hki; simp
      · simp only [hki, if_false, List.mem_append, List.mem_singleton, or_false]; exact hl k
    · intro k; by_cases hk : k = i
      · subst hk; simp [hid]
      · simp [hk, hid]
    · intro o
      by_cases ho : o = (s.procs i).id
      · subst ho
        simp only [if_true]
        rw [hid i, serial_snoc_same, ← hst, ← hsnap]
      · simp only [ho, if_false]
        rw [serial_snoc_other _ _ _ _ _ _ (by rw [← hid i]; exact ho)]
        exact hst o
    · intro k hk
      by_cases hki : k = i
      · subst hki; simp at hk
      · simp only [hki, if_false] at hk ⊢
        have hne : ids k ≠ ids i := hx k i hki hk hp
        have hne' : ¬ ids k = (s.procs i).id := by rw [hid i]; exact hne
        refine ⟨?_, ?_⟩
        · simp only [hne', if_false]; exact (hh k hk).1
        · rw [hid i]; exact (List.mem_erase_of_ne hne).mpr (hh k hk).2
    · intro a b hab ha hb
      by_cases hai : a = i
      · subst hai; simp at ha
      · by_cases hbi : b = i
        · subst hbi; simp at hb
        · simp only [hai, hbi, if_false] at ha hb; exact hx a b hab ha hb
  | done => simp only; exact ⟨hid, hst, hh, hx, hl⟩
  | refused => simp only; exact ⟨hid, hst, hh, hx, hl⟩

theorem initS_inv (ids : Nat → Nat) (fs : Nat → Nat → Nat) (store0 : Nat → Nat) : InvS ids fs store0 (initS ids store0) :=
  ⟨fun _ => rfl, fun _ => rfl, fun i h => by simp [initS] at h, fun i j _ h => by simp [initS] at h, fun i => by simp [initS]⟩

theorem runS_inv (ids : Nat → Nat) (fs : Nat → Nat → Nat) (store0 : Nat → Nat) (sched : List Nat) :
    InvS ids fs store0 (runS fs (initS ids store0) sched) := by
  unfold runS
  have : ∀ s, InvS ids fs store0 s → InvS ids fs store0 (sched.foldl (stepS fs) s) := by
    induction sched with
    | nil => intro s h; exact h
    | cons i sched ih => intro s h; exact ih _ (stepS_inv ids fs store0 s i h)
  exact this _ (initS_inv ids fs store0)

end Rocfl.Lock
