import RocflModel.Spec.LayoutSpec
namespace Rocfl.Layout
open Rocfl Rocfl.Spec.Layout

/-! ### tuples -/

theorem joinPath_snoc (segs : List Str) (final : Str) :
    segs.flatMap (fun t => t ++ ['/']) ++ final = joinPath (segs ++ [final]) := by
  induction segs with
  | nil => simp [joinPath, List.intercalate]
  | cons s segs ih =>
    cases segs with
    | nil => simp [joinPath, List.intercalate]
    | cons s2 rest =>
      simp only [List.flatMap_cons, List.append_assoc, List.cons_append] at ih ⊢
      rw [ih]
      simp [joinPath, List.intercalate]

theorem segments_succ (s : Str) (ts n : Nat) :
    segments s ts (n + 1) = s.take ts :: segments (s.drop ts) ts n := by
  simp only [segments, List.range_succ_eq_map, List.map_cons, List.map_map]
  simp only [Nat.zero_mul, List.drop_zero, List.cons.injEq, true_and]
  apply List.map_congr_left
  intro i _
  simp [Function.comp, List.drop_drop, Nat.succ_mul, Nat.add_comm]

theorem toTuples_eq (value : Str) (ts nt : Nat) (h : ts * nt ≤ value.length) :
    toTuples value ts nt = some ((segments value ts nt).flatMap (fun t => t ++ ['/'])) := by
  induction nt generalizing value with
  | zero => simp [toTuples, segments]
  | succ n ih =>
    have h1 : ts ≤ value.length := by
      have : ts * (n + 1) = ts * n + ts := Nat.mul_succ ts n
      omega
    have h2 : ts * n ≤ (value.drop ts).length := by
      have : ts * (n + 1) = ts * n + ts := Nat.mul_succ ts n
      simp; omega
    rw [toTuples, if_neg (by omega), ih _ h2, segments_succ]
    simp

/-! ### percent encoding -/

theorem hexLowerUpper : ∀ n, n < 16 → asciiLower (hexDigitUpper n) = hexDigitLower n := by decide

theorem safe_eq (b : Nat) : Spec.Layout.safe b = safeByte b := by
  simp only [Spec.Layout.safe, safeByte]
  have e1 : 'A'.toNat = 65 := by decide
  have e2 : 'Z'.toNat = 90 := by decide
  have e3 : 'a'.toNat = 97 := by decide
  have e4 : 'z'.toNat = 122 := by decide
  have e5 : '0'.toNat = 48 := by decide
  have e6 : '9'.toNat = 57 := by decide
  have e7 : '-'.toNat = 45 := by decide
  have e8 : '_'.toNat = 95 := by decide
  rw [e1, e2, e3, e4, e5, e6, e7, e8]
  by_cases h1 : 48 ≤ b <;> by_cases h2 : b ≤ 57 <;> by_cases h3 : 65 ≤ b <;> by_cases h4 : b ≤ 90
    <;> by_cases h5 : 97 ≤ b <;> by_cases h6 : b ≤ 122 <;> simp [*] <;> omega

theorem safe_ne_percent : ∀ b, b < 128 → safeByte b = true → Char.ofNat b ≠ '%' := by decide

theorem safeByte_lt (b : Nat) (h : safeByte b = true) : b < 128 := by
  simp [safeByte] at h; omega

theorem lpeLoop0_enc (bs : List Nat) (hb : ∀ b ∈ bs, b < 256) :
    lpeLoop 0 (bs.flatMap encByteUpper) = bs.flatMap encByte := by
  induction bs with
  | nil => simp [lpeLoop]
  | cons b bs ih =>
    have ih' := ih (fun x hx => hb x (List.mem_cons_of_mem _ hx))
    have hb' : b < 256 := hb b (List.mem_cons_self ..)
    simp only [List.flatMap_cons]
    by_cases hs : safeByte b = true
    · have hne := safe_ne_percent b (safeByte_lt b hs) hs
      simp [encByteUpper, encByte, safe_eq, hs, lpeLoop, hne, ih']
    · have h1 : b / 16 < 16 := by omega
      have h2 : b % 16 < 16 := by omega
      simp [encByteUpper, encByte, safe_eq, hs, lpeLoop, hexLowerUpper _ h1, hexLowerUpper _ h2, ih']

theorem lowerPercentEscape_eq_loop (s : Str) : lowerPercentEscape s = lpeLoop 0 s := by
  induction s with
  | nil => simp [lowerPercentEscape, lpeLoop]
  | cons c s ih =>
    by_cases hc : c = '%'
    · simp [lowerPercentEscape, lpeLoop, hc]
    · simp [lowerPercentEscape, lpeLoop, hc, ih]

theorem utf8Bytes_lt (id : Str) : ∀ b ∈ utf8Bytes id, b < 256 := by
  intro b hb
  simp only [utf8Bytes, List.mem_flatMap, List.mem_map] at hb
  obtain ⟨c, _, u, _, rfl⟩ := hb
  exact UInt8.toNat_lt u

theorem lowerPercentEscape_encode (id : Str) :
    lowerPercentEscape (percentEncodeUpper id) = encodeId id := by
  rw [lowerPercentEscape_eq_loop, percentEncodeUpper, encodeId, lpeLoop0_enc _ (utf8Bytes_lt id)]

/-! ### prefix omission (0006 / 0007) -/

/-- recursive characterisation of the right-most match index -/
def lastIdx (needle : Str) : Str → Option Nat
  | [] => if needle.isEmpty then some 0 else none
  | c :: cs =>
    match lastIdx needle cs with
    | some j => some (j + 1)
    | none => if needle.isPrefixOf (c :: cs) then some 0 else none

theorem rfindAux_eq (needle hay : Str) (i : Nat) (acc : Option Nat) (hn : needle ≠ []) :
    rfindAux needle hay i acc =
      match lastIdx needle hay with
      | some j => some (i + j)
      | none => acc := by
  induction hay generalizing i acc with
  | nil => cases needle <;> simp_all [rfindAux, lastIdx]
  | cons c cs ih =>
    rw [rfindAux, ih, lastIdx]
    cases h : lastIdx needle cs with
    | some j => simp; omega
    | none =>
      by_cases hp : needle.isPrefixOf (c :: cs) = true <;> simp [hp]

theorem rfind_eq (needle hay : Str) (hn : needle ≠ []) : rfind hay needle = lastIdx needle hay := by
  rw [rfind, rfindAux_eq _ _ _ _ hn]; cases lastIdx needle hay <;> simp

theorem dropBytes_take (l : Str) (k : Nat) : dropBytes (utf8Len (l.take k)) l = some (l.drop k) := by
  induction l generalizing k with
  | nil => simp [dropBytes]
  | cons c cs ih =>
    cases k with
    | zero => simp [dropBytes]
    | succ k =>
      have hp := utf8Size_pos c
      simp only [List.take_succ_cons, utf8Len_cons, List.drop_succ_cons]
      obtain ⟨m, hm⟩ : ∃ m, c.utf8Size + utf8Len (cs.take k) = m + 1 := ⟨c.utf8Size + utf8Len (cs.take k) - 1, by omega⟩
      rw [hm, dropBytes, if_pos (by omega)]
      have : m + 1 - c.utf8Size = utf8Len (cs.take k) := by omega
      rw [this, ih]

theorem utf8Len_take_eq_iff (l : Str) (k : Nat) : utf8Len l = utf8Len (l.take k) ↔ l.drop k = [] := by
  have h : utf8Len l = utf8Len (l.take k) + utf8Len (l.drop k) := by
    rw [← utf8Len_append, List.take_append_drop]
  constructor
  · intro e
    cases hd : l.drop k with
    | nil => rfl
    | cons c cs =>
      rw [hd, utf8Len_cons] at h
      have := utf8Size_pos c
      omega
  · intro e; rw [e] at h; simpa using h

theorem utf8Len_map (f : Char → Char) (l : Str) (h : ∀ c ∈ l, (f c).utf8Size = c.utf8Size) :
    utf8Len (l.map f) = utf8Len l := by
  induction l with
  | nil => rfl
  | cons c cs ih =>
    simp only [List.map_cons, utf8Len_cons]
    rw [h c (List.mem_cons_self ..), ih (fun x hx => h x (List.mem_cons_of_mem _ hx))]


theorem lastIdx_spec (needle hay : Str) (j : Nat) (hn : needle ≠ []) (h : lastIdx needle hay = some j) :
    needle.isPrefixOf (hay.drop j) = true := by
  induction hay generalizing j with
  | nil => cases needle <;> simp_all [lastIdx]
  | cons c cs ih =>
    rw [lastIdx] at h
    cases h2 : lastIdx needle cs with
    | some k =>
      rw [h2] at h; simp at h; subst h
      simpa using ih k h2
    | none =>
      rw [h2] at h
      by_cases hp : needle.isPrefixOf (c :: cs) = true
      · simp [hp] at h; subst h; simpa using hp
      · simp [hp] at h

theorem afterLast_eq (cm : CaseMap) (f' : Char → Char) (delim hay : Str) (hd : delim ≠ [])
    (hmatch : ∀ l, l <:+ hay → l ≠ [] →
      (delim.map f').isPrefixOf (l.map f') =
        (decide (delim.length ≤ l.length) && ciEq cm (l.take delim.length) delim)) :
    afterLast cm delim hay =
      (lastIdx (delim.map f') (hay.map f')).map (fun j => hay.drop (j + delim.length)) := by
  induction hay with
  | nil => cases delim <;> simp_all [afterLast, lastIdx]
  | cons c cs ih =>
    have ih' := ih (fun l hl hne => hmatch l (List.IsSuffix.trans hl (List.suffix_cons c cs)) hne)
    rw [afterLast, ih', List.map_cons, lastIdx]
    cases h2 : lastIdx (delim.map f') (cs.map f') with
    | some k => simp [Nat.add_right_comm]
    | none =>
      have hm := hmatch (c :: cs) (List.suffix_refl _) (by simp)
      rw [List.map_cons] at hm
      simp only [Option.map_none]
      rw [hm]
      split <;> simp_all


theorem omit_core (cm : CaseMap) (f' : Char → Char) (delim id : Str) (hd : delim ≠ [])
    (hsize : ∀ c ∈ id, (f' c).utf8Size = c.utf8Size)
    (hmatch : ∀ l, l <:+ id → l ≠ [] →
      (delim.map f').isPrefixOf (l.map f') =
        (decide (delim.length ≤ l.length) && ciEq cm (l.take delim.length) delim)) :
    omitBody (id.map f') (delim.map f') id = stripPrefix cm delim id := by
  have hn : delim.map f' ≠ [] := by simpa using hd
  rw [omitBody, stripPrefix, rfind_eq _ _ hn, afterLast_eq cm f' delim id hd hmatch]
  cases h : lastIdx (delim.map f') (id.map f') with
  | none => simp
  | some j =>
    have hp := lastIdx_spec _ _ _ hn h
    rw [← List.map_drop, List.isPrefixOf_iff_prefix, List.prefix_iff_eq_take] at hp
    simp only [List.length_map] at hp
    -- the matched window
    have hwin : utf8Len (delim.map f') = utf8Len ((id.drop j).take delim.length) := by
      rw [hp, ← List.map_take, utf8Len_map]
      intro c hc
      exact hsize c (List.mem_of_mem_drop (List.mem_of_mem_take hc))
    have hlen : delim.length ≤ (id.drop j).length := by
      have := congrArg List.length hp
      simp only [List.length_map, List.length_take] at this
      omega
    have hidx : utf8Len ((id.map f').take j) = utf8Len (id.take j) := by
      rw [← List.map_take, utf8Len_map]
      intro c hc; exact hsize c (List.mem_of_mem_take hc)
    have hsum : utf8Len (id.take j) + utf8Len ((id.drop j).take delim.length)
        = utf8Len (id.take (j + delim.length)) := by
      rw [← utf8Len_append, List.take_add]
    simp only [Option.map_some]
    rw [hidx, hwin, hsum, dropBytes_take]
    by_cases he : id.drop (j + delim.length) = []
    · have := (utf8Len_take_eq_iff id (j + delim.length)).mpr he
      simp [this, he]
    · have hne : ¬ utf8Len id = utf8Len (id.take (j + delim.length)) :=
        fun e => he ((utf8Len_take_eq_iff id _).mp e)
      simp only [beq_iff_eq, hne, if_false]


/-- Hypotheses under which 0006 is proved: on the characters of the id and of the delimiter the Unicode
    case mappings are *simple* (one char to one char) and lower-casing keeps the UTF-8 length; and a
    caseless delimiter character is not the lower-case form of a different character of the id. -/
structure SimpleCase (cm : CaseMap) (lc uc : Char → Char) (delim id : Str) : Prop where
  lowerId : ∀ c ∈ id, cm.lower c = [lc c]
  lowerD  : ∀ c ∈ delim, cm.lower c = [lc c]
  upperD  : ∀ c ∈ delim, cm.upper c = [uc c]
  sizeId  : ∀ c ∈ id, (lc c).utf8Size = c.utf8Size
  caseless : (∀ d ∈ delim, lc d = uc d) → ∀ a ∈ id, ∀ d ∈ delim, lc a = lc d → a = d

theorem flatMap_singleton_map {α β} (f : α → List β) (g : α → β) (l : List α) (h : ∀ c ∈ l, f c = [g c]) :
    l.flatMap f = l.map g := by
  induction l with
  | nil => rfl
  | cons c cs ih =>
    simp only [List.flatMap_cons, List.map_cons]
    rw [h c (List.mem_cons_self ..), ih (fun x hx => h x (List.mem_cons_of_mem _ hx))]
    rfl

theorem map_eq_map_inj {α β} (f : α → β) (l1 l2 : List α)
    (h : ∀ a ∈ l1, ∀ d ∈ l2, f a = f d → a = d) (e : l1.map f = l2.map f) : l1 = l2 := by
  induction l1 generalizing l2 with
  | nil =>
    cases l2 with
    | nil => rfl
    | cons d l2 => simp at e
  | cons a l1 ih =>
    cases l2 with
    | nil => simp at e
    | cons d l2 =>
      simp only [List.map_cons, List.cons.injEq] at e
      have h1 : a = d := h a (List.mem_cons_self ..) d (List.mem_cons_self ..) e.1
      have h2 := ih l2 (fun x hx y hy => h x (List.mem_cons_of_mem _ hx) y (List.mem_cons_of_mem _ hy)) e.2
      rw [h1, h2]

theorem isPrefixOf_eq_take (p l : Str) : p.isPrefixOf l = decide (p = l.take p.length) := by
  cases hp : p.isPrefixOf l with
  | true =>
    rw [List.isPrefixOf_iff_prefix, List.prefix_iff_eq_take] at hp
    exact (decide_eq_true hp).symm
  | false =>
    have : ¬ p = l.take p.length := by
      intro e
      rw [← List.prefix_iff_eq_take, ← List.isPrefixOf_iff_prefix, hp] at e
      exact Bool.false_ne_true e
    exact (decide_eq_false this).symm

theorem omitPrefix_eq_spec (cm : CaseMap) (lc uc : Char → Char) (delim id : Str) (hd : delim ≠ [])
    (H : SimpleCase cm lc uc delim id) : omitPrefix cm delim id = stripPrefix cm delim id := by
  have hlD : cm.lowerS delim = delim.map lc := flatMap_singleton_map _ _ _ H.lowerD
  have huD : cm.upperS delim = delim.map uc := flatMap_singleton_map _ _ _ H.upperD
  have hlI : cm.lowerS id = id.map lc := flatMap_singleton_map _ _ _ H.lowerId
  have hci : ∀ l, l <:+ id → ciEq cm (l.take delim.length) delim
      = decide ((l.take delim.length).map lc = delim.map lc) := by
    intro l hl
    have : cm.lowerS (l.take delim.length) = (l.take delim.length).map lc :=
      flatMap_singleton_map _ _ _ (fun c hc => H.lowerId c (hl.subset (List.mem_of_mem_take hc)))
    rw [ciEq, this, hlD, Bool.beq_eq_decide_eq]
  by_cases hcm : (cm.lowerS delim != cm.upperS delim) = true
  · -- case matters: the id is lower-cased before searching
    have := omit_core cm lc delim id hd H.sizeId (by
      intro l hl _
      rw [hci l hl, isPrefixOf_eq_take, List.length_map, ← List.map_take]
      by_cases hlen : delim.length ≤ l.length
      · simp only [hlen, decide_true, Bool.true_and]
        exact decide_eq_decide.mpr ⟨fun e => e.symm, fun e => e.symm⟩
      · have h1 : delim.map lc ≠ (l.take delim.length).map lc := by
          intro e; have := congrArg List.length e
          simp only [List.length_map, List.length_take] at this; omega
        simp only [hlen, decide_false, Bool.false_and, h1])
    rw [← this, omitPrefix, if_pos hcm, hlD, hlI]
  · -- caseless delimiter: exact search on the original id
    have heq : delim.map lc = delim.map uc := by
      rw [← hlD, ← huD]; simpa using hcm
    have hall : ∀ d ∈ delim, lc d = uc d := by
      intro d hd'
      exact List.map_inj_left.mp heq d hd'
    have hinj := H.caseless hall
    have := omit_core cm (fun c => c) delim id hd (fun _ _ => rfl) (by
      intro l hl _
      rw [hci l hl, isPrefixOf_eq_take]
      simp only [List.map_id']
      by_cases hlen : delim.length ≤ l.length
      · simp only [hlen, decide_true, Bool.true_and]
        apply decide_eq_decide.mpr
        constructor
        · intro e; rw [← e]
        · intro e
          exact (map_eq_map_inj lc _ _ (fun a ha d hd' =>
            hinj a (hl.subset (List.mem_of_mem_take ha)) d hd') e).symm
      · have h1 : delim ≠ l.take delim.length := by
          intro e; have := congrArg List.length e
          simp only [List.length_take] at this; omega
        simp only [hlen, decide_false, Bool.false_and, h1])
    simp only [List.map_id'] at this
    rw [← this, omitPrefix, if_neg hcm]

/-! ### ASCII instance of `SimpleCase` (used for 0007) -/

/-- what the model assumes of Rust's `to_lowercase`/`to_uppercase` on ASCII -/
def AsciiLaw (cm : CaseMap) : Prop :=
  ∀ c : Char, c.toNat < 128 → cm.lower c = [asciiLower c] ∧ cm.upper c = [asciiUpper c]

def isLetter (c : Char) : Bool := ('A' ≤ c && c ≤ 'Z') || ('a' ≤ c && c ≤ 'z')

theorem ascii_facts : ∀ n, n < 128 →
    (asciiLower (Char.ofNat n)).utf8Size = (Char.ofNat n).utf8Size ∧
    (asciiLower (Char.ofNat n) = asciiUpper (Char.ofNat n) → isLetter (Char.ofNat n) = false) ∧
    (isLetter (Char.ofNat n) = false → asciiLower (Char.ofNat n) = Char.ofNat n) ∧
    (isLetter (Char.ofNat n) = true → isLetter (asciiLower (Char.ofNat n)) = true) := by decide

theorem ascii_facts' (c : Char) (h : c.toNat < 128) :
    (asciiLower c).utf8Size = c.utf8Size ∧
    (asciiLower c = asciiUpper c → isLetter c = false) ∧
    (isLetter c = false → asciiLower c = c) ∧
    (isLetter c = true → isLetter (asciiLower c) = true) := by
  have := ascii_facts c.toNat h
  rwa [Char.ofNat_toNat] at this

theorem simpleCase_ascii (cm : CaseMap) (hcm : AsciiLaw cm) (delim id : Str)
    (hd : ∀ c ∈ delim, c.toNat < 128) (hi : ∀ c ∈ id, c.toNat < 128) :
    SimpleCase cm asciiLower asciiUpper delim id where
  lowerId c hc := (hcm c (hi c hc)).1
  lowerD c hc := (hcm c (hd c hc)).1
  upperD c hc := (hcm c (hd c hc)).2
  sizeId c hc := (ascii_facts' c (hi c hc)).1
  caseless hall a ha d hd' e := by
    have fd := ascii_facts' d (hd d hd')
    have fa := ascii_facts' a (hi a ha)
    have hdl : isLetter d = false := fd.2.1 (hall d hd')
    have hdd : asciiLower d = d := fd.2.2.1 hdl
    cases hal : isLetter a with
    | false => rw [fa.2.2.1 hal, hdd] at e; exact e
    | true =>
      have := fa.2.2.2 hal
      rw [e, hdd, hdl] at this
      exact absurd this (by simp)

end Rocfl.Layout
