import RocflModel.Json
namespace Rocfl.Json
open Rocfl

theorem unescape_cons_plain (c : Char) (t : Str) (h1 : c ≠ '\\') (h2 : c ≠ '"') (h3 : ¬ c.toNat < 32) :
    unescape (c :: t) = (unescape t).map (c :: ·) := by
  conv => lhs; unfold unescape
  simp [h1, h2, h3]

theorem ctrl_cases : ∀ n, n < 32 → ∀ t : Str,
    unescape (escapeChar (Char.ofNat n) ++ t) = (unescape t).map (Char.ofNat n :: ·) := by
  intro n hn t
  have : n = 0 ∨ n = 1 ∨ n = 2 ∨ n = 3 ∨ n = 4 ∨ n = 5 ∨ n = 6 ∨ n = 7 ∨ n = 8 ∨ n = 9 ∨ n = 10 ∨ n = 11 ∨
      n = 12 ∨ n = 13 ∨ n = 14 ∨ n = 15 ∨ n = 16 ∨ n = 17 ∨ n = 18 ∨ n = 19 ∨ n = 20 ∨ n = 21 ∨ n = 22 ∨
      n = 23 ∨ n = 24 ∨ n = 25 ∨ n = 26 ∨ n = 27 ∨ n = 28 ∨ n = 29 ∨ n = 30 ∨ n = 31 := by omega
  rcases this with h | h | h | h | h | h | h | h | h | h | h | h | h | h | h | h | h | h | h | h | h | h | h | h | h | h | h | h | h | h | h | h <;>
    (subst h; simp [escapeChar, hexDigitLower]; conv => lhs; unfold unescape; simp [hex4, hexVal, simpleEscape])


theorem unescape_escapeChar (c : Char) (t : Str) :
    unescape (escapeChar c ++ t) = (unescape t).map (c :: ·) := by
  by_cases hlt : c.toNat < 32
  · have := ctrl_cases c.toNat hlt t
    rwa [Char.ofNat_toNat] at this
  · by_cases hq : c = '"'
    · subst hq
      simp only [escapeChar, if_true, List.cons_append, List.nil_append]
      conv => lhs; unfold unescape
      simp [simpleEscape]
    · by_cases hb : c = '\\'
      · subst hb
        simp only [escapeChar]
        conv => lhs; unfold unescape
        simp [simpleEscape]
      · have e : escapeChar c = [c] := by
          have h8 : c.toNat ≠ 8 := by omega
          have h9 : c.toNat ≠ 9 := by omega
          have h10 : c.toNat ≠ 10 := by omega
          have h12 : c.toNat ≠ 12 := by omega
          have h13 : c.toNat ≠ 13 := by omega
          simp [escapeChar, hq, hb, h8, h9, h10, h12, h13, hlt]
        rw [e]
        exact unescape_cons_plain c t hb hq hlt

/-- **what rocfl writes, it and every conforming JSON reader read back unchanged** — for every string -/
theorem unescape_escape (s : Str) : unescape (escape s) = some s := by
  induction s with
  | nil => simp [escape, unescape]
  | cons c s ih =>
    have : escape (c :: s) = escapeChar c ++ escape s := by simp [escape]
    rw [this, unescape_escapeChar, ih]
    rfl

theorem unquote_quote (s : Str) : unquote (quote s) = some s := by
  simp only [quote, unquote]
  have h1 : (escape s ++ ['"']).getLast? = some '"' := by simp
  have h2 : (escape s ++ ['"']).dropLast = escape s := by simp
  rw [h1, h2]
  exact unescape_escape s

/-! ### every legal spelling reads back as the same string -/

theorem hexVal_lower : ∀ k, k < 16 → hexVal (hexDigitLower k) = some k := by decide
theorem hexVal_upper : ∀ k, k < 16 → hexVal (hexDigitUpper k) = some k := by decide

theorem hex4_hex4Str (upper : Bool) (n : Nat) (h : n < 65536) :
    ∃ a b c d, hex4Str upper n = [a, b, c, d] ∧ hex4 a b c d = some n := by
  refine ⟨_, _, _, _, rfl, ?_⟩
  have e : ∀ k, k < 16 → hexVal (if upper then hexDigitUpper k else hexDigitLower k) = some k := by
    intro k hk; cases upper <;> simp [hexVal_lower k hk, hexVal_upper k hk]
  simp only [hex4, e _ (Nat.mod_lt _ (by decide : 0 < 16)), Option.bind_eq_bind, Option.bind_some, Option.pure_def]
  congr 1
  omega

theorem unescape_u (a b c d : Char) (t : Str) (code : Nat) (h : hex4 a b c d = some code)
    (h1 : ¬ (0xD800 ≤ code ∧ code ≤ 0xDBFF)) (h2 : ¬ (0xDC00 ≤ code ∧ code ≤ 0xDFFF)) :
    unescape ('\\' :: 'u' :: a :: b :: c :: d :: t) = (unescape t).map (Char.ofNat code :: ·) := by
  conv => lhs; unfold unescape
  simp [h, h1, h2]

theorem unescape_uu (a b c d a2 b2 c2 d2 : Char) (t : Str) (hi lo : Nat)
    (h : hex4 a b c d = some hi) (h' : hex4 a2 b2 c2 d2 = some lo)
    (hhi : 0xD800 ≤ hi ∧ hi ≤ 0xDBFF) (hlo : 0xDC00 ≤ lo ∧ lo ≤ 0xDFFF) :
    unescape ('\\' :: 'u' :: a :: b :: c :: d :: '\\' :: 'u' :: a2 :: b2 :: c2 :: d2 :: t) =
      (unescape t).map (Char.ofNat (0x10000 + (hi - 0xD800) * 0x400 + (lo - 0xDC00)) :: ·) := by
  conv => lhs; unfold unescape
  simp [h, h', hhi, hlo]

theorem char_range (c : Char) : c.toNat < 0xD800 ∨ (0xDFFF < c.toNat ∧ c.toNat < 0x110000) := by
  have h : c.val.toNat.isValidChar := c.valid
  unfold Nat.isValidChar at h
  exact h

theorem unescape_escapeCharU (upper : Bool) (c : Char) (t : Str) :
    unescape (escapeCharU upper c ++ t) = (unescape t).map (c :: ·) := by
  have hr := char_range c
  unfold escapeCharU
  by_cases hlt : c.toNat < 0x10000
  · simp only [hlt, ↓reduceIte]
    obtain ⟨a, b, c2, d, e1, e2⟩ := hex4_hex4Str upper c.toNat (by omega)
    rw [e1]
    have := unescape_u a b c2 d t c.toNat e2 (by omega) (by omega)
    simpa [Char.ofNat_toNat] using this
  · simp only [hlt, ↓reduceIte]
    obtain ⟨a, b, c2, d, e1, e2⟩ := hex4_hex4Str upper (0xD800 + (c.toNat - 0x10000) / 0x400) (by omega)
    obtain ⟨a', b', c', d', e1', e2'⟩ := hex4_hex4Str upper (0xDC00 + (c.toNat - 0x10000) % 0x400) (by omega)
    rw [e1, e1']
    have := unescape_uu a b c2 d a' b' c' d' t _ _ e2 e2' (by omega) (by omega)
    have hc : 0x10000 + (0xD800 + (c.toNat - 0x10000) / 0x400 - 0xD800) * 0x400 +
        (0xDC00 + (c.toNat - 0x10000) % 0x400 - 0xDC00) = c.toNat := by omega
    rw [hc, Char.ofNat_toNat] at this
    simpa using this

theorem unescape_spellChar (sp : Spell) (c : Char) (t : Str) :
    unescape (spellChar sp c ++ t) = (unescape t).map (c :: ·) := by
  cases sp with
  | min => exact unescape_escapeChar c t
  | uLower => exact unescape_escapeCharU false c t
  | uUpper => exact unescape_escapeCharU true c t
  | solidus =>
    simp only [spellChar]
    by_cases h : c = '/'
    · subst h
      simp only [↓reduceIte, List.cons_append, List.nil_append]
      conv => lhs; unfold unescape
      simp [simpleEscape]
    · simp only [h, ↓reduceIte]; exact unescape_escapeChar c t

/-- **the decoded string does not depend on how the JSON text spells it** -/
theorem unescape_spellWith (sps : List Spell) (s : Str) : unescape (spellWith sps s) = some s := by
  induction s generalizing sps with
  | nil => cases sps <;> simp [spellWith, unescape]
  | cons c cs ih =>
    cases sps with
    | nil => simp only [spellWith]; rw [unescape_escapeChar, ih]; rfl
    | cons sp sps => simp only [spellWith]; rw [unescape_spellChar, ih]; rfl

end Rocfl.Json
