import RocflModel.Json
namespace Rocfl.Json
open Rocfl

theorem unescape_cons_plain (c : Char) (t : Str) (h1 : c ≠ '\\') (h2 : c ≠ '"') (h3 : ¬ c.toNat < 32) :
    unescape (c :: t) = (unescape t).map (c :: ·) := by
  conv => lhs; unfold unescape
  simp [h1, h2, h3]

theorem ctrl_cases : ∀ n, n < 32 → ∀ t : Str,
    unescape (escapeChar (Char.ofNat n) ++ t) = (unescape t).map (Char.ofNat n :: ·) := by
  intro n hn t
  have : n = 0 ∨ n = 1 ∨ n = 2 ∨ n = 3 ∨ n = 4 ∨ n = 5 ∨ n = 6 ∨ n = 7 ∨ n = 8 ∨ n = 9 ∨ n = 10 ∨ n = 11 ∨
      n = 12 ∨ n = 13 ∨ n = 14 ∨ n = 15 ∨ n = 16 ∨ n = 17 ∨ n = 18 ∨ n = 19 ∨ n = 20 ∨ n = 21 ∨ n = 22 ∨
      n = 23 ∨ n = 24 ∨ n = 25 ∨ n = 26 ∨ n = 27 ∨ n = 28 ∨ n = 29 ∨ n = 30 ∨ n = 31 := by omega
  rcases this with h | h | h | h | h | h | h | h | h | h | h | h | h | h | h | h | h | h | h | h | h | h | h | h | h | h | h | h | h | h | h | h <;>
    (subst h; simp [escapeChar, hexDigitLower]; conv => lhs; unfold unescape; simp [hex4, hexVal, simpleEscape])


theorem unescape_escapeChar (c : Char) (t : Str) :
    unescape (escapeChar c ++ t) = (unescape t).map (c :: ·) := by
  by_cases hlt : c.toNat < 32
  · have := ctrl_cases c.toNat hlt t
    rwa [Char.ofNat_toNat] at this
  · by_cases hq : c = '"'
    · subst hq
      simp only [escapeChar, if_true, List.cons_append, List.nil_append]
      conv => lhs; unfold unescape
      simp [simpleEscape]
    · by_cases hb : c = '\\'
      · subst hb
        simp only [escapeChar]
        conv => lhs; unfold unescape
        simp [simpleEscape]
      · have e : escapeChar c = [c] := by
          have h8 : c.toNat ≠ 8 := by omega
          have h9 : c.toNat ≠ 9 := by omega
          have h10 : c.toNat ≠ 10 := by omega
          have h12 : c.toNat ≠ 12 := by omega
          have h13 : c.toNat ≠ 13 := by omega
          simp [escapeChar, hq, hb, h8, h9, h10, h12, h13, hlt]
        rw [e]
        exact unescape_cons_plain c t hb hq hlt

/-- **what rocfl writes, it and every conforming JSON reader read back unchanged** — for every string -/
theorem unescape_escape (s : Str) : unescape (escape s) = some s := by
  induction s with
  | nil => simp [escape, unescape]
  | cons c s ih =>
    have : escape (c :: s) = escapeChar c ++ escape s := by simp [escape]
    rw [this, unescape_escapeChar, ih]
    rfl

theorem unquote_quote (s : Str) : unquote (quote s) = some s := by
  simp only [quote, unquote]
  have h1 : (escape s ++ ['"']).getLast? = some '"' := by simp
  have h2 : (escape s ++ ['"']).dropLast = escape s := by simp
  rw [h1, h2]
  exact unescape_escape s

end Rocfl.Json
