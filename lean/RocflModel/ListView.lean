import RocflModel.Glob
import RocflModel.Inventory
/-
  Model of the path filter of `rocfl ls <object> [<path>]` (src/cmd/list.rs `filter_paths_to_listings`,
  `create_logical_dirs`): which logical paths and logical directories are printed for a path query,
  with and without `-D` (logical directories).
-/
namespace Rocfl.ListView
open Rocfl

/-- `create_logical_dirs`: the root and every proper ancestor of a path -/
def dirsOf (paths : List Str) : List Str := ([] :: paths.flatMap Version.ancestors).eraseDups

def trimLeading : Str → Str
  | '/' :: cs => trimLeading cs
  | s => s

/-- the glob the query stands for: leading slashes dropped, nothing (or only slashes) means `*` -/
def queryGlob (path : Option Str) : Str :=
  match path with
  | none => ['*']
  | some p => let t := trimLeading p; if t.isEmpty then ['*'] else t

/-- `filter_paths_to_listings`; `none` when the glob is rejected.  Directories are printed with a
    trailing slash.  The order of the result is the order the command sorts away afterwards. -/
def listContents (dirsMode : Bool) (path : Option Str) (paths : List Str) : Option (List Str) :=
  let glob := queryGlob path
  let trailing := glob.getLast? = some '/'
  match parseGlob (toByteChars glob) with
  | none => none
  | some toks =>
    let m := fun (s : Str) => matchG dirsMode toks (toByteChars s)
    let files := paths.filter m
    if !dirsMode then some files
    else
      let dirs := dirsOf paths
      let dm := dirs.filter (fun d => if trailing then m (d ++ ['/']) else m d)
      if files.isEmpty && dm.length == 1 && glob != ['*'] then
        let sub := if trailing then glob ++ ['*'] else glob ++ ['/', '*']
        match parseGlob (toByteChars sub) with
        | none => none
        | some toks2 =>
          let m2 := fun (s : Str) => matchG true toks2 (toByteChars s)
          some (paths.filter m2 ++ ((dirs.filter (fun d => !dm.contains d && m2 d)).map (· ++ ['/'])))
      else some (files ++ ((dm.filter (fun d => !d.isEmpty)).map (· ++ ['/'])))

end Rocfl.ListView
