/-
  Basic string utilities shared by every model file.  Core Lean only.

  Strings are `List Char`; wherever Rust measures or slices a `str` in *bytes*
  the model uses `utf8Len` / `dropBytes`, so a byte index that is not a char
  boundary is representable and yields `none` (Rust: panic).
-/
namespace Rocfl

abbrev Str := List Char

/-- UTF-8 length in bytes of a string (Rust `str::len`). -/
def utf8Len (s : Str) : Nat := (s.map Char.utf8Size).sum

@[simp] theorem utf8Len_nil : utf8Len [] = 0 := rfl
@[simp] theorem utf8Len_cons (c : Char) (s : Str) : utf8Len (c :: s) = c.utf8Size + utf8Len s := by
  simp [utf8Len]
@[simp] theorem utf8Len_append (a b : Str) : utf8Len (a ++ b) = utf8Len a + utf8Len b := by
  induction a with
  | nil => simp
  | cons c a ih => simp [ih, Nat.add_assoc]

theorem utf8Size_pos (c : Char) : 0 < c.utf8Size := by
  have := Char.utf8Size_pos c; omega

/-- Rust `&s[n..]` for a byte offset `n`: `none` when `n` is past the end or not on a char boundary. -/
def dropBytes : Nat → Str → Option Str
  | 0, cs => some cs
  | _ + 1, [] => none
  | n + 1, c :: cs => if c.utf8Size ≤ n + 1 then dropBytes (n + 1 - c.utf8Size) cs else none
termination_by _ cs => cs.length

/-- UTF-8 bytes of a string as naturals. -/
def utf8Bytes (s : Str) : List Nat := s.flatMap (fun c => (String.utf8EncodeChar c).map UInt8.toNat)

def isAsciiChar (c : Char) : Bool := c.toNat < 128
def isAsciiStr (s : Str) : Bool := s.all isAsciiChar

def asciiLower (c : Char) : Char := if 'A' ≤ c ∧ c ≤ 'Z' then Char.ofNat (c.toNat + 32) else c
def asciiUpper (c : Char) : Char := if 'a' ≤ c ∧ c ≤ 'z' then Char.ofNat (c.toNat - 32) else c

def hexDigitLower (n : Nat) : Char := if n < 10 then Char.ofNat (48 + n) else Char.ofNat (87 + n)
def hexDigitUpper (n : Nat) : Char := if n < 10 then Char.ofNat (48 + n) else Char.ofNat (55 + n)

def isLowerHexChar (c : Char) : Bool := ('0' ≤ c ∧ c ≤ '9') ∨ ('a' ≤ c ∧ c ≤ 'f')
def isLowerHex (s : Str) : Bool := s.all isLowerHexChar

/-! ### protocol helpers (driver only; not used in theorems) -/

def hexVal (c : Char) : Option Nat :=
  if '0' ≤ c ∧ c ≤ '9' then some (c.toNat - 48)
  else if 'a' ≤ c ∧ c ≤ 'f' then some (c.toNat - 87)
  else if 'A' ≤ c ∧ c ≤ 'F' then some (c.toNat - 55)
  else none

def hexToBytes : List Char → Option (List UInt8)
  | [] => some []
  | [_] => none
  | a :: b :: rest => do
    let x ← hexVal a
    let y ← hexVal b
    let r ← hexToBytes rest
    pure (UInt8.ofNat (x * 16 + y) :: r)

/-- decode a hex-encoded UTF-8 protocol argument; `-` alone is the empty string -/
def decodeArg (s : String) : Option Str :=
  if s = "-" then some [] else
  match hexToBytes s.toList with
  | none => none
  | some bs =>
    let ba : ByteArray := ⟨bs.toArray⟩
    match String.fromUTF8? ba with
    | some str => some str.toList
    | none => none

def encodeArg (s : Str) : String :=
  if s.isEmpty then "-" else
  String.ofList ((utf8Bytes s).flatMap (fun b => [hexDigitLower (b / 16), hexDigitLower (b % 16)]))

end Rocfl
