import RocflModel.Basic.Str
/-
  Association lists standing in for Rust's HashMap / BTreeMap / PathBiMap.
  The "keys are unique" invariant is a separate predicate (`NoDupKeys`), never a subtype.
-/
namespace Rocfl.AL

variable {α β : Type} [DecidableEq α]

def get (l : List (α × β)) (k : α) : Option β :=
  match l with
  | [] => none
  | (a, b) :: t => if a = k then some b else get t k

def has (l : List (α × β)) (k : α) : Bool := (get l k).isSome

def erase : List (α × β) → α → List (α × β)
  | [], _ => []
  | (a, b) :: t, k => if a = k then erase t k else (a, b) :: erase t k

/-- `insert` replaces an existing binding (HashMap::insert / PathBiMap::insert_rc) -/
def insert (l : List (α × β)) (k : α) (v : β) : List (α × β) := erase l k ++ [(k, v)]

def keys (l : List (α × β)) : List α := l.map (·.1)

def NoDupKeys (l : List (α × β)) : Prop := (keys l).Nodup

@[simp] theorem get_nil (k : α) : get ([] : List (α × β)) k = none := rfl

theorem get_cons (a : α) (b : β) (t : List (α × β)) (k : α) :
    get ((a, b) :: t) k = if a = k then some b else get t k := rfl

theorem get_append (l₁ l₂ : List (α × β)) (k : α) :
    get (l₁ ++ l₂) k = (get l₁ k).or (get l₂ k) := by
  induction l₁ with
  | nil => simp
  | cons e t ih =>
    obtain ⟨a, b⟩ := e
    simp only [List.cons_append, get_cons]
    split <;> simp [ih]

theorem get_erase_self (l : List (α × β)) (k : α) : get (erase l k) k = none := by
  induction l with
  | nil => rfl
  | cons e t ih =>
    obtain ⟨a, b⟩ := e
    by_cases h : a = k
    · simp only [erase, h, if_true]; exact ih
    · simp only [erase, h, if_false, get_cons]; exact ih

theorem get_erase_ne (l : List (α × β)) (k k' : α) (h : k' ≠ k) : get (erase l k) k' = get l k' := by
  induction l with
  | nil => rfl
  | cons e t ih =>
    obtain ⟨a, b⟩ := e
    by_cases h1 : a = k
    · have : ¬ a = k' := fun e => h (e ▸ h1)
      simp only [erase, h1, if_true, get_cons]
      rw [if_neg (h1 ▸ this)]
      exact ih
    · simp only [erase, h1, if_false, get_cons]
      split
      · rfl
      · exact ih

theorem get_insert_self (l : List (α × β)) (k : α) (v : β) : get (insert l k v) k = some v := by
  simp [insert, get_append, get_erase_self, get_cons]

theorem get_insert_ne (l : List (α × β)) (k k' : α) (v : β) (h : k' ≠ k) :
    get (insert l k v) k' = get l k' := by
  have : ¬ k = k' := fun e => h e.symm
  simp [insert, get_append, get_erase_ne _ _ _ h, get_cons, this]

theorem mem_keys_of_get {l : List (α × β)} {k : α} {v : β} (h : get l k = some v) : k ∈ keys l := by
  induction l with
  | nil => simp at h
  | cons e t ih =>
    obtain ⟨a, b⟩ := e
    rw [get_cons] at h
    by_cases h1 : a = k
    · simp [keys, h1]
    · simp [h1] at h
      have := ih h
      simp [keys] at this ⊢
      exact Or.inr this

theorem get_isSome_iff_mem_keys (l : List (α × β)) (k : α) : (get l k).isSome ↔ k ∈ keys l := by
  induction l with
  | nil => simp [keys]
  | cons e t ih =>
    obtain ⟨a, b⟩ := e
    rw [get_cons]
    by_cases h1 : a = k
    · simp [h1, keys]
    · simp only [h1, if_false, ih, keys, List.map_cons, List.mem_cons]
      constructor
      · exact Or.inr
      · rintro (h | h)
        · exact absurd h.symm h1
        · exact h

theorem keys_erase_sub (l : List (α × β)) (k : α) : ∀ x ∈ keys (erase l k), x ∈ keys l ∧ x ≠ k := by
  intro x hx
  induction l with
  | nil => simp [erase, keys] at hx
  | cons e t ih =>
    obtain ⟨a, b⟩ := e
    by_cases h1 : a = k
    · simp only [erase, h1, if_true] at hx
      have := ih hx
      exact ⟨by simp [keys] at this ⊢; exact Or.inr this.1, this.2⟩
    · simp only [erase, h1, if_false, keys, List.map_cons, List.mem_cons] at hx
      rcases hx with hx | hx
      · subst hx; exact ⟨by simp [keys], h1⟩
      · have := ih hx
        exact ⟨by simp [keys] at this ⊢; exact Or.inr this.1, this.2⟩

theorem nodup_erase {l : List (α × β)} (h : NoDupKeys l) (k : α) : NoDupKeys (erase l k) := by
  induction l with
  | nil => simpa [erase] using h
  | cons e t ih =>
    obtain ⟨a, b⟩ := e
    have h' : a ∉ keys t ∧ NoDupKeys t := by simpa [NoDupKeys, keys] using h
    by_cases h1 : a = k
    · simp only [erase, h1, if_true]; exact ih h'.2
    · simp only [erase, h1, if_false]
      have : a ∉ keys (erase t k) := fun hm => h'.1 (keys_erase_sub t k a hm).1
      have ih' := ih h'.2
      simp only [NoDupKeys, keys, List.map_cons, List.nodup_cons] at *
      exact ⟨this, ih'⟩

theorem nodup_insert {l : List (α × β)} (h : NoDupKeys l) (k : α) (v : β) : NoDupKeys (insert l k v) := by
  have h1 := nodup_erase h k
  unfold NoDupKeys keys insert at *
  rw [List.map_append, List.nodup_append]
  refine ⟨h1, by simp, ?_⟩
  intro a ha b hb
  simp at hb
  subst hb
  exact (keys_erase_sub l b a ha).2

end Rocfl.AL

namespace Rocfl.AL
variable {α β : Type} [DecidableEq α]

theorem mem_of_get {l : List (α × β)} {k : α} {v : β} (h : get l k = some v) : (k, v) ∈ l := by
  induction l with
  | nil => simp at h
  | cons e t ih =>
    obtain ⟨a, b⟩ := e
    rw [get_cons] at h
    by_cases h1 : a = k
    · simp [h1] at h; subst h; subst h1; exact List.mem_cons_self ..
    · simp [h1] at h; exact List.mem_cons_of_mem _ (ih h)

theorem get_of_mem {l : List (α × β)} (hn : NoDupKeys l) {k : α} {v : β} (h : (k, v) ∈ l) : get l k = some v := by
  induction l with
  | nil => simp at h
  | cons e t ih =>
    obtain ⟨a, b⟩ := e
    have hn' : a ∉ keys t ∧ NoDupKeys t := by simpa [NoDupKeys, keys] using hn
    rw [get_cons]
    rcases List.mem_cons.mp h with heq | hm
    · cases heq; simp
    · have hk : k ∈ keys t := by simp only [keys, List.mem_map]; exact ⟨(k, v), hm, rfl⟩
      have : a ≠ k := fun e => hn'.1 (e ▸ hk)
      simp [this, ih hn'.2 hm]

theorem mem_iff_get {l : List (α × β)} (hn : NoDupKeys l) (k : α) (v : β) : (k, v) ∈ l ↔ get l k = some v :=
  ⟨get_of_mem hn, mem_of_get⟩

theorem nodup_nil : NoDupKeys ([] : List (α × β)) := by simp [NoDupKeys, keys]

end Rocfl.AL
