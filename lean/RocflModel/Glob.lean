import RocflModel.Basic.Str
/-
  The subset of `globset` syntax the generators emit: literal characters, `*`, `?`, `\x`.
  `litSep = true` is `literal_separator(true)` (logical-path globs: `*`/`?` never match `/`);
  `litSep = false` is the object-id filter of `ls`.  `**`, `[..]`, `{..}` are not modelled and are
  never generated.
-/
namespace Rocfl

def globMatch (litSep : Bool) : Str → Str → Bool
  | [], [] => true
  | [], _ :: _ => false
  | '*' :: ps, [] => globMatch litSep ps []
  | '*' :: ps, c :: cs =>
      globMatch litSep ps (c :: cs) || ((!litSep || c != '/') && globMatch litSep ('*' :: ps) cs)
  | '?' :: ps, c :: cs => (!litSep || c != '/') && globMatch litSep ps cs
  | '\\' :: x :: ps, c :: cs => x == c && globMatch litSep ps cs
  | p :: ps, c :: cs => p == c && globMatch litSep ps cs
  | _ :: _, [] => false
termination_by p s => p.length + s.length


/-- `globset` matches *bytes*: `?` consumes one byte of a multi-byte character, not the character.
    The model therefore matches on the UTF-8 encodings. -/
def toByteChars (s : Str) : Str := (utf8Bytes s).map Char.ofNat

def globMatchU (litSep : Bool) (pat s : Str) : Bool := globMatch litSep (toByteChars pat) (toByteChars s)

/-! ### the full single-level syntax: character classes and alternatives (globset 0.4 `Parser`,
    `tokens_to_regex`).  `**` stays unmodelled (`parseGlob` answers `none`, as it does for the
    patterns globset rejects: unclosed class, inverted range, nested or unclosed alternates,
    dangling escape). -/

inductive STok
  | lit (c : Char)
  | star
  | any
  | cls (neg : Bool) (ranges : List (Char × Char))
  deriving DecidableEq, Repr

/-- a class matches one character inside (outside, when negated) its ranges — also a `/`, whatever
    `literal_separator` says (`tokens_to_regex` emits a plain regex class) -/
def inRanges (ranges : List (Char × Char)) (c : Char) : Bool := ranges.any (fun r => r.1 ≤ c && c ≤ r.2)

def matchS (litSep : Bool) : List STok → Str → Bool
  | [], [] => true
  | [], _ :: _ => false
  | .star :: ps, [] => matchS litSep ps []
  | .star :: ps, c :: cs =>
      matchS litSep ps (c :: cs) || ((!litSep || c != '/') && matchS litSep (.star :: ps) cs)
  | .any :: ps, c :: cs => (!litSep || c != '/') && matchS litSep ps cs
  | .cls neg ranges :: ps, c :: cs => (inRanges ranges c != neg) && matchS litSep ps cs
  | .lit p :: ps, c :: cs => p == c && matchS litSep ps cs
  | .any :: _, [] => false
  | .cls _ _ :: _, [] => false
  | .lit _ :: _, [] => false
termination_by p s => p.length + s.length

inductive GTok
  | s (t : STok)
  | alt (alts : List (List STok))
  deriving Repr

/-- every way of choosing one alternative per group (an empty group contributes nothing) -/
def expandAlts : List GTok → List (List STok)
  | [] => [[]]
  | .s t :: rest => (expandAlts rest).map (t :: ·)
  | .alt alts :: rest =>
    let alts' := alts.filter (fun a => !a.isEmpty)
    if alts'.isEmpty then expandAlts rest else alts'.flatMap (fun a => (expandAlts rest).map (a ++ ·))

def matchG (litSep : Bool) (toks : List GTok) (s : Str) : Bool := (expandAlts toks).any (fun p => matchS litSep p s)

/-- `parse_class` after the `[` (and an optional `!`/`^`): ranges so far, whether a `-` is pending,
    whether this is the first character -/
def parseClass : Str → List (Char × Char) → Bool → Bool → Option (List (Char × Char) × Str)
  | [], _, _, _ => none                                  -- unclosed class
  | ']' :: rest, rs, inRange, first =>
    if first then parseClass rest (rs ++ [(']', ']')]) inRange false
    else some (if inRange then rs ++ [('-', '-')] else rs, rest)
  | '-' :: rest, rs, inRange, first =>
    if first then parseClass rest (rs ++ [('-', '-')]) inRange false
    else if inRange then
      match rs.getLast? with
      | some r => if '-' < r.1 then none else parseClass rest (rs.dropLast ++ [(r.1, '-')]) false false
      | none => none
    else parseClass rest rs true false
  | c :: rest, rs, inRange, _ =>
    if inRange then
      match rs.getLast? with
      | some r => if c < r.1 then none else parseClass rest (rs.dropLast ++ [(r.1, c)]) false false
      | none => none
    else parseClass rest (rs ++ [(c, c)]) false false

structure PState where
  done : List GTok := []                  -- tokens outside alternates, in order
  cur : Option (List (List STok)) := none -- inside `{`: alternatives so far, the last one still open

def PState.push (st : PState) (t : STok) : PState :=
  match st.cur with
  | none => { st with done := st.done ++ [.s t] }
  | some alts =>
    match alts.getLast? with
    | some a => { st with cur := some (alts.dropLast ++ [a ++ [t]]) }
    | none => { st with cur := some [[t]] }

/-- globset's `Parser::parse` for one token stream -/
def parseGlobAux : Nat → Str → PState → Option (List GTok)
  | 0, _, _ => none
  | _ + 1, [], st => if st.cur.isSome then none else some st.done      -- unclosed alternates
  | fuel + 1, c :: rest, st =>
    if c = '?' then parseGlobAux fuel rest (st.push .any)
    else if c = '*' then
      (if rest.head? = some '*' then none else parseGlobAux fuel rest (st.push .star))   -- `**` is not modelled
    else if c = '[' then
      let (neg, rest') := match rest with
        | '!' :: r => (true, r)
        | '^' :: r => (true, r)
        | r => (false, r)
      match parseClass rest' [] false true with
      | none => none
      | some (rs, rest'') => parseGlobAux fuel rest'' (st.push (.cls neg rs))
    else if c = '{' then
      (if st.cur.isSome then none else parseGlobAux fuel rest { st with cur := some [[]] })   -- nested alternates
    else if c = '}' then
      match st.cur with
      | none => parseGlobAux fuel rest st          -- `pop_alternate` with nothing open: an empty group, matches nothing extra
      | some alts => parseGlobAux fuel rest { done := st.done ++ [.alt alts], cur := none }
    else if c = ',' then
      match st.cur with
      | none => parseGlobAux fuel rest (st.push (.lit ','))
      | some alts => parseGlobAux fuel rest { st with cur := some (alts ++ [[]]) }
    else if c = '\\' then
      match rest with
      | [] => none                                                    -- dangling escape
      | x :: rest' => parseGlobAux fuel rest' (st.push (.lit x))
    else parseGlobAux fuel rest (st.push (.lit c))

def parseGlob (pat : Str) : Option (List GTok) := parseGlobAux (pat.length + 1) pat {}

/-- the verdict of a glob on a string; `none` when globset rejects the pattern (or it uses `**`) -/
def globMatchX (litSep : Bool) (pat s : Str) : Option Bool :=
  (parseGlob (toByteChars pat)).map (fun t => matchG litSep t (toByteChars s))

end Rocfl
