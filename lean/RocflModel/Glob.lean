import RocflModel.Basic.Str
/-
  The subset of `globset` syntax the generators emit: literal characters, `*`, `?`, `\x`.
  `litSep = true` is `literal_separator(true)` (logical-path globs: `*`/`?` never match `/`);
  `litSep = false` is the object-id filter of `ls`.  `**`, `[..]`, `{..}` are not modelled and are
  never generated.
-/
namespace Rocfl

def globMatch (litSep : Bool) : Str → Str → Bool
  | [], [] => true
  | [], _ :: _ => false
  | '*' :: ps, [] => globMatch litSep ps []
  | '*' :: ps, c :: cs =>
      globMatch litSep ps (c :: cs) || ((!litSep || c != '/') && globMatch litSep ('*' :: ps) cs)
  | '?' :: ps, c :: cs => (!litSep || c != '/') && globMatch litSep ps cs
  | '\\' :: x :: ps, c :: cs => x == c && globMatch litSep ps cs
  | p :: ps, c :: cs => p == c && globMatch litSep ps cs
  | _ :: _, [] => false
termination_by p s => p.length + s.length


/-- `globset` matches *bytes*: `?` consumes one byte of a multi-byte character, not the character.
    The model therefore matches on the UTF-8 encodings. -/
def toByteChars (s : Str) : Str := (utf8Bytes s).map Char.ofNat

def globMatchU (litSep : Bool) (pat s : Str) : Bool := globMatch litSep (toByteChars pat) (toByteChars s)

end Rocfl
