import RocflModel.Basic.Str
/-
  The install phase of `commit` on a local filesystem as a fault-aware state machine
  (src/ocfl/repo.rs:984-1035 `commit_inner`, store/fs.rs `write_new_version` with its rollback —
  including the restore of the root inventory from the previous version directory — and
  `write_new_object`).

  The object in the main repository is abstracted to what the install phase can change.
-/
namespace Rocfl.Commit

/-- content of a root-level file relative to the commit in progress -/
inductive Content | old | new | torn
  deriving DecidableEq, Repr

structure ObjState where
  versionDir : Bool        -- the new version directory is present in the object root
  rootInv : Content
  rootSidecar : Content
  declOld : Bool           -- the previous version declaration is present
  declNew : Bool           -- the new version declaration is present (spec upgrade only)
  deriving DecidableEq, Repr

/-- the steps of `write_new_version` that touch the main repository, in program order -/
inductive Step
  | renameVersion
  | invTrunc | invChmod | invCopy
  | sideTrunc | sideChmod | sideCopy
  | declCreate | declWrite | declUnlink        -- only on a spec upgrade
  deriving DecidableEq, Repr

def steps (upgrade : Bool) : List Step :=
  [.renameVersion, .invTrunc, .invChmod, .invCopy, .sideTrunc, .sideChmod, .sideCopy] ++
  (if upgrade then [.declCreate, .declWrite, .declUnlink] else [])

def oldState : ObjState := { versionDir := false, rootInv := .old, rootSidecar := .old, declOld := true, declNew := false }

def newState (upgrade : Bool) : ObjState :=
  { versionDir := true, rootInv := .new, rootSidecar := .new, declOld := !upgrade, declNew := upgrade }

/-- effect of a step that completes -/
def apply (s : ObjState) : Step → ObjState
  | .renameVersion => { s with versionDir := true }
  | .invTrunc => { s with rootInv := .torn }
  | .invChmod => s
  | .invCopy => { s with rootInv := .new }
  | .sideTrunc => { s with rootSidecar := .torn }
  | .sideChmod => s
  | .sideCopy => { s with rootSidecar := .new }
  | .declCreate => { s with declNew := true }
  | .declWrite => s
  | .declUnlink => { s with declOld := false }

/-- the rollback of `write_new_version` when the install step (`copy_inventory_files` + declaration
    swap) failed: restore both root files from the previous version directory, remove the new
    declaration, move the new version directory back -/
def rollback (s : ObjState) : ObjState :=
  { s with rootInv := .old, rootSidecar := .old, versionDir := false, declNew := false }

def isInventoryStep : Step → Bool
  | .invTrunc | .invChmod | .invCopy | .sideTrunc | .sideChmod | .sideCopy => true
  | _ => false

/-- run the install phase; the step at index `fault` (if any) fails with an error.
    Returns the state afterwards and whether the commit reported success. -/
def execFault (upgrade : Bool) (fault : Option Nat) : ObjState × Bool :=
  let rec go (todo : List Step) (i : Nat) (s : ObjState) : ObjState × Bool :=
    match todo with
    | [] => (s, true)
    | st :: rest =>
      if fault = some i then
        -- the failing call has no effect of its own (an `open(O_TRUNC)` that fails does not truncate)
        match st with
        | .renameVersion => (s, false)
        | _ => (rollback s, false)
      else go rest (i + 1) (apply s st)
  go (steps upgrade) 0 oldState

/-- the process is killed right before step `k` -/
def execKill (upgrade : Bool) (k : Nat) : ObjState :=
  ((steps upgrade).take k).foldl apply oldState

/-- what rocfl's validator necessarily reports for a state that is neither old nor new: a version
    directory the root inventory does not know, an unreadable/partial root file, a root inventory whose
    sidecar digest does not match, or a wrong set of version declarations -/
def flaggedInvalid (upgrade : Bool) (s : ObjState) : Bool :=
  (s.versionDir && s.rootInv == .old) ||            -- E001/E046: version dir not in the inventory
  s.rootInv == .torn || s.rootSidecar == .torn ||   -- parse error / E060,E061
  (s.rootInv == .new && s.rootSidecar != .new) ||   -- E060 digest mismatch
  (s.rootInv != .new && s.rootSidecar == .new) ||
  (!s.versionDir && s.rootInv == .new) ||           -- head version directory missing
  (upgrade && s.rootInv == .new && (s.declOld || !s.declNew)) ||   -- E038 / E003
  (s.declOld && s.declNew)

end Rocfl.Commit
