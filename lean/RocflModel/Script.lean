import RocflModel.Basic.Str
/-
  The filesystem-call scripts of the *install phase* of a commit (src/ocfl/store/fs.rs:323-430
  `write_new_object` / `write_new_version`, 207-226 `copy_inventory_files`) and trace monitors.

  Paths are lists of components.  A call is what `strace` shows after folding runs of `write` /
  `copy_file_range` on one file: Rust's `fs::copy` is `openat(O_TRUNC)` + `fchmod` + `copy_file_range`.
-/
namespace Rocfl

abbrev Path := List Str

inductive FsCall
  | mkdir (p : Path)
  | create (p : Path)            -- openat(O_CREAT|O_EXCL)
  | trunc (p : Path)             -- openat(O_WRONLY|O_CREAT|O_TRUNC)
  | chmod (p : Path)             -- fchmod on the freshly opened destination of fs::copy
  | write (p : Path)
  | copy (src dst : Path)        -- copy_file_range src -> dst
  | rename (src dst : Path)
  | unlink (p : Path)
  | rmdir (p : Path)
  deriving DecidableEq, Repr

/-- the paths whose directory entry or bytes a call changes -/
def FsCall.touched : FsCall → List Path
  | .mkdir p => [p] | .create p => [p] | .trunc p => [p] | .chmod p => [p] | .write p => [p]
  | .copy _ d => [d] | .rename s d => [s, d] | .unlink p => [p] | .rmdir p => [p]

/-- `p` is `d` or lies below it -/
def inside (d p : Path) : Bool := d.isPrefixOf p

def invFile : Str := ['i', 'n', 'v', 'e', 'n', 't', 'o', 'r', 'y', '.', 'j', 's', 'o', 'n']
def sidecarFile (alg : Str) : Str := invFile ++ '.' :: alg

/-- `copy_inventory_files(from, to)`: two `fs::copy` calls -/
def copyInventoryFiles (fromDir toDir : Path) (alg : Str) : List FsCall :=
  [ .trunc (toDir ++ [invFile]), .chmod (toDir ++ [invFile]), .copy (fromDir ++ [invFile]) (toDir ++ [invFile]),
    .trunc (toDir ++ [sidecarFile alg]), .chmod (toDir ++ [sidecarFile alg]),
    .copy (fromDir ++ [sidecarFile alg]) (toDir ++ [sidecarFile alg]) ]

/-- install phase of `write_new_version` without failure: object root `or`, staged object directory
    `sd`, new version directory name `v`; `upgrade = some (old, new)` on a spec upgrade -/
def installNewVersion (or sd : Path) (v alg : Str) (upgrade : Option (Str × Str)) : List FsCall :=
  .rename (sd ++ [v]) (or ++ [v]) :: copyInventoryFiles (or ++ [v]) or alg ++
  match upgrade with
  | some (oldN, newN) => [.create (or ++ [newN]), .write (or ++ [newN]), .unlink (or ++ [oldN])]
  | none => []

/-- the rollback of `write_new_version` when `copy_inventory_files` failed -/
def rollbackNewVersion (or sd : Path) (v : Str) : List FsCall := [.rename (or ++ [v]) (sd ++ [v])]

/-- install phase of `write_new_object`: `create_dir_all(parent)` then one rename -/
def installNewObject (or sd : Path) (missingParents : List Path) : List FsCall :=
  missingParents.map .mkdir ++ [.rename sd or]

/-! ### monitors -/

/-- no call touches anything inside one of the protected directories -/
def avoids (protectedDirs : List Path) (trace : List FsCall) : Bool :=
  trace.all (fun c => c.touched.all (fun p => protectedDirs.all (fun d => !inside d p)))

/-- every touched path lies inside one of the allowed directories -/
def confined (allowedDirs : List Path) (trace : List FsCall) : Bool :=
  trace.all (fun c => c.touched.all (fun p => allowedDirs.any (fun d => inside d p)))

/-- `v<digits>` -/
def isVersionName (s : Str) : Bool :=
  match s with
  | 'v' :: ds => !ds.isEmpty && ds.all Char.isDigit
  | _ => false

end Rocfl

namespace Rocfl

/-! ### object root paths (fs.rs `ensure_within_storage_root`, `ensure_not_inside_object`) -/

def splitSlash (s : Str) : List Str :=
  match s with
  | [] => [[]]
  | c :: cs =>
    match splitSlash cs with
    | [] => [[c]]
    | h :: t => if c = '/' then [] :: h :: t else (c :: h) :: t

def dot : Str := ['.']
def dotdot : Str := ['.', '.']

/-- `ensure_within_storage_root`: the mapped object root is accepted iff it is a non-empty relative
    path without empty, `.` or `..` segments -/
def safeRel (s : Str) : Bool :=
  !s.isEmpty && s.head? != some '/' && (splitSlash s).all (fun p => !p.isEmpty && p != dot && p != dotdot)

/-- where `storage_root.join(rel)` ends up once the kernel has resolved `.` and `..` lexically
    (symbolic links aside): an absolute `rel` replaces the root -/
def resolveJoin (root : Path) (rel : Str) : Path :=
  (splitSlash rel).foldl (fun acc c =>
    if c.isEmpty || c == dot then acc else if c == dotdot then acc.dropLast else acc ++ [c])
    (if rel.head? == some '/' then [] else root)

/-- `ensure_not_inside_object`: no proper ancestor of the target (below the storage root) is an
    object root -/
def notInsideObject (objectRoots : List Path) (target : Path) : Bool :=
  objectRoots.all (fun o => !(inside o target && o != target))

end Rocfl
