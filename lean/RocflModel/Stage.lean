import RocflModel.Inventory
import RocflModel.Glob
/-
  Model of the staging / commit operations of src/ocfl/repo.rs (together with the `StagingStore`
  and `OcflStore` methods of src/ocfl/store/fs.rs they call), at the level of inventories and the
  content files physically present in the staged and committed object directories.
-/
namespace Rocfl

/-- an object as stored on disk: its root inventory and the content files present (path ↦ digest of
    the bytes, under the object's digest algorithm) -/
structure Obj where
  inv : Inv
  files : List (CPath × Digest)
  deriving DecidableEq, Repr

structure Repo where
  repoSpec : SpecV
  main : List (Str × Obj)
  staged : List (Str × Obj)
  deriving DecidableEq, Repr

def Repo.empty (s : SpecV) : Repo := { repoSpec := s, main := [], staged := [] }

/-- an external source of `cp` / `mv`: its last path component and what is there -/
inductive Src
  | missing
  | file (name : Str) (d : Digest)
  | dir (name : Str) (files : List (Str × Digest))   -- paths relative to the directory, walk order
  deriving DecidableEq, Repr

/-- `VersionNum` as re-read from the serialised string (`TryFrom<&str>`, types.rs:317-355) -/
def VNum.reparse (v : VNum) : VNum :=
  let s := v.display
  if s.getD 1 ' ' = '0' then { v with width := s.length - 1 } else { v with width := 0 }

def Inv.reparse (inv : Inv) : Inv := { inv with head := inv.head.reparse }

/-! ### physical staging helpers (fs.rs:623-740) -/

/-- `fs::create_dir_all(parent)` + creating a file at `cp` fails when an ancestor is a file or `cp`
    itself is a directory -/
def physConflict (files : List (CPath × Digest)) (cp : CPath) : Bool :=
  files.any (fun e => e.1.1 == cp.1 && (under e.1.2 cp.2 || under cp.2 e.1.2))

/-- `stage_file_copy` / `stage_file_move` / `copy_staged_file`: a file with digest `d` at `cp` -/
def putFile (o : Obj) (cp : CPath) (d : Digest) : Except Err Obj :=
  if physConflict o.files cp then .error .io else .ok { o with files := AL.insert o.files cp d }

def rmFile (o : Obj) (cp : CPath) : Obj := { o with files := AL.erase o.files cp }

/-! ### create_object (repo.rs:514-569) -/

/-- Unicode `White_Space`, what Rust's `str::trim` removes -/
def isRustWhitespace (c : Char) : Bool :=
  let n := c.toNat
  (9 ≤ n && n ≤ 13) || n == 32 || n == 0x85 || n == 0xA0 || n == 0x1680 || (0x2000 ≤ n && n ≤ 0x200A)
    || n == 0x2028 || n == 0x2029 || n == 0x202F || n == 0x205F || n == 0x3000

def trimWs (s : Str) : Str := (s.dropWhile isRustWhitespace).reverse.dropWhile isRustWhitespace |>.reverse

def validContentDir (c : Str) : Bool := !(c.isEmpty || c == ['.'] || c == ['.', '.'] || c.contains '/')

def specLe : SpecV → SpecV → Bool
  | .v1_1, .v1_0 => false
  | _, _ => true

def createObject (r : Repo) (id0 : Str) (spec : Option SpecV) (alg : DAlg) (contentDir : Str) (width : Nat)
    (now : Str) : Except Err Repo :=
  let id := trimWs id0
  let objSpec := spec.getD r.repoSpec
  if !(specLe objSpec r.repoSpec) then .error .invalid
  else if id.isEmpty then .error .invalid
  else if !validContentDir contentDir then .error .invalid
  else if AL.has r.main id then .error .illegalState
  else if AL.has r.staged id then .error .illegalState
  else
    let inv : Inv := { id := id, spec := objSpec, alg := alg, head := { number := 1, width := width },
                       contentDir := contentDir, manifest := [],
                       versions := [{ state := [], vmeta := stagedMeta now }] }
    .ok { r with staged := AL.insert r.staged id { inv := inv.reparse, files := [] } }

/-! ### get_or_created_staged_inventory (repo.rs:1040-1074) -/

def getOrCreateStaged (r : Repo) (id : Str) (now : Str) : Except Err (Repo × Obj) :=
  match AL.get r.staged id with
  | some o => .ok (r, o)
  | none =>
    match AL.get r.main id with
    | none => .error .notFound
    | some m =>
      match m.inv.createStagingHead now with
      | .error e => .error e
      | .ok inv =>
        let o : Obj := { inv := inv.reparse, files := [] }
        .ok ({ r with staged := AL.insert r.staged id o }, o)

def saveStaged (r : Repo) (id : Str) (o : Obj) : Repo := { r with staged := AL.insert r.staged id o }

def touch (o : Obj) (now : Str) : Obj :=
  { o with inv := o.inv.setHeadVersion { o.inv.headVersion with vmeta := { o.inv.headVersion.vmeta with created := now } } }

/-- the common frame of every staging operation that creates the staged version on demand
    (`get_or_created_staged_inventory`, then a body working on the staged object, then — unless the
    body bailed out early — `stage_inventory`).  The body returns its outcome, the staged object to
    write back (`none`: nothing is written) and a payload. -/
def withStaged {α : Type} (r : Repo) (id now : Str) (dflt : α)
    (body : Obj → Except Err Unit × Option Obj × α) : Except Err Unit × Repo × α :=
  match getOrCreateStaged r id now with
  | .error e => (.error e, r, dflt)
  | .ok (r1, o) =>
    match body o with
    | (res, some o', a) => (res, saveStaged r1 id o', a)
    | (res, none, a) => (res, r1, a)

/-! ### external copy / move (repo.rs:1098-1257, 1442-1457) -/

/-- `logical_path_in_dst_dir` -/
def logicalPathInDstDir (rel dst : Str) : Except Err LPath :=
  parsePath ((if dst.getLast? == some '/' then dst else dst ++ ['/']) ++ rel)

/-- one file of an external source: validate, stage the bytes, update the inventory
    (`validate_non_conflicting` + `copy_file` / `move_file`) -/
def stageExternalFile (o : Obj) (lp : LPath) (d : Digest) : Except Err Obj :=
  if o.inv.headVersion.conflicts lp then .error .illegalState
  else
    match putFile o (o.inv.newContentPath lp) d with
    | .error e => .error e
    | .ok o' =>
      match o'.inv.addFileToHead d lp with
      | .error e => .error e
      | .ok inv => .ok { o' with inv := inv }

structure ExtCtx where
  dst : Str
  dstPath : LPath
  dstDirExists : Bool
  srcIsMany : Bool
  dstHasSlash : Bool
  recursive : Bool

/-- the body of the `for path in src` loop for one source; returns the object, the number of
    errors it added, and the source files (relative to the source's parent) that were consumed -/
def extOne (c : ExtCtx) (o : Obj) (s : Src) : Obj × Nat × List Str :=
  match s with
  | .missing => (o, 1, [])
  | .file name d =>
    let lp? := if c.dstDirExists || c.srcIsMany || c.dstHasSlash then logicalPathInDstDir name c.dst
               else .ok c.dstPath
    match lp? with
    | .error _ => (o, 1, [])
    | .ok lp =>
      match stageExternalFile o lp d with
      | .error _ => (o, 1, [])
      | .ok o' => (o', 0, [name])
  | .dir name files =>
    if c.recursive then
      files.foldl (fun (acc : Obj × Nat × List Str) (f : Str × Digest) =>
        let rel := if c.dstDirExists || c.srcIsMany then name ++ '/' :: f.1 else f.1
        match logicalPathInDstDir rel c.dst with
        | .error _ => (acc.1, acc.2.1 + 1, acc.2.2)
        | .ok lp =>
          match stageExternalFile acc.1 lp f.2 with
          | .error _ => (acc.1, acc.2.1 + 1, acc.2.2)
          | .ok o' => (o', acc.2.1, acc.2.2 ++ [name ++ '/' :: f.1])) (o, 0, [])
    else (o, 1, [])

/-- the body of `operate_on_external_source` after the staged inventory has been obtained -/
def copyExternalBody (srcs : List Src) (dst : Str) (recursive : Bool) (now : Str) (o : Obj) :
    Except Err Unit × Option Obj × List (List Str) :=
  match parsePath dst with
  | .error e => (.error e, none, [])
  | .ok dstPath =>
    let c : ExtCtx := { dst := dst, dstPath := dstPath, dstDirExists := o.inv.headVersion.isDir dstPath,
                        srcIsMany := srcs.length > 1, dstHasSlash := dst.getLast? == some '/',
                        recursive := recursive }
    let (o', errs, consumed) := srcs.foldl (fun (acc : Obj × Nat × List (List Str)) s =>
      let (o2, n, used) := extOne c acc.1 s
      (o2, acc.2.1 + n, acc.2.2 ++ [used])) (o, 0, [])
    (if errs > 0 then .error (.copyMove errs) else .ok (), some (touch o' now), consumed)

/-- `operate_on_external_source` (copy and move differ only in what happens to the sources):
    outcome, repository afterwards, consumed source files (per source) -/
def copyExternal (r : Repo) (id : Str) (srcs : List Src) (dst : Str) (recursive : Bool) (now : Str) :
    Except Err Unit × Repo × List (List Str) :=
  if srcs.isEmpty then (.ok (), r, []) else
  withStaged r id now [] (copyExternalBody srcs dst recursive now)

/-! ### internal copy / move (repo.rs:592-656, 689-747, 1262-1365, 1460-1510) -/

/-- `logical_path_in_dst_dir_internal` -/
def logicalPathInDstDirInternal (src base dst : Str) : Except Err LPath :=
  let baseLen := if base.isEmpty then 0 else base.length + 1
  parsePath ((if dst.getLast? == some '/' then dst else dst ++ ['/']) ++ src.drop baseLen)

/-- `resolve_glob` (inventory.rs:716-752) -/
def resolveGlob (v : Version) (glob : Str) (recursive : Bool) : List LPath :=
  let g0 := trimLeadingSlashes glob
  let g := if g0.isEmpty then ['*'] else g0
  let trailing := g.getLast? == some '/'
  let files := (AL.keys v.state).filter (fun p => globMatchU true g p)
  let viaDirs :=
    if recursive then
      v.logicalDirs.flatMap (fun d =>
        if (trailing && globMatchU true g (d ++ ['/'])) || (!trailing && globMatchU true g d)
        then v.pathsWithPrefix d else [])
    else []
  (files ++ viaDirs).eraseDups

/-- `resolve_glob_to_dirs` (inventory.rs:755-774) -/
def resolveGlobToDirs (v : Version) (glob : Str) : List Str :=
  let g := trimLeadingSlashes glob
  v.logicalDirs.filter (fun d => globMatchU true g d)

structure IntAcc where
  toMove : List (LPath × LPath)
  errors : Nat

/-- `resolve_internal_moves`, given the version the sources are resolved in -/
def resolveInternalMoves (head src : Version) (srcs : List Str) (dst : Str) (recursive : Bool) :
    Except Err IntAcc :=
  match parsePath dst with
  | .error e => .error e
  | .ok dstPath =>
    let dstDirExists := head.isDir dstPath
    let srcIsMany := srcs.length > 1
    let dstHasSlash := dst.getLast? == some '/'
    .ok (srcs.foldl (fun (acc : IntAcc) (path : Str) =>
      let files := resolveGlob src path false
      let manyFiles := files.length > 1
      -- recursive part: directories matched by the glob
      let dirs := if recursive then resolveGlobToDirs src path else []
      let manyDirs := dirs.length > 1
      let (acc1, m1) := dirs.foldl (fun (a : IntAcc × Bool) (dir : Str) =>
        let children := src.pathsWithPrefix dir
        let manyChildren := children.length > 1
        children.foldl (fun (a : IntAcc × Bool) (file : LPath) =>
          let lp? := if dstDirExists || srcIsMany || manyChildren || manyDirs || !files.isEmpty
                     then logicalPathInDstDirInternal file (parentPath dir) dst
                     else logicalPathInDstDirInternal file dir dst
          match lp? with
          | .error _ => ({ a.1 with errors := a.1.errors + 1 }, a.2)
          | .ok lp => ({ a.1 with toMove := AL.insert a.1.toMove file lp }, true)) a) (acc, false)
      let (acc2, m2) := files.foldl (fun (a : IntAcc × Bool) (file : LPath) =>
        let lp := if dstDirExists || srcIsMany || dstHasSlash || manyFiles || !a.1.toMove.isEmpty
                  then resolvePath dstPath (fileName file) else dstPath
        ({ a.1 with toMove := AL.insert a.1.toMove file lp }, true)) (acc1, m1)
      if m2 then acc2 else { acc2 with errors := acc2.errors + 1 }) { toMove := [], errors := 0 })

/-- `lookup_staged_digest_and_content_path` (repo.rs, after the fix): `some (d, cp)` exactly when the
    source is read from the head version and its *own* content path is in the manifest with the
    same digest — only then do the bytes live in staging. -/
def lookupStaged (o : Obj) (srcV : Nat) (src : LPath) : Except Err (Option (Digest × CPath)) :=
  match o.inv.getVersion srcV with
  | none => .error .notFound
  | some v =>
    match v.lookup src with
    | none => .error .illegalState
    | some d =>
      if srcV == o.inv.head.number && AL.get o.inv.manifest (o.inv.newContentPath src) == some d
      then .ok (some (d, o.inv.newContentPath src)) else .ok none

def copyOneInternal (o : Obj) (srcV : Nat) (src dst : LPath) : Except Err Obj :=
  if srcV == o.inv.head.number && src == dst then .error .illegalState else
  match lookupStaged o srcV src with
  | .error e => .error e
  | .ok (some (d, cp)) =>
    if o.inv.headVersion.conflicts dst then .error .illegalState
    else
      match AL.get o.files cp with
      | none => .error .io
      | some bytes =>
        match putFile o (o.inv.newContentPath dst) bytes with
        | .error e => .error e
        | .ok o' =>
          match o'.inv.addFileToHead d dst with
          | .error e => .error e
          | .ok inv => .ok { o' with inv := inv }
  | .ok none =>
    match o.inv.copyFileToHead srcV src dst with
    | .error e => .error e
    | .ok inv => .ok { o with inv := inv }

def moveOneInternal (o : Obj) (src dst : LPath) : Except Err Obj :=
  if src == dst then .error .illegalState else
  match lookupStaged o o.inv.head.number src with
  | .error e => .error e
  | .ok (some (d, cp)) =>
    if o.inv.headVersion.conflicts dst then .error .illegalState
    else
      match AL.get o.files cp with
      | none => .error .io
      | some bytes =>
        match putFile (rmFile o cp) (o.inv.newContentPath dst) bytes with
        | .error e => .error e
        | .ok o' =>
          match o'.inv.moveNewInHeadFile d src dst with
          | .error e => .error e
          | .ok inv => .ok { o' with inv := inv }
  | .ok none =>
    match o.inv.moveFileInHead src dst with
    | .error e => .error e
    | .ok inv => .ok { o with inv := inv }

/-- the pairs interact: the result depends on the HashMap iteration order of `to_move` -/
def pairsInteract (ps : List (LPath × LPath)) : Bool :=
  ps.any (fun a => ps.any (fun b =>
    a != b && (a.2 == b.2 || under a.2 b.2 || a.2 == b.1 || under a.2 b.1 || under b.1 a.2)))

def internalBody (move : Bool) (srcVer : Option Nat) (srcs : List Str) (dst : Str) (recursive : Bool) (now : Str)
    (o : Obj) : Except Err Unit × Option Obj × Unit :=
  let srcV := srcVer.getD o.inv.head.number
  match o.inv.getVersion srcV with
  | none =>
    -- `resolve_internal_moves` parses `dst` first, then `get_version(src_version_num)?`
    match parsePath dst with
    | .error e => (.error e, none, ())
    | .ok _ => (.error .notFound, none, ())
  | some sv =>
    match resolveInternalMoves o.inv.headVersion sv srcs dst recursive with
    | .error e => (.error e, none, ())
    | .ok acc =>
      let (o', errs) := acc.toMove.foldl (fun (a : Obj × Nat) (p : LPath × LPath) =>
        match (if move then moveOneInternal a.1 p.1 p.2 else copyOneInternal a.1 srcV p.1 p.2) with
        | .error _ => (a.1, a.2 + 1)
        | .ok o2 => (o2, a.2)) (o, acc.errors)
      (if errs > 0 then .error (.copyMove errs) else .ok (), some (touch o' now), ())

def internalOp (move : Bool) (r : Repo) (id : Str) (srcVer : Option Nat) (srcs : List Str) (dst : Str)
    (recursive : Bool) (now : Str) : Except Err Unit × Repo :=
  if srcs.isEmpty then (.ok (), r) else
  let res := withStaged r id now () (internalBody move srcVer srcs dst recursive now)
  (res.1, res.2.1)

/-! ### rm / reset (repo.rs:751-883) -/

def removeOne (o : Obj) (p : LPath) : Obj :=
  match o.inv.removeLogicalPathFromHead p with
  | (inv, some cp) => rmFile { o with inv := inv } cp
  | (inv, none) => { o with inv := inv }

def removeBody (paths : List Str) (recursive : Bool) (o : Obj) : Except Err Unit × Option Obj × Unit :=
  let toRemove := (paths.flatMap (fun p => resolveGlob o.inv.headVersion p recursive)).eraseDups
  (.ok (), some (toRemove.foldl removeOne o), ())

def removeFiles (r : Repo) (id : Str) (paths : List Str) (recursive : Bool) (now : Str) : Except Err Unit × Repo :=
  if paths.isEmpty then (.ok (), r) else
  let res := withStaged r id now () (removeBody paths recursive)
  (res.1, res.2.1)

/-- the body of `reset`: `none` when a restore conflicts (`copy_file_to_head(..)?` aborts before
    `stage_inventory`) -/
def resetBody (paths : List Str) (recursive : Bool) (now : Str) (o : Obj) : Except Err Obj :=
  let head := o.inv.headVersion
  let prev? : Option (Version × Nat) :=
    if o.inv.isNew then none
    else (o.inv.getVersion (o.inv.head.number - 1)).map (fun v => (v, o.inv.head.number - 1))
  let headPaths := (paths.flatMap (fun p => resolveGlob head p recursive)).eraseDups
  let prevPaths := match prev? with
    | some (pv, _) => (paths.flatMap (fun p => resolveGlob pv p recursive)).eraseDups
    | none => []
  let resetAdds := headPaths.filter (fun p => !prevPaths.contains p)
  let o1 := resetAdds.foldl removeOne o
  match prev? with
  | none => .ok (touch o1 now)
  | some (_, pn) =>
    match prevPaths.foldl (fun (a : Except Err Obj) (p : LPath) =>
      match a with
      | .error e => .error e
      | .ok o2 =>
        let o3 := removeOne o2 p
        match o3.inv.copyFileToHead pn p p with
        | .error e => .error e
        | .ok inv => .ok { o3 with inv := inv }) (.ok o1) with
    | .error e => .error e
    | .ok o4 => .ok (touch o4 now)

def resetPaths (r : Repo) (id : Str) (paths : List Str) (recursive : Bool) (now : Str) : Except Err Unit × Repo :=
  if paths.isEmpty then (.ok (), r) else
  match AL.get r.staged id with
  | none => (.ok (), r)
  | some o =>
    match resetBody paths recursive now o with
    | .error e => (.error e, r)
    | .ok o' => (.ok (), saveStaged r id o')

def resetAll (r : Repo) (id : Str) : Repo := { r with staged := AL.erase r.staged id }

/-! ### commit (repo.rs:891-1035; fs.rs:323-430, 700-776) -/

/-- `rm_orphaned_files`: staged content files under the head's content directory that the manifest
    does not list are deleted -/
def rmOrphans (o : Obj) : Obj :=
  let pre := o.inv.contentDir ++ ['/']
  { o with files := o.files.filter (fun e => !(o.inv.inHead e.1 && pre.isPrefixOf e.1.2) || AL.has o.inv.manifest e.1) }

/-- what the main repository holds after a successful install of the staged object `o` -/
def installed (old : Option Obj) (o : Obj) : Obj :=
  { inv := o.inv, files := (old.map (·.files)).getD [] ++ o.files }

/-- the staged object as `commit_inner` leaves it before installing: `dedup_head`, `update_meta`,
    `stage_inventory(finalize)`, removal of duplicate and orphaned staged files (repo.rs:1003-1017) -/
def prepareCommit (o : Obj) (m : Meta) (keep : Digest → List CPath) : Obj :=
  let (inv1, removed) := o.inv.dedupHead keep
  let inv2 := inv1.updateMeta m
  rmOrphans (removed.foldl rmFile { o with inv := inv2 })

/-- equality of two logical states as maps (Rust compares `HashMap`s) -/
def stateEq (a b : List (LPath × Digest)) : Bool := a.all (b.contains ·) && b.all (a.contains ·)

def versionEq (a b : Version) : Bool := a.vmeta == b.vmeta && stateEq a.state b.state

/-- `Inventory::continues_history_of`: every version of `old` is present, unchanged, in `new`, and the
    version numbers are padded the same way -/
def continuesHistory (new old : Inv) : Bool :=
  new.head.width == old.head.width &&
  (List.range old.versions.length).all (fun i =>
    match new.versions[i]?, old.versions[i]? with
    | some a, some b => versionEq a b
    | _, _ => false)

def commitInner (r : Repo) (id : Str) (m : Meta) (keep : Digest → List CPath) (hasRoot : Bool) :
    Except Err Unit × Repo :=
  match AL.get r.staged id with
  | none => (.error .general, r)
  | some o =>
    -- `keep` stands for the hash-order dependent choice inside `dedup_head`; a choice the code cannot
    -- make is excluded here (this branch is not a behaviour of the implementation)
    if !(o.inv.keepAdmissible keep) then (.error .panic, r) else
    let o2 := prepareCommit o m keep
    let rStaged := saveStaged r id o2
    if o2.inv.isNew then
      -- write_new_object: the target must be determinable and must not exist
      if !hasRoot then (.error .illegalState, rStaged)
      else if AL.has r.main id then (.error .illegalState, rStaged)
      else
        let r' := { rStaged with main := AL.insert r.main id (installed none o2), staged := AL.erase rStaged.staged id }
        (.ok (), r')
    else
      -- write_new_version: the object must exist with head = staged head - 1
      match AL.get r.main id with
      | none => (.error .notFound, rStaged)
      | some old =>
        if old.inv.head.number + 1 ≠ o2.inv.head.number then (.error .illegalState, rStaged)
        -- the object was replaced (purged and created again) after the version was staged
        else if !(continuesHistory o2.inv old.inv) then (.error .illegalState, rStaged)
        else
          let r' := { rStaged with main := AL.insert r.main id (installed (some old) o2), staged := AL.erase rStaged.staged id }
          (.ok (), r')

def commit (r : Repo) (id : Str) (m : Meta) (keep : Digest → List CPath) (hasRoot : Bool) : Except Err Unit × Repo :=
  commitInner r id m keep hasRoot

/-- `upgrade_object` (repo.rs:909-955) -/
def upgradeObject (r : Repo) (id : Str) (target : SpecV) (m : Meta) (keep : Digest → List CPath)
    (hasLayout : Bool) (now : Str) :
    Except Err Unit × Repo :=
  match getOrCreateStaged r id now with
  | .error e => (.error e, r)
  | .ok (r1, o) =>
    if specLe target o.inv.spec then (.error .illegalOp, r1)
    else if !(specLe target r.repoSpec) then (.error .illegalOp, r1)
    else
      let o' := { o with inv := { o.inv with spec := target } }
      commitInner (saveStaged r1 id o') id m keep hasLayout

def purge (r : Repo) (id : Str) : Repo :=
  { r with main := AL.erase r.main id, staged := AL.erase r.staged id }

/-! ### reads (repo.rs:278-323, 374-433; fs.rs:298-317) -/

/-- what a read of version `vn` of a committed object answers: every admissible content path must
    exist; returns the digest(s) of the bytes -/
def readObj (o : Obj) (vn : Nat) (p : LPath) : Except Err (List Digest) :=
  match o.inv.contentPathsForLogicalPath p vn with
  | .error e => .error e
  | .ok cps =>
    let ds := cps.map (fun cp => AL.get o.files cp)
    if ds.any Option.isNone then .error .io else .ok (ds.filterMap (fun x => x)).eraseDups

/-- `get_object_file` -/
def getObjectFile (r : Repo) (id : Str) (vn : Option Nat) (p : LPath) : Except Err (List Digest) :=
  match AL.get r.main id with
  | none => .error .notFound
  | some o => readObj o (vn.getD o.inv.head.number) p

/-- `get_staged_object_file` (after the fixes): a file with its own content path in the manifest is
    read from staging; any other content is located through the newest committed version that
    references the same digest -/
def getStagedObjectFile (r : Repo) (id : Str) (p : LPath) : Except Err (List Digest) :=
  match AL.get r.staged id with
  | none => .error .notFound
  | some o =>
    match o.inv.headVersion.lookup p with
    | none => .error .notFound
    | some d =>
      match o.inv.contentPathsForDigest d o.inv.head.number (some p) with
      | .error e => .error e
      | .ok _ =>
        -- own content path, else (deduplicated staged inventory after a failed commit) any staged
        -- content path of the digest
        let stagedCp : Option CPath :=
          if AL.get o.inv.manifest (o.inv.newContentPath p) == some d then some (o.inv.newContentPath p)
          else (o.inv.headPathsFor d).head?
        match stagedCp with
        | some cp =>
          match AL.get o.files cp with
          | none => .error .io
          | some bytes => .ok [bytes]
        | none =>
          let cand := (List.range (o.inv.head.number - 1)).reverse.filterMap (fun i =>
            match o.inv.getVersion (i + 1) with
            | some v => (v.state.find? (fun e => e.2 == d)).map (fun e => (i + 1, e.1))
            | none => none)
          match cand.head? with
          | none => .error .notFound
          | some (vn, q) => getObjectFile r id (some vn) q

/-- the staged view: logical path ↦ digest -/
def stagedView (r : Repo) (id : Str) : Option (List (LPath × Digest)) :=
  (AL.get r.staged id).map (fun o => o.inv.headVersion.state)

end Rocfl
