import RocflModel.Inventory
/-
  Model of `Version::diff` (inventory.rs:798-863), `Inventory::diff_versions` (297-316),
  `OcflRepo::list_file_versions` (repo.rs:418-458) and the `last_update` attribution of
  `ObjectVersion::construct_state` (types.rs:1083-1186).
-/
namespace Rocfl

inductive Diff
  | added (p : LPath)
  | modified (p : LPath)
  | deleted (p : LPath)
  | renamed (original renamed : List LPath)
  deriving DecidableEq, Repr

/-- lexicographic order on paths by code point (= byte order of the UTF-8 strings Rust compares) -/
def strLe : Str → Str → Bool
  | [], _ => true
  | _ :: _, [] => false
  | a :: as, b :: bs => if a.toNat < b.toNat then true else if b.toNat < a.toNat then false else strLe as bs

def sortPaths (l : List Str) : List Str := l.mergeSort strLe

structure DiffAcc where
  deletes : List (Digest × List LPath) := []
  seen : List LPath := []
  renames : List (Digest × (List LPath × List LPath)) := []
  diffs : List Diff := []

/-- first loop: every path of the left state (inventory.rs:805-820) -/
def diffLeftStep (right : List (LPath × Digest)) (acc : DiffAcc) (e : LPath × Digest) : DiffAcc :=
  match AL.get right e.1 with
  | none => { acc with deletes := AL.insert acc.deletes e.2 ((AL.get acc.deletes e.2).getD [] ++ [e.1]) }
  | some rd =>
    { acc with seen := e.1 :: acc.seen,
               diffs := if e.2 ≠ rd then acc.diffs ++ [.modified e.1] else acc.diffs }

/-- second loop: every path of the right state that was not seen (inventory.rs:824-841) -/
def diffRightStep (acc : DiffAcc) (e : LPath × Digest) : DiffAcc :=
  if acc.seen.contains e.1 then acc
  else
    match AL.get acc.deletes e.2 with
    | some original =>
      { acc with deletes := AL.erase acc.deletes e.2, renames := AL.insert acc.renames e.2 (original, [e.1]) }
    | none =>
      match AL.get acc.renames e.2 with
      | some (orig, ren) => { acc with renames := AL.insert acc.renames e.2 (orig, ren ++ [e.1]) }
      | none => { acc with diffs := acc.diffs ++ [.added e.1] }

/-- `Version::diff`: `right` is `self`, `left` the other version -/
def diffStates (right : List (LPath × Digest)) (left : Option (List (LPath × Digest))) : List Diff :=
  match left with
  | none => right.map (fun e => .added e.1)
  | some l =>
    let a1 := l.foldl (diffLeftStep right) {}
    let a2 := right.foldl diffRightStep a1
    a2.diffs
      ++ a2.deletes.flatMap (fun e => e.2.map Diff.deleted)
      ++ a2.renames.map (fun e => .renamed (sortPaths e.2.1) (sortPaths e.2.2))

/-- `diff_versions(left, right)` -/
def Inv.diffVersions (inv : Inv) (left : Option Nat) (right : Nat) : Except Err (List Diff) :=
  if left == some right then .ok []
  else
    let l? : Except Err (Option Version) := match left with
      | some l => match inv.getVersion l with
        | some v => .ok (some v)
        | none => .error .notFound
      | none => if right > 1 then
          match inv.getVersion (right - 1) with
          | some v => .ok (some v)
          | none => .error .notFound
        else .ok none
    match l? with
    | .error e => .error e
    | .ok lv =>
      match inv.getVersion right with
      | none => .error .notFound
      | some rv => .ok (diffStates rv.state (lv.map (·.state)))

/-- one step of `list_file_versions`: `acc` = (content of the path in the version before, versions collected) -/
def Inv.fileVersionsStep (inv : Inv) (p : LPath) (acc : Option Digest × List Nat) (i : Nat) : Option Digest × List Nat :=
  match inv.versions[i]? with
  | none => acc
  | some v =>
    match v.lookup p with
    | some d => if acc.1 != some d then (some d, acc.2 ++ [i + 1]) else acc
    | none => if acc.1.isSome then (none, acc.2 ++ [i + 1]) else acc

/-- `list_file_versions`: the versions in which the path appeared, changed digest or disappeared -/
def Inv.fileVersions (inv : Inv) (p : LPath) : Except Err (List Nat) :=
  let vs := ((List.range inv.versions.length).foldl (inv.fileVersionsStep p) (none, [])).2
  if vs.isEmpty then .error .notFound else .ok vs

/-- `construct_state`: the version a path of version `vn` was last updated in — walk back while the
    previous version holds the same digest for the same path -/
def Inv.lastUpdate (inv : Inv) (vn : Nat) (p : LPath) : Nat :=
  match inv.getVersion vn with
  | none => vn
  | some v =>
    match v.lookup p with
    | none => vn
    | some d =>
      let rec go (fuel n : Nat) : Nat :=
        match fuel with
        | 0 => n
        | fuel + 1 =>
          if n ≤ 1 then n
          else match inv.getVersion (n - 1) with
            | some pv => if pv.lookup p == some d then go fuel (n - 1) else n
            | none => n
      go vn vn

end Rocfl
