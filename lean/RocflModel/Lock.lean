import RocflModel.Basic.Str
/-
  Model of the object lock (src/ocfl/lock.rs) and of the frame every locked operation of
  src/ocfl/repo.rs runs in (`let _lock = lock_manager.acquire(id)?; … ; drop(_lock)`), with a
  small-step interleaving semantics for several rocfl processes sharing one staging root.

  `acquire` is `OpenOptions::new().write(true).create_new(true)` on `<locks>/<sha256 id>.lock` — an
  atomic test-and-set on the set of existing lock files; `Drop` removes the file.
-/
namespace Rocfl.Lock

/-- phase of one process executing one locked operation on object `id` -/
inductive Phase
  | idle        -- before `acquire`
  | holding     -- lock file created, body running (all object mutations happen here)
  | done        -- body finished (ok, error or panic: `Drop` ran), lock file removed
  | refused     -- `acquire` failed: `LockAcquire` error, nothing was changed
  deriving DecidableEq, Repr

structure Proc where
  id : Nat          -- the object (its lock file name)
  phase : Phase
  mutations : Nat   -- object mutations performed so far
  deriving DecidableEq, Repr

structure Sys where
  locks : List Nat          -- lock files present in the locks directory
  procs : Nat → Proc        -- the processes (any number of them)

/-- one step of process `p` given the lock files present; returns the new lock set and the process -/
def stepProc (locks : List Nat) (p : Proc) : List Nat × Proc :=
  match p.phase with
  | .idle => if p.id ∈ locks then (locks, { p with phase := .refused }) else (p.id :: locks, { p with phase := .holding })
  | .holding => (locks.erase p.id, { p with phase := .done, mutations := p.mutations + 1 })
  | .done => (locks, p)
  | .refused => (locks, p)

/-- process number `i` takes a step -/
def step (s : Sys) (i : Nat) : Sys :=
  { locks := (stepProc s.locks (s.procs i)).1,
    procs := fun k => if k = i then (stepProc s.locks (s.procs i)).2 else s.procs k }

/-- any schedule: the sequence of process numbers taking the next step -/
def run (s : Sys) (schedule : List Nat) : Sys := schedule.foldl step s

/-- every process is about to run a locked operation on the object `ids k` -/
def init (ids : Nat → Nat) : Sys := { locks := [], procs := fun k => { id := ids k, phase := .idle, mutations := 0 } }

end Rocfl.Lock
