import RocflModel.Basic.Str
/-
  Model of the object lock (src/ocfl/lock.rs) and of the frame every locked operation of
  src/ocfl/repo.rs runs in (`let _lock = lock_manager.acquire(id)?; … ; drop(_lock)`), with a
  small-step interleaving semantics for several rocfl processes sharing one staging root.

  `acquire` is `OpenOptions::new().write(true).create_new(true)` on `<locks>/<sha256 id>.lock` — an
  atomic test-and-set on the set of existing lock files; `Drop` removes the file.
-/
namespace Rocfl.Lock

/-- phase of one process executing one locked operation on object `id` -/
inductive Phase
  | idle        -- before `acquire`
  | holding     -- lock file created, body running (all object mutations happen here)
  | done        -- body finished (ok, error or panic: `Drop` ran), lock file removed
  | refused     -- `acquire` failed: `LockAcquire` error, nothing was changed
  deriving DecidableEq, Repr

structure Proc where
  id : Nat          -- the object (its lock file name)
  phase : Phase
  mutations : Nat   -- object mutations performed so far
  deriving DecidableEq, Repr

structure Sys where
  locks : List Nat          -- lock files present in the locks directory
  procs : Nat → Proc        -- the processes (any number of them)

/-- one step of process `p` given the lock files present; returns the new lock set and the process -/
def stepProc (locks : List Nat) (p : Proc) : List Nat × Proc :=
  match p.phase with
  | .idle => if p.id ∈ locks then (locks, { p with phase := .refused }) else (p.id :: locks, { p with phase := .holding })
  | .holding => (locks.erase p.id, { p with phase := .done, mutations := p.mutations + 1 })
  | .done => (locks, p)
  | .refused => (locks, p)

/-- process number `i` takes a step -/
def step (s : Sys) (i : Nat) : Sys :=
  { locks := (stepProc s.locks (s.procs i)).1,
    procs := fun k => if k = i then (stepProc s.locks (s.procs i)).2 else s.procs k }

/-- any schedule: the sequence of process numbers taking the next step -/
def run (s : Sys) (schedule : List Nat) : Sys := schedule.foldl step s

/-- every process is about to run a locked operation on the object `ids k` -/
def init (ids : Nat → Nat) : Sys := { locks := [], procs := fun k => { id := ids k, phase := .idle, mutations := 0 } }

/-! ### with object states: a locked operation reads the object when it has the lock and writes the
    result of its body before releasing it -/

structure ProcS where
  id : Nat
  phase : Phase
  snap : Nat               -- the object state the body started from
  deriving DecidableEq, Repr

structure SysS where
  locks : List Nat
  store : Nat → Nat        -- object ↦ state
  procs : Nat → ProcS
  log : List Nat           -- the processes that completed, in the order in which they did

/-- process `i` (working on `ids i`, body `fs i`) takes a step -/
def stepS (fs : Nat → Nat → Nat) (s : SysS) (i : Nat) : SysS :=
  let p := s.procs i
  match p.phase with
  | .idle =>
    if p.id ∈ s.locks then { s with procs := fun k => if k = i then { p with phase := .refused } else s.procs k }
    else { s with locks := p.id :: s.locks,
                  procs := fun k => if k = i then { p with phase := .holding, snap := s.store p.id } else s.procs k }
  | .holding =>
    { locks := s.locks.erase p.id,
      store := fun o => if o = p.id then fs i p.snap else s.store o,
      procs := fun k => if k = i then { p with phase := .done } else s.procs k,
      log := s.log ++ [i] }
  | .done => s
  | .refused => s

def runS (fs : Nat → Nat → Nat) (s : SysS) (schedule : List Nat) : SysS := schedule.foldl (stepS fs) s

def initS (ids : Nat → Nat) (store0 : Nat → Nat) : SysS :=
  { locks := [], store := store0, procs := fun k => { id := ids k, phase := .idle, snap := 0 }, log := [] }

/-- the state object `o` would have if the operations in `log` that work on it ran one after the other -/
def serial (ids : Nat → Nat) (fs : Nat → Nat → Nat) (store0 : Nat → Nat) (log : List Nat) (o : Nat) : Nat :=
  (log.filter (fun i => ids i = o)).foldl (fun st i => fs i st) (store0 o)

end Rocfl.Lock
