import RocflModel.Basic.Str
/-
  Model of src/ocfl/store/layout.rs — function for function.

  * `validateCfg`  : the `validate()` methods (layout.rs:213-326, 691-737)
  * `mapObjectId`  : the `map_object_id` methods (layout.rs:406-640)
  * `toTuples`, `percentEncodeUpper`, `lowerPercentEscape` : helpers (643-689)

  The digest of the object id is an input (`hash`): the model is parametric in it.
  Unicode case mapping (`str::to_lowercase` / `to_uppercase`) is the parameter `CaseMap`.
-/
namespace Rocfl.Layout

open Rocfl

inductive Alg | md5 | sha1 | sha256 | sha512 | sha512_256 | blake2b512 | blake2b160 | blake2b256 | blake2b384
  deriving DecidableEq, Repr

/-- number of hex characters `DigestAlgorithm::hash_hex` produces -/
def Alg.hexLen : Alg → Nat
  | .md5 => 32 | .sha1 => 40 | .sha256 => 64 | .sha512 => 128 | .sha512_256 => 64
  | .blake2b512 => 128 | .blake2b160 => 40 | .blake2b256 => 64 | .blake2b384 => 96

inductive Pad | left | right deriving DecidableEq, Repr

/-- a *parsed* extension configuration (serde defaults already applied) -/
inductive Cfg
  | flatDirect
  | hashedNTuple (alg : Alg) (tupleSize numTuples : Nat) (shortRoot : Bool)
  | hashedNTupleId (alg : Alg) (tupleSize numTuples : Nat)
  | flatOmitPrefix (delim : Str)
  | nTupleOmitPrefix (delim : Str) (tupleSize numTuples : Nat) (pad : Pad) (reverse : Bool)
  deriving DecidableEq, Repr

/-- outcome of `map_object_id`: `refused` is the explicit `panic!("… cannot be mapped …")`,
    `panic` is any other Rust panic (slice out of range / not on a char boundary). -/
inductive MapErr | refused | panic deriving DecidableEq, Repr

/-- Unicode case mapping, a parameter of the model. -/
structure CaseMap where
  lower : Char → Str
  upper : Char → Str

def CaseMap.lowerS (cm : CaseMap) (s : Str) : Str := s.flatMap cm.lower
def CaseMap.upperS (cm : CaseMap) (s : Str) : Str := s.flatMap cm.upper

/-- layout.rs:705-714 -/
def validateTupleConfig (ts nt : Nat) : Bool :=
  !(ts > 32 || nt > 32) && !((ts == 0 || nt == 0) && (ts != 0 || nt != 0))

/-- layout.rs:716-737 -/
def validateDigestAlgorithm (alg : Alg) (ts nt : Nat) : Bool :=
  !(alg.hexLen < ts * nt)

/-- `validate_short_object_root` -/
def validateShortObjectRoot (alg : Alg) (ts nt : Nat) (short : Bool) : Bool :=
  !(short && alg.hexLen == ts * nt)

/-- the `validate()` methods; `true` = `Ok(())` -/
def validateCfg : Cfg → Bool
  | .flatDirect => true
  | .hashedNTuple alg ts nt short =>
      validateTupleConfig ts nt && validateDigestAlgorithm alg ts nt && validateShortObjectRoot alg ts nt short
  | .hashedNTupleId alg ts nt => validateTupleConfig ts nt && validateDigestAlgorithm alg ts nt
  | .flatOmitPrefix d => !d.isEmpty
  | .nTupleOmitPrefix d ts nt _ _ =>
      !d.isEmpty && !(ts < 1 || ts > 32) && !(nt < 1 || nt > 32)

/-- layout.rs:643-654.  `value[start..end]` panics (`none`) when `end > len`.
    Every call site passes an ASCII `value`, so bytes = chars. -/
def toTuples (value : Str) (ts : Nat) : Nat → Option Str
  | 0 => some []
  | n + 1 =>
    if value.length < ts then none
    else (toTuples (value.drop ts) ts n).map (fun r => value.take ts ++ '/' :: r)

/-- `NON_ALPHANUMERIC.remove(b'-').remove(b'_')`: bytes that are *not* encoded -/
def safeByte (b : Nat) : Bool :=
  (48 ≤ b && b ≤ 57) || (65 ≤ b && b ≤ 90) || (97 ≤ b && b ≤ 122) || b == 45 || b == 95

/-- `utf8_percent_encode(id, &NON_ALPHA_PLUS)`: upper-case hex escapes -/
def encByteUpper (b : Nat) : Str :=
  if safeByte b then [Char.ofNat b] else ['%', hexDigitUpper (b / 16), hexDigitUpper (b % 16)]

def percentEncodeUpper (id : Str) : Str := (utf8Bytes id).flatMap encByteUpper

/-- the loop of `lower_percent_escape` (layout.rs:668-681) with its `count` state -/
def lpeLoop : Nat → Str → Str
  | _, [] => []
  | count, c :: cs =>
    if count > 0 then asciiLower c :: lpeLoop (count - 1) cs
    else if c = '%' then c :: lpeLoop 2 cs
    else c :: lpeLoop 0 cs

/-- layout.rs:661-689: copy up to and including the first `%`, then run the loop with `count = 2` -/
def lowerPercentEscape : Str → Str
  | [] => []
  | c :: cs => if c = '%' then c :: lpeLoop 2 cs else c :: lowerPercentEscape cs

def max0003 : Nat := 100

/-- index (in chars) of the right-most occurrence of `needle` in `hay` (`str::rfind`) -/
def rfindAux (needle : Str) : Str → Nat → Option Nat → Option Nat
  | [], i, acc => if needle.isEmpty then some i else acc
  | c :: cs, i, acc =>
    rfindAux needle cs (i + 1) (if needle.isPrefixOf (c :: cs) then some i else acc)

def rfind (hay needle : Str) : Option Nat := rfindAux needle hay 0 none

/-- the body shared by 0006/0007 once `test_id` and `normalized_delimiter` are fixed
    (layout.rs:545-557, 607-619).  The index found in the (possibly lower-cased) `test_id` is a *byte*
    index that is then applied to the original `object_id` — modelled literally. -/
def omitBody (testId normDelim id : Str) : Except MapErr Str :=
  match rfind testId normDelim with
  | none => .ok id
  | some ci =>
    let index := utf8Len (testId.take ci)
    let length := utf8Len normDelim
    if utf8Len id == index + length then .error .refused
    else match dropBytes (index + length) id with
      | none => .error .panic
      | some rest => .ok rest

/-- `case_matters`, `normalized_delimiter` (layout.rs:522-528) and `test_id` (539-543) -/
def omitPrefix (cm : CaseMap) (delim id : Str) : Except MapErr Str :=
  if cm.lowerS delim != cm.upperS delim then omitBody (cm.lowerS id) (cm.lowerS delim) id
  else omitBody id delim id

/-- `format!("{:0>width$}")` / `{:0<width$}`: pads by *char* count -/
def padTo (p : Pad) (width : Nat) (s : Str) : Str :=
  let fill := List.replicate (width - s.length) '0'
  match p with
  | .left => fill ++ s
  | .right => s ++ fill

/-- `map_object_id` (layout.rs:406-640) -/
def mapObjectId (cm : CaseMap) (cfg : Cfg) (hash : Str) (id : Str) : Except MapErr Str :=
  match cfg with
  | .flatDirect => .ok id
  | .hashedNTuple _ ts nt short =>
    if ts == 0 then .ok hash else
    match toTuples hash ts nt with
    | none => .error .panic
    | some path =>
      if short then
        if ts * nt ≤ hash.length then .ok (path ++ hash.drop (ts * nt)) else .error .panic
      else .ok (path ++ hash)
  | .hashedNTupleId _ ts nt =>
    match toTuples hash ts nt with
    | none => .error .panic
    | some path =>
      let lower := lowerPercentEscape (percentEncodeUpper id)
      if lower.length ≤ max0003 then .ok (path ++ lower)
      else .ok (path ++ lower.take max0003 ++ '-' :: hash)
  | .flatOmitPrefix delim => omitPrefix cm delim id
  | .nTupleOmitPrefix delim ts nt pad rev =>
    if !id.all (fun c => 0x20 ≤ c.toNat && c.toNat ≤ 0x7f) then .error .refused else
    match omitPrefix cm delim id with
    | .error e => .error e
    | .ok idPart =>
      let padded := padTo pad (ts * nt) idPart
      let padded := if rev then padded.reverse else padded
      match toTuples padded ts nt with
      | none => .error .panic
      | some path => .ok (path ++ idPart)

end Rocfl.Layout
