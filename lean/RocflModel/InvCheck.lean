import RocflModel.Inventory
import RocflModel.ValidateNums
/-
  The inventory-level rules of rocfl's validator (src/ocfl/validate/serde.rs) as one executable
  function over an inventory that has already been read as JSON: strings are decoded, duplicate keys
  resolved, values have the right JSON types.  Every check names the lines it mirrors.

  What is *not* here: JSON typing errors, key presence, dates, users, the fixity block, and all rules
  that need the directory tree (they are judged by the oracle validator only, see DESIGN.md §5-C07).
-/
namespace Rocfl.InvCheck

open Rocfl

/-- `path.starts_with('/') || path.ends_with('/')` (serde.rs manifest E100, state E053) -/
def edgeSlash (p : Str) : Bool := p.head? == some '/' || p.getLast? == some '/'

/-- `ContentPath::try_from` / `LogicalPath::try_from` fail (E099 / E052): after trimming slashes a
    part is empty, `.` or `..`.  The empty path itself is accepted by `try_from`. -/
def illegalParts (p : Str) : Bool :=
  match parsePath p with
  | .ok _ => false
  | .error _ => true

/-- the three-way test of the visitors: edge slash, empty (after the repair), illegal part -/
def pathOk (p : Str) : Bool := !edgeSlash p && !p.isEmpty && !illegalParts p

/-- the prefixes of `p` that end right before a `/` — what the `rfind('/')` loop of
    `validate_non_conflicting` visits (it walks them from the longest to the shortest; only
    membership matters for the verdict) -/
def ancestorsAux : Str → Str → List Str
  | _, [] => []
  | pre, c :: cs => (if c = '/' then [pre.reverse] else []) ++ ancestorsAux (c :: pre) cs

def ancestors (p : Str) : List Str := ancestorsAux [] p

/-- `validate_non_conflicting`: no path has an ancestor that is itself a path (E101 / E095) -/
def conflictFree (paths : List Str) : Bool :=
  paths.all (fun p => (ancestors p).all (fun a => !paths.contains a))

/-- `all_paths.contains(path)` before each insert (E101 / E095 duplicates) -/
def noDup : List Str → Bool
  | [] => true
  | p :: ps => !ps.contains p && noDup ps

def isHexChar (c : Char) : Bool :=
  ('0' ≤ c ∧ c ≤ '9') ∨ ('a' ≤ c ∧ c ≤ 'f') ∨ ('A' ≤ c ∧ c ≤ 'F')

/-- `validate_digest`: `^[a-fA-F0-9]{n}$` with n = 128 (sha512) or 64 (sha256) -/
def digestOk (hexLen : Nat) (d : Str) : Bool := d.length == hexLen && d.all isHexChar

def lowerStr (s : Str) : Str := s.map asciiLower

/-- `contentDirectory`: not `.`/`..` (E018), no `/` (E017) -/
def contentDirOk : Option Str → Bool
  | none => true
  | some d => !(d == ['.'] || d == ['.', '.']) && !d.contains '/'

/-- `VersionNum::try_from`: `v` followed by digits, value ≥ 1 and within u32; the width is the
    number of digits when the first digit is `0`, else 0 -/
def parseVersionName (s : Str) : Option VNum :=
  match s with
  | 'v' :: ds =>
    if ds.isEmpty || !ds.all Char.isDigit then none
    else
      let n := ds.foldl (fun acc c => acc * 10 + (c.toNat - 48)) 0
      if n < 1 || n > u32Max then none
      else some { number := n, width := if ds.head? == some '0' then ds.length else 0 }
  | _ => none

structure AVersion where
  name : Str
  state : List (Str × List Str)     -- digest ↦ logical paths
  deriving Repr

structure AInv where
  hexLen : Nat                        -- 128 for sha512, 64 for sha256
  head : Str
  contentDir : Option Str
  manifest : List (Str × List Str)    -- digest ↦ content paths
  versions : List AVersion
  deriving Repr

def AInv.manifestPaths (i : AInv) : List Str := i.manifest.flatMap (·.2)
def AInv.manifestDigests (i : AInv) : List Str := i.manifest.map (·.1)
def AVersion.paths (v : AVersion) : List Str := v.state.flatMap (·.2)
def AVersion.digests (v : AVersion) : List Str := v.state.map (·.1)
def AInv.stateDigests (i : AInv) : List Str := i.versions.flatMap AVersion.digests

/-- insertion sort on numbers — the iteration order of the `BTreeSet<VersionNum>` -/
def insertSorted (n : Nat) : List Nat → List Nat
  | [] => [n]
  | m :: ms => if n ≤ m then n :: m :: ms else m :: insertSorted n ms

def sortNums (l : List Nat) : List Nat := l.foldr insertSorted []

/-- version names: all parse (E104), no gap from v1 on (E010), one padding width (E013), head parses
    (E104), is one of the versions (E010) and is the highest (E040) -/
def numberingOk (i : AInv) : Bool :=
  let parsed := i.versions.map (fun v => parseVersionName v.name)
  if parsed.any Option.isNone then false
  else
    let vs := parsed.filterMap (fun x => x)
    let nums := sortNums (vs.map (·.number))
    let gapFree := (ValidateNums.run nums).e010 == 0
    let onePadding := match vs with
      | [] => true
      | v :: rest => rest.all (fun w => w.width == v.width)
    match parseVersionName i.head with
    | none => false
    | some h => gapFree && onePadding && nums.contains h.number && nums.getLast? == some h.number

/-- manifest: digest syntax (E096), digests distinct up to case (E096), paths (E100/E099),
    no duplicate (E101), no conflict (E101) -/
def manifestOk (i : AInv) : Bool :=
  i.manifestDigests.all (digestOk i.hexLen) &&
  noDup (i.manifestDigests.map lowerStr) &&
  i.manifestPaths.all pathOk && noDup i.manifestPaths && conflictFree i.manifestPaths

/-- each version state: paths (E053/E052), no duplicate (E095), no conflict (E095) -/
def stateOk (v : AVersion) : Bool :=
  v.paths.all pathOk && noDup v.paths && conflictFree v.paths

/-- every state digest is a manifest key (E050); every manifest key is used by a state (E107) -/
def refsOk (i : AInv) : Bool :=
  i.stateDigests.all (fun d => i.manifestDigests.contains d) &&
  i.manifestDigests.all (fun d => i.stateDigests.contains d)

/-- the verdict on the modelled rules: `true` = no error -/
def check (i : AInv) : Bool :=
  contentDirOk i.contentDir && numberingOk i && manifestOk i && i.versions.all stateOk && refsOk i

end Rocfl.InvCheck
