import RocflModel.Script
import RocflModel.Commit
import RocflModel.ValidateNums
import RocflModel.Validator
import RocflModel.InvCheck
import RocflModel.Cli
import RocflModel.ListView
import RocflModel.S3
/-
  Driver side of the physical-layer protocol: prints the model's install-phase scripts and runs the
  Lean trace monitors on observed traces.
-/
namespace Driver
open Rocfl

def splitPath (s : Str) : Path := (String.ofList s).splitOn "/" |>.filter (· ≠ "") |>.map String.toList

def showPath (p : Path) : String := "/".intercalate (p.map String.ofList)

def showCall : FsCall → String
  | .mkdir p => "mkdir " ++ showPath p
  | .create p => "create " ++ showPath p
  | .trunc p => "trunc " ++ showPath p
  | .chmod p => "fchmod " ++ showPath p
  | .write p => "write " ++ showPath p
  | .copy s d => "copy " ++ showPath s ++ " " ++ showPath d
  | .rename s d => "rename " ++ showPath s ++ " " ++ showPath d
  | .unlink p => "unlink " ++ showPath p
  | .rmdir p => "rmdir " ++ showPath p

def parseCall (s : String) : Option FsCall :=
  match s.splitOn "|" with
  | ["mkdir", p] => (decodeArg p).map (fun x => .mkdir (splitPath x))
  | ["create", p] => (decodeArg p).map (fun x => .create (splitPath x))
  | ["trunc", p] => (decodeArg p).map (fun x => .trunc (splitPath x))
  | ["fchmod", p] => (decodeArg p).map (fun x => .chmod (splitPath x))
  | ["write", p] => (decodeArg p).map (fun x => .write (splitPath x))
  | ["unlink", p] => (decodeArg p).map (fun x => .unlink (splitPath x))
  | ["rmdir", p] => (decodeArg p).map (fun x => .rmdir (splitPath x))
  | ["copy", a, b] => do
      let x ← decodeArg a
      let y ← decodeArg b
      pure (.copy (splitPath x) (splitPath y))
  | ["rename", a, b] => do
      let x ← decodeArg a
      let y ← decodeArg b
      pure (.rename (splitPath x) (splitPath y))
  | _ => none

def hexLine (calls : List FsCall) : String :=
  ";".intercalate (calls.map showCall)

/-- `<n> <arg>*n` -/
def takeStrs : Nat → List String → Option (List Str × List String)
  | 0, rest => some ([], rest)
  | n + 1, t :: rest => do
    let x ← decodeArg t
    let (xs, r) ← takeStrs n rest
    pure (x :: xs, r)
  | _ + 1, [] => none

/-- `<k> (<digest> <n> <path>*n)*k` -/
def takeTable : Nat → List String → Option (List (Str × List Str) × List String)
  | 0, rest => some ([], rest)
  | k + 1, d :: n :: rest => do
    let d ← decodeArg d
    let n ← n.toNat?
    let (ps, r) ← takeStrs n rest
    let (es, r') ← takeTable k r
    pure ((d, ps) :: es, r')
  | _ + 1, _ => none

def takeVersions : Nat → List String → Option (List InvCheck.AVersion × List String)
  | 0, rest => some ([], rest)
  | m + 1, name :: k :: rest => do
    let name ← decodeArg name
    let k ← k.toNat?
    let (st, r) ← takeTable k rest
    let (vs, r') ← takeVersions m r
    pure ({ name := name, state := st } :: vs, r')
  | _ + 1, _ => none

def parseAInv (a : List String) : Option InvCheck.AInv :=
  match a with
  | hexLen :: head :: cdir :: "M" :: k :: rest => do
    let hexLen ← hexLen.toNat?
    let head ← decodeArg head
    let cdir ← if cdir == "~" then some none else (decodeArg cdir).map some
    let k ← k.toNat?
    let (man, r) ← takeTable k rest
    match r with
    | "V" :: m :: r2 => do
      let m ← m.toNat?
      let (vs, r3) ← takeVersions m r2
      if r3.isEmpty then pure { hexLen := hexLen, head := head, contentDir := cdir, manifest := man, versions := vs } else none
    | _ => none
  | _ => none

def b01 (b : Bool) : String := if b then "1" else "0"

def optHexC : Option Str → String
  | some s => encodeArg s
  | none => "~"

def plainOr (d : String) : Option Str → String
  | some s => String.ofList s
  | none => d

/-- the harness request line of a library call (`~` = option absent) -/
def showCliCall : Cli.Call → String
  | .createObject id spec alg cd w => s!"new {encodeArg id} {String.ofList alg} {encodeArg cd} {String.ofList w} {plainOr "-" spec}"
  | .copyExternal id srcs dst r => s!"cpx {encodeArg id} {b01 r} {encodeArg dst} " ++ " ".intercalate (srcs.map encodeArg)
  | .copyInternal id v srcs dst r => s!"cpi {encodeArg id} {plainOr "-" v} {b01 r} {encodeArg dst} " ++ " ".intercalate (srcs.map encodeArg)
  | .moveExternal id srcs dst => s!"mvx {encodeArg id} {encodeArg dst} " ++ " ".intercalate (srcs.map encodeArg)
  | .moveInternal id srcs dst => s!"mvi {encodeArg id} {encodeArg dst} " ++ " ".intercalate (srcs.map encodeArg)
  | .removeFiles id ps r => s!"rm {encodeArg id} {b01 r} " ++ " ".intercalate (ps.map encodeArg)
  | .reset id ps r => s!"resetp {encodeArg id} {b01 r} " ++ " ".intercalate (ps.map encodeArg)
  | .resetAll id => s!"resetall {encodeArg id}"
  | .commit id root u a m c p => s!"commit {encodeArg id} {optHexC root} {optHexC u} {optHexC a} {optHexC m} {plainOr "-" c} {b01 p}"
  | .upgradeObject id spec u a m c p => s!"upgrade {encodeArg id} {String.ofList spec} {optHexC u} {optHexC a} {optHexC m} {plainOr "-" c} {b01 p}"
  | .upgradeRepo spec => s!"upgraderepo {String.ofList spec}"
  | .purge id => s!"purge {encodeArg id}"
  | .catFile id v path => s!"cat {encodeArg id} {plainOr "-" v} {encodeArg path}"
  | .catStaged id path => s!"cat {encodeArg id} S {encodeArg path}"

def csv (s : String) : List Str := if s == "-" then [] else (s.splitOn ",").map String.toList

/-- `E001,E002` | `-` | `!` (the library call failed) -/
def parseVRes (s : String) : Option Cli.VResult := if s == "!" then none else some { errors := csv s }

def physStep (op : String) (a : List String) : String :=
  match op, a with
  | "script-newversion", [or, sd, v, alg, oldN, newN] =>
    match decodeArg or, decodeArg sd, decodeArg v, decodeArg alg with
    | some or, some sd, some v, some alg =>
      let up := if oldN == "-" then none else
        match decodeArg oldN, decodeArg newN with
        | some o, some n => some (o, n)
        | _, _ => none
      "ok " ++ encodeArg (hexLine (installNewVersion (splitPath or) (splitPath sd) v alg up)).toList
    | _, _, _, _ => "bad-arg"
  | "script-newobject", or :: sd :: parents =>
    match decodeArg or, decodeArg sd with
    | some or, some sd =>
      "ok " ++ encodeArg (hexLine (installNewObject (splitPath or) (splitPath sd)
        (parents.filterMap (fun p => (decodeArg p).map splitPath)))).toList
    | _, _ => "bad-arg"
  -- monitor-avoids <n protected dirs> <dirs…> <calls…>
  | "monitor-avoids", n :: rest =>
    let k := n.toNat?.getD 0
    let dirs := (rest.take k).filterMap (fun d => (decodeArg d).map splitPath)
    let calls := (rest.drop k).filterMap parseCall
    if calls.length != (rest.drop k).length then "bad-call"
    else if avoids dirs calls then "ok avoids"
    else
      match calls.find? (fun c => !(avoids dirs [c])) with
      | some c => "ok touches " ++ encodeArg (showCall c).toList
      | none => "ok touches"
  | "monitor-confined", n :: rest =>
    let k := n.toNat?.getD 0
    let dirs := (rest.take k).filterMap (fun d => (decodeArg d).map splitPath)
    let calls := (rest.drop k).filterMap parseCall
    if calls.length != (rest.drop k).length then "bad-call"
    else if confined dirs calls then "ok confined"
    else
      match calls.find? (fun c => !(confined dirs [c])) with
      | some c => "ok escapes " ++ encodeArg (showCall c).toList
      | none => "ok escapes"
  -- guard <rel> <n object roots> <roots…> : the decision of the new-object root guards
  | "script-guard", rel :: roots =>
    match decodeArg rel with
    | some rel =>
      if !safeRel rel then "ok outside"
      else
        let target := splitSlash rel
        let objs := roots.filterMap (fun r => (decodeArg r).map splitPath)
        if !notInsideObject objs target then "ok nested" else "ok safe"
    | none => "bad-arg"
  -- commit-fault <upgrade 0|1> <step label> <err|kill>: the model's verdict for a fault / kill at that step
  | "script-commitfault", [up, label, mode] =>
    let upgrade := up == "1"
    let st? : Option Commit.Step := match label with
      | "renameVersion" => some .renameVersion | "invTrunc" => some .invTrunc | "invChmod" => some .invChmod
      | "invCopy" => some .invCopy | "sideTrunc" => some .sideTrunc | "sideChmod" => some .sideChmod
      | "sideCopy" => some .sideCopy | "declCreate" => some .declCreate | "declWrite" => some .declWrite
      | "declUnlink" => some .declUnlink | _ => none
    let classify (s : Commit.ObjState) : String :=
      if s == Commit.oldState then "old" else if s == Commit.newState upgrade then "new"
      else if Commit.flaggedInvalid upgrade s then "invalid" else "silently-wrong"
    match label, st? with
    | "staging", _ => "ok old"
    | "mkdirParent", _ => "ok old"
    | "renameObject", _ => "ok old"
    | "cleanup", _ => "ok new"
    | _, some st =>
      match (Commit.steps upgrade).findIdx? (· == st) with
      | none => "ok not-a-step"
      | some k =>
        if mode == "kill" then "ok " ++ classify (Commit.execKill upgrade k)
        else "ok " ++ classify (Commit.execFault upgrade (some k)).1
    | _, none => "ok unmodelled"
  -- vnums <version numbers ascending…>: E010 results of the version-number check
  | "script-vnums", nums =>
    let vs := nums.filterMap String.toNat?
    let a := ValidateNums.run vs
    s!"ok e010={a.e010}"
  -- expected <corruption kind> <fixity 0|1>: the codes of the checks that answer to the corruption
  | "script-expected", [kind, fx] =>
    let c? : Option Validator.Corruption := match kind with
      | "content-change" => some .contentChange | "content-truncate" => some .contentTruncate
      | "content-extend" => some .contentExtend | "content-delete" => some .contentDelete
      | "content-add" => some .contentAdd | "content-rename" => some .contentRename | "content-swap" => some .contentSwap
      | "content-to-symlink" => some .contentToSymlink | "content-to-emptydir" => some .contentToEmptyDir
      | "dir-to-symlink" => some .dirToSymlink | "dir-to-emptydir" => some .dirToEmptyDir
      | "root-inv-byte" => some .rootInvByte | "ver-inv-byte" => some .verInvByte
      | "root-sidecar-digest" => some .rootSidecarDigest | "ver-sidecar-digest" => some .verSidecarDigest
      | "decl-delete" => some .declDelete | "decl-alter" => some .declAlter | "stray-root" => some .strayRoot
      | "stray-version" => some .strayVersion | "stray-content" => some .strayContent
      | "remove-version-dir" => some .removeVersionDir
      | "meta-to-symlink" => some .metaToSymlink | "meta-to-emptydir" => some .metaToEmptyDir | _ => none
    match c? with
    | some c => "ok " ++ ",".intercalate (Validator.expectedCodes c (fx == "1"))
    | none => "bad-arg"
  | "script-translate", args =>
    match args.mapM decodeArg with
    | none => "bad-arg"
    | some argv =>
      match Cli.translate argv with
      | some c => "ok " ++ showCliCall c
      | none => "ok usage"
  -- script-vexit objects <se> <result>*   |   script-vexit repo <se> <root> <hier> <result>*
  | "script-vexit", "objects" :: se :: rs => s!"ok {Cli.validateObjectsExit (csv se) [] (rs.map parseVRes)}"
  | "script-vexit", "repo" :: se :: root :: hier :: rs =>
    match parseVRes root, parseVRes hier with
    | some r, some h => s!"ok {Cli.validateRepoExit (csv se) [] r h (rs.map parseVRes)}"
    | _, _ => "bad-arg"
  -- script-vprint <info|warn|error> <number of errors> <number of warnings>: is the object's result printed
  | "script-vprint", [lvl, ne, nw] =>
    match (match lvl with | "info" => some Cli.Level.info | "warn" => some Cli.Level.warn | "error" => some Cli.Level.error | _ => none), ne.toNat?, nw.toNat? with
    | some l, some e, some w =>
      s!"ok {Cli.shouldPrint l { errors := List.replicate e ['E'], warnings := List.replicate w ['W'] }}"
    | _, _, _ => "bad-arg"
  -- script-lscontents <0|1 logical dirs> <path query|-> <logical path>*: what `ls <object> [<path>]` prints
  | "script-lscontents", dm :: q :: ps =>
    match (if q == "-" then some none else (decodeArg q).map some), ps.mapM decodeArg with
    | some query, some paths =>
      match ListView.listContents (dm == "1") query paths with
      | some out => "ok " ++ " ".intercalate (out.map encodeArg)
      | none => "ok bad-glob"
    | _, _ => "bad-arg"
  -- script-s3key <prefix as given> <relative path>: the key, and the key made relative again
  | "script-s3key", [pre, rel] =>
    match decodeArg pre, decodeArg rel with
    | some pre, some rel =>
      let p := S3.normPrefix pre
      let k := S3.keyOf p rel
      let back := match S3.relativize p k with
        | some r => encodeArg r
        | none => "panic"
      s!"ok {encodeArg k} {back}"
    | _, _ => "bad-arg"
  -- script-s3pages <page size> <prefix> <delim 0|1> <key>*: entries of the listing and the number of requests `list_prefix` makes
  | "script-s3pages", ps :: pfx :: delim :: keys =>
    match ps.toNat?, decodeArg pfx, keys.mapM decodeArg with
    | some ps, some pfx, some keys =>
      let all := S3.entries keys pfx (delim == "1")
      let pages := if ps == 0 then 0 else (all.length + ps - 1) / ps
      let got := S3.listAll all ps (all.length + 1) 0
      let showE : S3.Entry → String := fun e => match e with
        | .key k => "K:" ++ encodeArg k
        | .dir d => "D:" ++ encodeArg d
      s!"ok requests={max pages 1} " ++ " ".intercalate (got.map showE)
    | _, _, _ => "bad-arg"
  -- script-s3chunks <length>: sizes of the upload bodies
  | "script-s3chunks", [len] =>
    match len.toNat? with
    | some n =>
      if n ≤ S3.partSize then s!"ok single {n}"
      else
        let full := n / S3.partSize
        let rest := n % S3.partSize
        s!"ok multipart {full}x{S3.partSize}" ++ (if rest > 0 then s!"+{rest}" else "")
    | none => "bad-arg"
  -- script-s3commit <files> <upgrade 0|1> <fault index|->
  | "script-s3commit", [n, up, f] =>
    match n.toNat? with
    | some n =>
      let showR : S3.Req → String := fun r => match r with
        | .putVersionFile _ => "PUT-version-file" | .putRootInventory => "PUT-root-inventory" | .putRootSidecar => "PUT-root-sidecar"
        | .listRoot => "LIST-root" | .putDeclaration => "PUT-declaration" | .deleteOldDeclaration => "DELETE-old-declaration"
      let fault := if f == "-" then none else f.toNat?
      let (o, ok) := S3.exec n (up == "1") fault
      let cls := if o == S3.oldObj then "old" else if o == S3.newObj n (up == "1") then "new" else "other"
      s!"ok {cls} {b01 ok} " ++ ",".intercalate ((S3.script n (up == "1")).map showR)
    | none => "bad-arg"
  | "script-invcheck", args =>
    match parseAInv args with
    | none => "bad-arg"
    | some i =>
      s!"ok {if InvCheck.check i then "valid" else "invalid"} cd={b01 (InvCheck.contentDirOk i.contentDir)} num={b01 (InvCheck.numberingOk i)} man={b01 (InvCheck.manifestOk i)} st={b01 (i.versions.all InvCheck.stateOk)} refs={b01 (InvCheck.refsOk i)}"
  | _, _ => "bad-op"

end Driver
