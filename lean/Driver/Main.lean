import RocflModel.Basic.CaseTable
import RocflModel.Spec.LayoutSpec
import Driver.Hist
import Driver.Phys
import RocflModel.Json
/-
  Line-protocol driver: runs the *model* definitions (and the spec definitions, for the oracle)
  on the same request lines the Rust harness executes against rocfl.
-/
open Rocfl Rocfl.Layout

def parseAlg : String → Option Alg
  | "md5" => some .md5 | "sha1" => some .sha1 | "sha256" => some .sha256 | "sha512" => some .sha512
  | "sha512/256" => some .sha512_256 | "blake2b-512" => some .blake2b512 | "blake2b-160" => some .blake2b160
  | "blake2b-256" => some .blake2b256 | "blake2b-384" => some .blake2b384 | _ => none

def showMap : Except MapErr Str → String
  | .ok p => "ok:" ++ encodeArg p
  | .error .refused => "refused"
  | .error .panic => "panic"

/-- `layout <ext> <alg> <ts> <nt> <short> <delimhex> <pad> <rev> <hashhex> <idhex>` -/
def doLayout (args : List String) : String :=
  match args with
  | [ext, alg, ts, nt, short, delim, pad, rev, hash, id] =>
    match parseAlg alg, ts.toNat?, nt.toNat?, decodeArg delim, decodeArg hash, decodeArg id with
    | some alg, some ts, some nt, some delim, some hash, some id =>
      let short := short == "1"
      let rev := rev == "1"
      let pad := if pad == "right" then Pad.right else Pad.left
      let cfg? : Option Cfg := match ext with
        | "0002" => some .flatDirect
        | "0004" => some (.hashedNTuple alg ts nt short)
        | "0003" => some (.hashedNTupleId alg ts nt)
        | "0006" => some (.flatOmitPrefix delim)
        | "0007" => some (.nTupleOmitPrefix delim ts nt pad rev)
        | _ => none
      match cfg? with
      | none => "bad-op"
      | some cfg =>
        let mv := validateCfg cfg
        let sv := Spec.Layout.validCfg cfg
        let m := if mv then " map=" ++ showMap (mapObjectId tableCM cfg hash id) else ""
        let s := if sv then " map=" ++ showMap (Spec.Layout.map tableCM cfg hash id) else ""
        s!"model: cfg={if mv then "ok" else "invalid"}{m} | spec: cfg={if sv then "ok" else "invalid"}{s}"
    | _, _, _, _, _, _ => "bad-arg"
  | _ => "bad-op"

structure DState where
  hist : Driver.HState := {}

def step (st : DState) (line : String) : DState × String :=
  match line.trimAscii.toString.splitOn " " with
  | "layout" :: args => (st, doLayout args)
  | ["jsonstr", a] =>
    match decodeArg a with
    | some s =>
      let body := Rocfl.Json.escape s
      (st, s!"ok {encodeArg body} rt={if Rocfl.Json.unescape body == some s then 1 else 0}")
    | none => (st, "bad-arg")
  | ["jsonparse", a] =>
    match decodeArg a with
    | some body =>
      match Rocfl.Json.unescape body with
      | some s => (st, "ok " ++ encodeArg s)
      | none => (st, "err")
    | none => (st, "bad-arg")
  | op :: args =>
    if op.startsWith "script-" || op.startsWith "monitor-" then (st, Driver.physStep op args) else
    let (h, out) := Driver.histStep st.hist op args
    ({ st with hist := h }, if h.nondet then out ++ " #nondet" else out)
  | _ => (st, "bad-op")

partial def loop (h : IO.FS.Stream) (out : IO.FS.Stream) (st : DState) : IO Unit := do
  let line ← h.getLine
  if line.isEmpty then return ()
  let (st', resp) := step st line
  out.putStrLn resp
  loop h out st'

def main : IO Unit := do
  let out ← IO.getStdout
  loop (← IO.getStdin) out {}
  out.flush
