import RocflModel.Stage
import RocflModel.Diff
/-
  Driver side of the `history` protocol: runs `Rocfl.Stage` / `Rocfl.Inventory` model functions on the
  request lines and prints canonical responses.
-/
namespace Driver
open Rocfl

structure HState where
  repo : Repo := Repo.empty .v1_0
  /-- external source files: relative path ↦ (sha256, sha512) -/
  ext : List (Str × (Str × Str)) := []
  /-- staged repositories of the clients that are not active (`client k` swaps) -/
  others : List (Nat × List (Str × Obj)) := []
  client : Nat := 0
  /-- set once an operation's result depended on hash-map iteration order -/
  nondet : Bool := false
  clock : Nat := 0

def errName : Err → String
  | .notFound => "notFound" | .invalid => "invalid" | .illegalState => "illegalState"
  | .illegalOp => "illegalOp" | .lockHeld => "lockHeld" | .general => "general" | .corrupt => "corrupt"
  | .io => "io" | .closed => "closed" | .copyMove n => s!"copyMoveErrors:{n}" | .panic => "panic"

def outcome : Except Err α → String
  | .ok _ => "ok"
  | .error e => "err:" ++ errName e

def arg (s : String) : Str := (decodeArg s).getD []
def optArg (s : String) : Option Str := if s == "-" then none else decodeArg s

def parseSpec : String → Option SpecV
  | "1.0" => some .v1_0 | "1.1" => some .v1_1 | _ => none

def parseVer (s : String) : Option Nat :=
  if s == "-" then none
  else
    let t := if s.startsWith "v" then (s.drop 1).toString else s
    t.toNat?

def objAlg (st : HState) (id : Str) : DAlg :=
  match AL.get st.repo.staged id with
  | some o => o.inv.alg
  | none => match AL.get st.repo.main id with
    | some o => o.inv.alg
    | none => .sha512

def pick (a : DAlg) (d : Str × Str) : Str := match a with | .sha256 => d.1 | .sha512 => d.2

/-- describe an external source path from the driver's view of the scratch `src` directory -/
def mkSrc (st : HState) (alg : DAlg) (rel : Str) : Src :=
  match AL.get st.ext rel with
  | some d => .file (fileName rel) (pick alg d)
  | none =>
    let pre := rel ++ ['/']
    let fs := st.ext.filter (fun e => pre.isPrefixOf e.1)
    if fs.isEmpty then .missing
    else .dir (fileName rel) (fs.map (fun e => (e.1.drop pre.length, pick alg e.2)))

def joinHex (xs : List Str) (sep : String) : String := sep.intercalate (xs.map encodeArg)

/-- parse `v<digits>/<rest>` -/
def parseCPath (s : Str) : Option CPath :=
  match s with
  | 'v' :: t =>
    let ds := t.takeWhile (· != '/')
    match (String.ofList ds).toNat?, t.dropWhile (· != '/') with
    | some n, '/' :: rest => some (n, rest)
    | _, _ => none
  | _ => none

def showDigests (ds : List Digest) : String := "|".intercalate (ds.map String.ofList)

def sortStr (l : List String) : List String := (l.toArray.qsort (· < ·)).toList

def showView (inv : Inv) (vn : Nat) : String :=
  match inv.getVersion vn with
  | none => "err:notFound"
  | some v =>
    -- `construct_state` resolves a content path for every entry; a digest without one is `CorruptObject`
    if v.state.any (fun e => match inv.contentPathsForDigest e.2 (inv.lastUpdate vn e.1) (some e.1) with
        | .ok _ => false
        | .error _ => true) then "err:corrupt"
    else
    let rows := v.state.map (fun e =>
      let cps := match inv.contentPathsForDigest e.2 (inv.lastUpdate vn e.1) (some e.1) with
        | .ok cps => joinHex (cps.map inv.showCPath) "|"
        | .error _ => "!"
      s!"{encodeArg e.1}:{String.ofList e.2}:{cps}:v{inv.lastUpdate vn e.1}")
    "ok " ++ " ".intercalate (sortStr rows)

def showManifest (inv : Inv) (m : List (CPath × Digest)) : String :=
  "ok " ++ " ".intercalate (sortStr (m.map (fun e => s!"{encodeArg (inv.showCPath e.1)}:{String.ofList e.2}")))

def showDiff : Diff → String
  | .added p => "A:" ++ encodeArg p
  | .modified p => "M:" ++ encodeArg p
  | .deleted p => "D:" ++ encodeArg p
  | .renamed o r => "R:" ++ ",".intercalate (o.map encodeArg) ++ ">" ++ ",".intercalate (r.map encodeArg)

def showDiffs (r : Except Err (List Diff)) : String :=
  match r with
  | .ok ds => "ok " ++ " ".intercalate (sortStr (ds.map showDiff))
  | .error e => "err:" ++ errName e

def optHex (o : Option Str) : String := match o with | some s => "s" ++ encodeArg s | none => "n"

def showLog (inv : Inv) : String :=
  "ok " ++ " ".intercalate ((List.range inv.versions.length).map (fun i =>
    match inv.versions[i]? with
    | none => "?"
    | some v =>
      let (u, a) := match v.vmeta.user with
        | some (n, a) => (n, a)
        | none => (none, none)
      s!"v{i + 1}|{optHex u}|{optHex a}|{optHex v.vmeta.message}|{String.ofList v.vmeta.created}"))

def parseMeta (user addr msg created : String) : Meta :=
  { created := created.toList, message := optArg msg,
    user := match optArg user with
      | some n => some (some n, optArg addr)
      | none => none }

/-- `keep` built from the observed surviving content paths (hex, comma separated) -/
def parseKeep (inv : Inv) (spec : String) : Digest → List CPath :=
  if spec == "default" then inv.defaultKeep
  else
    let obs : List CPath := (spec.splitOn ",").filterMap (fun s =>
      if s == "-" || s == "" then none else (decodeArg s).bind parseCPath)
    fun d => (inv.headPathsFor d).filter (fun cp => obs.contains cp)

def now (st : HState) : Str := s!"t{st.clock}".toList

/-- the outcome of an internal copy/move depends on hash-map / hash-set iteration order -/
def internalNondet (r : Repo) (id : Str) (srcVer : Option Nat) (srcs : List Str) (dst : Str) (recursive : Bool)
    (t : Str) : Bool :=
  match getOrCreateStaged r id t with
  | .error _ => false
  | .ok (_, o) =>
    let srcV := srcVer.getD o.inv.head.number
    match o.inv.getVersion srcV with
    | none => false
    | some sv =>
      match resolveInternalMoves o.inv.headVersion sv srcs dst recursive with
      | .error _ => false
      | .ok acc => pairsInteract acc.toMove

def histStep (st : HState) (op : String) (a : List String) : HState × String :=
  let st := { st with clock := st.clock + 1 }
  match op, a with
  | "reset", _ => ({}, "ok")
  | "client", [k] =>
    let k := k.toNat?.getD 0
    let saved := AL.insert st.others st.client st.repo.staged
    let mine := (AL.get saved k).getD []
    ({ st with others := saved, client := k, repo := { st.repo with staged := mine } }, "ok")
  | "init", [spec] => ({ st with repo := Repo.empty ((parseSpec spec).getD .v1_0) }, "ok")
  | "mkfile", [rel, s256, s512] => ({ st with ext := AL.insert st.ext (arg rel) (s256.toList, s512.toList) }, "ok")
  | "new", [id, alg, cdir, width, spec] =>
    let dalg := if alg == "sha256" then DAlg.sha256 else DAlg.sha512
    if alg != "sha256" && alg != "sha512" then (st, "err:invalid") else
    match createObject st.repo (arg id) (parseSpec spec) dalg (arg cdir) (width.toNat?.getD 0) (now st) with
    | .ok r => ({ st with repo := r }, "ok")
    | .error e => (st, "err:" ++ errName e)
  | "cpx", id :: rec :: dst :: srcs =>
    let alg := objAlg st (arg id)
    let res := copyExternal st.repo (arg id) (srcs.map (fun s => mkSrc st alg (arg s))) (arg dst) (rec == "1") (now st)
    ({ st with repo := res.2.1 }, outcome res.1)
  | "mvx", id :: dst :: srcs =>
    let alg := objAlg st (arg id)
    let rels := srcs.map arg
    let res := copyExternal st.repo (arg id) (rels.map (mkSrc st alg)) (arg dst) true (now st)
    -- consumed source files disappear from the scratch directory
    let gone : List Str := (rels.zip res.2.2).flatMap (fun (rel, used) =>
      used.map (fun u => resolvePath (parentPath rel) u))
    ({ st with repo := res.2.1, ext := st.ext.filter (fun e => !gone.contains e.1) }, outcome res.1)
  | "cpi", id :: ver :: rec :: dst :: srcs =>
    let nd := internalNondet st.repo (arg id) (parseVer ver) (srcs.map arg) (arg dst) (rec == "1") (now st)
    let (res, r) := internalOp false st.repo (arg id) (parseVer ver) (srcs.map arg) (arg dst) (rec == "1") (now st)
    ({ st with repo := r, nondet := st.nondet || nd }, outcome res)
  | "mvi", id :: dst :: srcs =>
    let nd := internalNondet st.repo (arg id) none (srcs.map arg) (arg dst) true (now st)
    let (res, r) := internalOp true st.repo (arg id) none (srcs.map arg) (arg dst) true (now st)
    ({ st with repo := r, nondet := st.nondet || nd }, outcome res)
  | "rm", id :: rec :: paths =>
    let (res, r) := removeFiles st.repo (arg id) (paths.map arg) (rec == "1") (now st)
    ({ st with repo := r }, outcome res)
  | "resetp", id :: rec :: paths =>
    let (res, r) := resetPaths st.repo (arg id) (paths.map arg) (rec == "1") (now st)
    -- a failing reset stops at a hash-set-order dependent point after deleting staged files
    let nd := match res with | .error _ => true | .ok _ => false
    ({ st with repo := r, nondet := st.nondet || nd }, outcome res)
  | "resetall", [id] => ({ st with repo := resetAll st.repo (arg id) }, "ok")
  | "commit", [id, hasRoot, user, addr, msg, created, keepSpec] =>
    match AL.get st.repo.staged (arg id) with
    | none => (st, "err:general")
    | some o =>
      -- an observed manifest that is not a dedup outcome means the operation failed before
      -- `dedup_head`; the model then runs with its default choice (manifests are compared afterwards)
      let keep0 := parseKeep o.inv keepSpec
      let keep := if o.inv.keepAdmissible keep0 then keep0 else o.inv.defaultKeep
      let (res, r) := commit st.repo (arg id) (parseMeta user addr msg created) keep (hasRoot == "1")
      ({ st with repo := r }, outcome res)
  | "upgrade", [id, spec, hasLayout, user, addr, msg, created, keepSpec] =>
    let r0 := st.repo
    match getOrCreateStaged r0 (arg id) (now st) with
    | .error e => (st, "err:" ++ errName e)
    | .ok (_, o) =>
      let keep0 := parseKeep o.inv keepSpec
      let keep := if o.inv.keepAdmissible keep0 then keep0 else o.inv.defaultKeep
      let (res, r) := upgradeObject r0 (arg id) ((parseSpec spec).getD .v1_1) (parseMeta user addr msg created) keep (hasLayout == "1") (now st)
      ({ st with repo := r }, outcome res)
  | "upgraderepo", [spec] =>
    let t := (parseSpec spec).getD .v1_1
    if specLe t st.repo.repoSpec then (st, "err:illegalOp")
    else ({ st with repo := { st.repo with repoSpec := t } }, "ok")
  | "purge", [id] => ({ st with repo := purge st.repo (arg id) }, "ok")
  -- ------------------------------------------------------------ observations
  | "staged", [id] =>
    match AL.get st.repo.staged (arg id) with
    | none => (st, "err:notFound")
    | some o => (st, showView o.inv o.inv.head.number)
  | "ver", [id, v] =>
    match AL.get st.repo.main (arg id) with
    | none => (st, "err:notFound")
    | some o => (st, showView o.inv ((parseVer v).getD o.inv.head.number))
  | "cat", [id, v, path] =>
    match parsePath (arg path) with
    | .error e => (st, "err:" ++ errName e)
    | .ok p =>
      let r := if v == "S" then getStagedObjectFile st.repo (arg id) p else getObjectFile st.repo (arg id) (parseVer v) p
      match r with
      | .ok ds => (st, "ok " ++ showDigests ds)
      | .error e => (st, "err:" ++ errName e)
  | "diff", [id, l, rt] =>
    match AL.get st.repo.main (arg id) with
    | none => (st, "err:notFound")
    | some o => (st, showDiffs (o.inv.diffVersions (parseVer l) ((parseVer rt).getD 0)))
  | "diffstaged", [id] =>
    match AL.get st.repo.staged (arg id) with
    | none => (st, "ok ")
    | some o => (st, showDiffs (o.inv.diffVersions none o.inv.head.number))
  | "log", [id] =>
    match AL.get st.repo.main (arg id) with
    | none => (st, "err:notFound")
    | some o => (st, showLog o.inv)
  | "flog", [id, path] =>
    match AL.get st.repo.main (arg id), parsePath (arg path) with
    | none, _ => (st, "err:notFound")
    | _, .error e => (st, "err:" ++ errName e)
    | some o, .ok p =>
      match o.inv.fileVersions p with
      | .ok vs => (st, "ok " ++ ",".intercalate (vs.map (fun n => s!"v{n}")))
      | .error e => (st, "err:" ++ errName e)
  | "manifest", [id] =>
    match AL.get st.repo.main (arg id) with
    | none => (st, "err:notFound")
    | some o => (st, showManifest o.inv o.inv.manifest)
  | "smanifest", [id] =>
    match AL.get st.repo.staged (arg id) with
    | none => (st, "err:notFound")
    | some o => (st, showManifest o.inv o.inv.manifest)
  | "files", [id] =>
    match AL.get st.repo.main (arg id) with
    | none => (st, "err:notFound")
    | some o => (st, showManifest o.inv o.files)
  | "sfiles", [id] =>
    match AL.get st.repo.staged (arg id) with
    | none => (st, "err:notFound")
    | some o => (st, showManifest o.inv o.files)
  | "ls", [g] =>
    if g != "-" && (parseGlob (toByteChars (arg g))).isNone then (st, "err:wrapped") else
    let ids := st.repo.main.filter (fun e => g == "-" || globMatchX false (arg g) e.1 == some true)
    (st, "ok " ++ " ".intercalate (sortStr (ids.map (fun e => encodeArg e.1 ++ ":v" ++ toString e.2.inv.head.number))))
  | "lsstaged", [g] =>
    if g != "-" && (parseGlob (toByteChars (arg g))).isNone then (st, "err:wrapped") else
    let ids := st.repo.staged.filter (fun e => g == "-" || globMatchX false (arg g) e.1 == some true)
    (st, "ok " ++ " ".intercalate (sortStr (ids.map (fun e => encodeArg e.1 ++ ":v" ++ toString e.2.inv.head.number))))
  | "ids", _ =>
    (st, "ok main=" ++ ",".intercalate (sortStr (st.repo.main.map (fun e => encodeArg e.1)))
      ++ " staged=" ++ ",".intercalate (sortStr (st.repo.staged.map (fun e => encodeArg e.1))))
  | "heads", [id] =>
    let h (o : Option Obj) : String := match o with
      | some o => String.ofList o.inv.head.display
      | none => "-"
    (st, s!"ok main={h (AL.get st.repo.main (arg id))} staged={h (AL.get st.repo.staged (arg id))}")
  | "nondet", _ => (st, if st.nondet then "yes" else "no")
  | "stopcompare", _ => ({ st with nondet := true }, "ok")
  | _, _ => (st, "bad-op")

end Driver
