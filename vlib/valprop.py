"""Shared machinery for the validator properties (C06, C07, C17): building objects with the real
binary, corrupting / mutating copies, and asking rocfl's validator (library via the harness, CLI via the
binary) for its verdict."""
import hashlib, json, os, random, shutil, subprocess, time
from vlib import core, phys, histprop
from vlib.core import hx, unhx

TS = "2022-02-02T02:02:02Z"


class Lab:
    """a storage root under our control plus a live harness opened on it"""

    def __init__(self):
        self.hbin = core.build_harness()
        self.live = histprop.LiveH(self.hbin)
        self.live.ask("reset")
        r = self.live.ask("init 0002-flat-direct-storage-layout - 1.1 default")
        assert r == "ok", r
        self.root = os.path.join(self.live.base, "r1", "root")
        self.n = 0

    def close(self):
        self.live.close()

    def place(self, src_obj_dir):
        """copy an object directory into the storage root under a fresh name; returns (name, path)"""
        self.n += 1
        name = "t%d" % self.n
        dst = os.path.join(self.root, name)
        shutil.copytree(src_obj_dir, dst, symlinks=True)
        return name, dst

    def remove(self, name):
        p = os.path.join(self.root, name)
        if os.path.islink(p) or os.path.isfile(p):
            os.unlink(p)
        else:
            shutil.rmtree(p, ignore_errors=True)

    def validate(self, name, fixity=True):
        """-> ('ok', errors, warnings) | ('err', kind) | ('panic', msg)"""
        r = self.live.ask("validateat %s %d" % (hx(name), 1 if fixity else 0))
        if r.startswith("ok "):
            j = json.loads(r[3:])
            return ("ok", j["errors"], j["warnings"])
        if r.startswith("panic"):
            return ("panic", unhx(r.split(" ")[1]).decode("utf8", "replace") if " " in r else "")
        return ("err", r.split(" ")[0])


def build_objects(rng, n=4, max_extra=2):
    """objects written by the real binary: multi-version, deduplicated content, sha256/sha512, padded versions,
    custom content directory, spec upgrade.  Returns (sandbox, [object dir paths])"""
    sb = phys.Sandbox()
    files = {"a.txt": b"hello", "b.txt": b"world", "c.txt": b"hello", "d/e.txt": b"x" * 300, "d/f.bin": bytes(range(256)), "g": b""}
    for name, c in files.items():
        p = os.path.join(sb.src, name)
        os.makedirs(os.path.dirname(p), exist_ok=True)
        open(p, "wb").write(c)
    sb.run(["init", "-l", "0002-flat-direct-storage-layout"])
    objs = []
    for i in range(n):
        # every fourth object gives validate nothing to warn about: URI id, sha512, unpadded, full commit metadata
        clean = (i % 4 == 0)
        oid = ("urn:example:o%d" % i) if clean else "o%d" % i
        alg = ["sha512", "sha256"][i % 2]
        a = ["new", "-d", alg, "-z", str([0, 3][(i // 2) % 2])]
        if i % 3 == 1:
            a += ["-c", "data"]
        if i % 4 == 3:
            a += ["-v", "1.0"]
        sb.run(a + [oid])
        sb.run(["cp", "-r", oid] + [os.path.join(sb.src, f) for f in rng.sample(["a.txt", "b.txt", "c.txt", "d", "g"], 3)] + ["--", "/"])
        sb.run(["commit", "-c", TS, "-n", "Me", "-a", "mailto:me@example.org", "-m", "first", oid])
        for k in range(rng.randint(1, max_extra)):
            sb.run(["cp", oid, os.path.join(sb.src, rng.choice(["a.txt", "b.txt", "c.txt"])), "--", "n%d.txt" % k])
            if rng.random() < 0.5:
                sb.run(["mv", "-i", oid, "a.txt", "--", "renamed.txt"])
            if rng.random() < 0.4:
                sb.run(["rm", oid, "b.txt"])
            sb.run(["commit", "-c", TS, "-n", "Me"] + (["-a", "mailto:me@example.org"] if clean else []) + ["-m", "v%d" % (k + 2), oid])
        if i % 4 == 3:
            sb.run(["upgrade", "-v", "1.1", "-c", TS, oid])
        objs.append(os.path.join(sb.root, oid))
    return sb, objs


def inv_of(objdir):
    return json.load(open(os.path.join(objdir, "inventory.json")))


def rewrite_inventory(vdir, inv, alg=None, raw=None):
    """write inventory.json (from a JSON value or raw bytes) with a matching sidecar"""
    b = raw if raw is not None else json.dumps(inv).encode()
    open(os.path.join(vdir, "inventory.json"), "wb").write(b)
    alg = alg or (inv.get("digestAlgorithm") if isinstance(inv, dict) else None) or "sha512"
    if alg not in ("sha256", "sha512", "md5", "sha1"):
        alg = "sha512"
    for f in os.listdir(vdir):
        if f.startswith("inventory.json."):
            os.unlink(os.path.join(vdir, f))
    open(os.path.join(vdir, "inventory.json." + alg), "w").write("%s  inventory.json\n" % hashlib.new(alg, b).hexdigest())


def cli_validate(sb_bin, root, relpath, fixity=True, extra=()):
    """exit status of `rocfl validate -p <relpath>` on the storage root"""
    env = dict(os.environ, HOME=root + ".home", NO_COLOR="1")
    os.makedirs(env["HOME"], exist_ok=True)
    cmd = [sb_bin, "-r", root, "-S", "validate", "-p"] + ([] if fixity else ["-n"]) + list(extra) + [relpath]
    p = subprocess.run(cmd, stdout=subprocess.PIPE, stderr=subprocess.PIPE, env=env, timeout=120)
    return p.returncode, p.stdout.decode("utf8", "replace"), p.stderr.decode("utf8", "replace")
