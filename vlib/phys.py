"""Physical-layer engine: runs the real `rocfl` binary (built from /repo's working tree) as child
processes under strace, parses the system-call trace into canonical filesystem calls, and offers
single-fault / kill injection at any call (strace -e inject)."""
import hashlib, os, re, shutil, subprocess, tempfile
from vlib import core

MUT_SYSCALLS = ("openat,open,creat,write,pwrite64,writev,copy_file_range,sendfile,rename,renameat,renameat2,"
                "unlink,unlinkat,rmdir,mkdir,mkdirat,symlink,symlinkat,link,linkat,truncate,ftruncate,chmod,fchmod,fchmodat,"
                "chown,fchown,utimensat,fallocate")
WRITE_FLAGS = ("O_WRONLY", "O_RDWR", "O_CREAT", "O_TRUNC", "O_APPEND")


class Call:
    __slots__ = ("name", "nth", "paths", "kind", "flags", "ret", "err", "injected", "raw")

    def __init__(self, **kw):
        for k in self.__slots__:
            setattr(self, k, kw.get(k))

    def __repr__(self):
        return "%s#%s %s %s%s" % (self.name, self.nth, self.kind, self.paths, (" -> " + self.err) if self.err else "")


LINE = re.compile(r"^(\d+)\s+(\w+)\((.*)\)\s+=\s+(-?\d+|\?)(.*)$")
QUOTED = re.compile(r'"((?:[^"\\]|\\.)*)"')
FDPATH = re.compile(r"\b(-?\d+|AT_FDCWD)<((?:[^<>\\]|\\.)*)>")


def unq(s):
    return bytes(s, "utf-8").decode("unicode_escape").encode("latin-1").decode("utf-8", "replace")


def parse_trace(path):
    """-> list of Call (every traced syscall, in order, with per-name invocation numbers)"""
    calls, counts = [], {}
    pending = {}
    for line in open(path, errors="replace"):
        line = line.rstrip("\n")
        if " <unfinished ...>" in line:
            m = re.match(r"^(\d+)\s+(.*) <unfinished \.\.\.>$", line)
            if m:
                pending[m.group(1)] = m.group(2)
            continue
        m = re.match(r"^(\d+)\s+<\.\.\. (\w+) resumed>(.*)$", line)
        if m and m.group(1) in pending:
            line = "%s %s%s" % (m.group(1), pending.pop(m.group(1)), m.group(3))
        m = LINE.match(line)
        if not m:
            continue
        pid, name, args, ret, rest = m.groups()
        counts[name] = counts.get(name, 0) + 1
        c = Call(name=name, nth=counts[name], raw=line, ret=ret, err=None, injected="(INJECTED)" in rest, flags="", paths=[], kind=None)
        em = re.match(r"\s*(E\w+)", rest)
        if ret == "-1" and em:
            c.err = em.group(1)
        fds = FDPATH.findall(args)
        strs = [unq(x) for x in QUOTED.findall(args)]

        def absolute(p, base=None):
            if p.startswith("/"):
                return os.path.normpath(p)
            b = base
            if b is None:
                for fd, fp in fds:
                    if fd == "AT_FDCWD":
                        b = fp
            return os.path.normpath(os.path.join(b or "/", p))
        if name in ("openat", "open", "creat"):
            c.flags = args
            p = strs[0] if strs else ""
            base = None
            if name == "openat" and fds:
                base = unq(fds[0][1])
            c.paths = [absolute(p, base)]
            if name == "creat" or any(f in args for f in WRITE_FLAGS):
                c.kind = "create" if "O_EXCL" in args else ("trunc" if ("O_TRUNC" in args or "O_CREAT" in args) else "openw")
            else:
                c.kind = "read"
        elif name in ("write", "pwrite64", "writev", "ftruncate", "fchmod", "fchown", "fallocate"):
            c.paths = [unq(fds[0][1])] if fds else []
            c.kind = "write" if name in ("write", "pwrite64", "writev") else name
        elif name in ("copy_file_range", "sendfile"):
            ps = [unq(f[1]) for f in fds]
            c.paths = ps[:2] if name == "copy_file_range" else ps[:2][::-1]
            c.kind = "copy"
        elif name in ("rename", "renameat", "renameat2", "link", "linkat", "symlink", "symlinkat"):
            c.paths = [absolute(s) for s in strs[:2]]
            c.kind = "rename" if name.startswith("rename") else name.rstrip("at")
        elif name in ("unlink", "unlinkat", "rmdir"):
            base = unq(fds[0][1]) if (name == "unlinkat" and fds) else None
            c.paths = [absolute(strs[0], base)] if strs else []
            c.kind = "rmdir" if (name == "rmdir" or "AT_REMOVEDIR" in args) else "unlink"
        elif name in ("mkdir", "mkdirat"):
            base = unq(fds[0][1]) if (name == "mkdirat" and fds) else None
            c.paths = [absolute(strs[0], base)] if strs else []
            c.kind = "mkdir"
        elif name in ("truncate", "chmod", "fchmodat", "chown", "utimensat"):
            c.paths = [absolute(strs[0])] if strs else []
            c.kind = name
        else:
            c.kind = "other"
        calls.append(c)
    return calls


def mutating(c):
    """a call that changes (or tries to change) the filesystem"""
    if c.kind in (None, "read", "other"):
        return False
    if c.kind == "write" and c.paths and ((c.paths[0].startswith("/dev/") and not c.paths[0].startswith("/dev/shm/")) or c.paths[0].startswith("pipe:") or c.paths[0].startswith("socket:") or c.paths[0].startswith("/proc/")):
        return False
    return True


def fold(calls):
    """mutating calls with runs of write / copy on one file folded into one entry; failed probes
    (mkdir EEXIST, unlink ENOENT) are kept but marked"""
    out = []
    for c in calls:
        if not mutating(c):
            continue
        if c.kind in ("write", "copy") and out and out[-1].kind == c.kind and out[-1].paths == c.paths and not c.err and not out[-1].err:
            continue
        out.append(c)
    return out


class Sandbox:
    def __init__(self, ext_staging=False):
        base = os.environ.get("VERIF_TMP") or ("/dev/shm" if os.path.isdir("/dev/shm") else None)
        # the working directory sits several levels below the scratch directory so that a broken
        # implementation following `..` segments still lands inside the scratch area
        self.top = tempfile.mkdtemp(prefix="rocfl-verif-p.", dir=base)
        self.dir = os.path.join(self.top, "j1", "j2", "j3", "j4", "w")
        os.makedirs(self.dir)
        self.root = os.path.join(self.dir, "root")
        self.staging = os.path.join(self.dir, "staging") if ext_staging else os.path.join(self.root, "extensions", "rocfl-staging")
        self.ext = ext_staging
        self.src = os.path.join(self.dir, "src")
        self.home = os.path.join(self.dir, "home")
        for d in (self.src, self.home):
            os.makedirs(d)
        # empty directories next to the roots: an operation that cleans up empty parents must not reach them
        os.makedirs(os.path.join(self.dir, "outside-empty", "deep"))
        self.bin = core.build_rocfl_bin()
        self.n = 0

    def close(self):
        shutil.rmtree(self.top, ignore_errors=True)
        for tag in ("save", "snap"):
            shutil.rmtree(self.top + "." + tag, ignore_errors=True)

    def base_args(self):
        a = [self.bin, "-r", self.root, "-S"]
        if self.ext:
            a += ["-s", self.staging]
        return a

    def env(self):
        return dict(os.environ, HOME=self.home, XDG_CONFIG_HOME=os.path.join(self.home, ".config"), NO_COLOR="1", RUST_BACKTRACE="0")

    def run(self, args, trace=False, inject=None, stdin=None, timeout=60):
        """returns dict(rc, out, err, calls)"""
        cmd = self.base_args() + args
        tf = None
        if trace or inject:
            self.n += 1
            tf = os.path.join(self.dir, "trace.%d" % self.n)
            st = ["strace", "-f", "-y", "-qq", "-s", "0", "-o", tf, "-e", "trace=" + MUT_SYSCALLS]
            if inject:
                st += ["-e", "inject=" + inject]
            cmd = st + cmd
        try:
            p = subprocess.run(cmd, stdout=subprocess.PIPE, stderr=subprocess.PIPE, env=self.env(), cwd=self.dir, input=stdin, timeout=timeout)
        except subprocess.TimeoutExpired:
            # the caller decides what a command that does not finish means (it is run again once before that)
            subprocess.run(["pkill", "-9", "-f", self.top], stdout=subprocess.DEVNULL, stderr=subprocess.DEVNULL)
            calls = parse_trace(tf) if tf and os.path.exists(tf) else []
            if tf and os.path.exists(tf):
                os.unlink(tf)
            return dict(rc=124, out=b"", err="TIMEOUT after %ds" % timeout, calls=calls, timeout=True)
        calls = []
        if tf:
            calls = parse_trace(tf)
            os.unlink(tf)
        return dict(rc=p.returncode, out=p.stdout, err=p.stderr.decode("utf-8", "replace"), calls=calls)

    def rel(self, p):
        """canonical name of an absolute path: $STAGE/… , $ROOT/… , $SRC/… , $HOME/… or OUTSIDE:<path>"""
        for tag, d in (("$STAGE", self.staging), ("$ROOT", self.root), ("$SRC", self.src), ("$HOME", self.home)):
            if p == d or p.startswith(d + "/"):
                return tag + p[len(d):]
        if p == self.dir:
            return "$D"
        return "OUTSIDE:" + p

    def save(self, tag="save"):
        d = self.top + "." + tag
        shutil.rmtree(d, ignore_errors=True)
        shutil.copytree(self.dir, d, symlinks=True)
        return d

    def restore(self, d):
        for name in os.listdir(self.dir):
            p = os.path.join(self.dir, name)
            if os.path.isdir(p) and not os.path.islink(p):
                shutil.rmtree(p)
            else:
                os.unlink(p)
        for name in os.listdir(d):
            s = os.path.join(d, name)
            if os.path.isdir(s) and not os.path.islink(s):
                shutil.copytree(s, os.path.join(self.dir, name), symlinks=True)
            else:
                shutil.copy2(s, os.path.join(self.dir, name))


def tree(base, exclude=()):
    out = {}
    for d, dirs, files in os.walk(base):
        rel = os.path.relpath(d, base)
        if rel != "." and any(rel == e or rel.startswith(e + "/") for e in exclude):
            dirs[:] = []
            continue
        if rel != ".":
            out[rel] = "d"
        for f in files:
            r = os.path.normpath(os.path.join(rel, f))
            if any(r == e or r.startswith(e + "/") for e in exclude):
                continue
            p = os.path.join(d, f)
            out[r] = "l" if os.path.islink(p) else hashlib.sha256(open(p, "rb").read()).hexdigest()
    return out
