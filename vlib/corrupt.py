"""The single corruptions of property C06, applied to a copy of an object directory."""
import json, os, random, shutil

KINDS = ["content-change", "content-truncate", "content-extend", "content-delete", "content-add", "content-rename", "content-swap",
         "content-to-symlink", "content-to-emptydir", "dir-to-symlink", "dir-to-emptydir",
         "root-inv-byte", "ver-inv-byte", "root-sidecar-digest", "ver-sidecar-digest",
         "decl-delete", "decl-alter", "stray-root", "stray-version", "stray-content", "remove-version-dir",
         "meta-to-symlink", "meta-to-emptydir"]
STRUCTURAL = {k for k in KINDS if k not in ("content-change", "content-truncate", "content-extend", "content-swap")}


def content_files(obj):
    inv = json.load(open(os.path.join(obj, "inventory.json")))
    return sorted(p for ps in inv["manifest"].values() for p in ps), inv


def apply(obj, kind, rng, pos=None):
    """mutates the object directory in place; returns a description, or None if not applicable"""
    files, inv = content_files(obj)
    alg = inv["digestAlgorithm"]
    head = inv["head"]
    versions = sorted(inv["versions"])
    cdir = inv.get("contentDirectory", "content")
    nonempty = [f for f in files if os.path.getsize(os.path.join(obj, f)) > 0]

    def pick(l):
        return rng.choice(l) if l else None
    if kind == "content-change":
        f = pick(nonempty)
        if not f: return None
        p = os.path.join(obj, f)
        b = bytearray(open(p, "rb").read())
        i = rng.randrange(len(b)) if pos is None else pos % len(b)
        b[i] ^= 0x01
        open(p, "wb").write(b)
        return "%s byte %d of %s" % (kind, i, f)
    if kind == "content-truncate":
        f = pick(nonempty)
        if not f: return None
        p = os.path.join(obj, f)
        b = open(p, "rb").read()
        open(p, "wb").write(b[: rng.randrange(len(b))])
        return "%s %s" % (kind, f)
    if kind == "content-extend":
        f = pick(files)
        if not f: return None
        open(os.path.join(obj, f), "ab").write(b"\x00")
        return "%s %s" % (kind, f)
    if kind == "content-delete":
        f = pick(files)
        if not f: return None
        os.unlink(os.path.join(obj, f))
        return "%s %s" % (kind, f)
    if kind == "content-add":
        v = pick(versions)
        d = os.path.join(obj, v, cdir)
        os.makedirs(d, exist_ok=True)
        open(os.path.join(d, "added-by-corruption"), "w").write("new")
        return "%s %s/%s/added-by-corruption" % (kind, v, cdir)
    if kind == "content-rename":
        f = pick(files)
        if not f: return None
        os.rename(os.path.join(obj, f), os.path.join(obj, f + ".renamed"))
        return "%s %s" % (kind, f)
    if kind == "content-swap":
        digs = {}
        for d, ps in inv["manifest"].items():
            for p in ps:
                digs[p] = d
        pairs = [(a, b) for a in files for b in files if a < b and digs[a] != digs[b]]
        pr = pick(pairs)
        if not pr: return None
        a, b = (os.path.join(obj, x) for x in pr)
        t = a + ".tmp"
        os.rename(a, t); os.rename(b, a); os.rename(t, b)
        return "%s %s <-> %s" % (kind, pr[0], pr[1])
    if kind == "content-to-symlink":
        f = pick(files)
        if not f: return None
        p = os.path.join(obj, f)
        os.rename(p, p + ".moved-outside"); shutil.move(p + ".moved-outside", obj + ".stash")
        os.symlink(obj + ".stash", p)
        return "%s %s" % (kind, f)
    if kind == "content-to-emptydir":
        f = pick(files)
        if not f: return None
        p = os.path.join(obj, f)
        os.unlink(p); os.mkdir(p)
        return "%s %s" % (kind, f)
    if kind in ("dir-to-symlink", "dir-to-emptydir"):
        cands = [os.path.join(v, cdir) for v in versions if os.path.isdir(os.path.join(obj, v, cdir))] + [v for v in versions]
        d = pick(cands)
        if not d: return None
        p = os.path.join(obj, d)
        stash = obj + ".dstash"
        shutil.rmtree(stash, ignore_errors=True)
        shutil.move(p, stash)
        if kind == "dir-to-symlink":
            os.symlink(stash, p)
        else:
            os.mkdir(p)
        return "%s %s" % (kind, d)
    if kind in ("root-inv-byte", "ver-inv-byte"):
        where = obj if kind == "root-inv-byte" else os.path.join(obj, pick(versions))
        p = os.path.join(where, "inventory.json")
        if not os.path.isfile(p): return None
        b = bytearray(open(p, "rb").read())
        i = rng.randrange(len(b)) if pos is None else pos % len(b)
        old = b[i]
        b[i] = (old ^ 0x01) if rng.random() < 0.5 else rng.choice([x for x in (0x20, 0x22, 0x41, 0x7b, 0x30) if x != old])
        open(p, "wb").write(b)
        return "%s byte %d (%r -> %r) of %s" % (kind, i, chr(old), chr(b[i]), os.path.relpath(p, obj))
    if kind in ("root-sidecar-digest", "ver-sidecar-digest"):
        where = obj if kind == "root-sidecar-digest" else os.path.join(obj, pick(versions))
        p = os.path.join(where, "inventory.json." + alg)
        if not os.path.isfile(p): return None
        s = open(p).read()
        i = rng.randrange(len(s.split()[0])) if pos is None else pos % len(s.split()[0])
        c = s[i]
        how = rng.choice(["hex", "hex", "nonhex", "bit5", "bit", "delete", "insert"])
        if how == "hex":
            t = s[:i] + rng.choice([x for x in "0123456789abcdef" if x != c.lower()]) + s[i + 1:]
        elif how == "nonhex":
            t = s[:i] + rng.choice("gGzZ-_ .") + s[i + 1:]
        elif how == "bit5":
            # the case bit: for a letter this is the same digest (not a corruption), for a digit it is a control character
            if not c.isdigit():
                how = "hex"; t = s[:i] + rng.choice([x for x in "0123456789abcdef" if x != c.lower()]) + s[i + 1:]
            else:
                t = s[:i] + chr(ord(c) ^ 0x20) + s[i + 1:]
        elif how == "bit":
            k = rng.choice([0, 1, 2, 3, 4, 6])
            t = s[:i] + chr(ord(c) ^ (1 << k)) + s[i + 1:]
            if t.split()[0].lower() == s.split()[0].lower():
                t = s[:i] + rng.choice([x for x in "0123456789abcdef" if x != c.lower()]) + s[i + 1:]
        elif how == "delete":
            t = s[:i] + s[i + 1:]
        else:
            t = s[:i] + rng.choice("0123456789abcdef") + s[i:]
        open(p, "w", newline="").write(t)
        return "%s digit %d of %s (%s)" % (kind, i, os.path.relpath(p, obj), how)
    if kind in ("decl-delete", "decl-alter"):
        n = [f for f in os.listdir(obj) if f.startswith("0=")]
        if not n: return None
        p = os.path.join(obj, n[0])
        if kind == "decl-delete":
            os.unlink(p)
        else:
            b = bytearray(open(p, "rb").read())
            i = rng.randrange(len(b))
            b[i] ^= 0x01
            open(p, "wb").write(b)
        return "%s %s" % (kind, n[0])
    if kind == "stray-root":
        open(os.path.join(obj, "stray.txt"), "w").write("x")
        return kind
    if kind == "stray-version":
        open(os.path.join(obj, pick(versions), "stray.txt"), "w").write("x")
        return kind
    if kind == "stray-content":
        v = pick([v for v in versions if os.path.isdir(os.path.join(obj, v, cdir))])
        if not v: return None
        # first or last in the walk of the content directory, at the top or below an existing directory
        sub = [d for d, ds, fs in os.walk(os.path.join(obj, v, cdir))]
        where = rng.choice(sub)
        name = rng.choice(["stray-dir", "zzzz-last", "~last", "0-first", "zz/nested/empty"])
        os.makedirs(os.path.join(where, name), exist_ok=True)
        return kind + " (empty directory %s)" % os.path.relpath(os.path.join(where, name), obj)
    if kind in ("meta-to-symlink", "meta-to-emptydir"):
        # an inventory, a sidecar or the version declaration, in the object root or in a version directory
        cands = [f for f in os.listdir(obj) if os.path.isfile(os.path.join(obj, f))]
        for v in versions:
            vd = os.path.join(obj, v)
            if os.path.isdir(vd):
                cands += [os.path.join(v, f) for f in os.listdir(vd) if os.path.isfile(os.path.join(vd, f))]
        f = pick(sorted(cands))
        if not f: return None
        p = os.path.join(obj, f)
        if kind == "meta-to-symlink":
            mode = rng.choice(["copy-outside", "dangling", "to-root-copy"])
            if mode == "copy-outside":
                shutil.move(p, obj + ".stash")
                os.symlink(obj + ".stash", p)
            elif mode == "dangling":
                os.unlink(p); os.symlink("/nonexistent/target", p)
            else:
                os.unlink(p); os.symlink(os.path.join("..", os.path.basename(f)) if "/" in f else os.path.basename(f) + ".gone", p)
            return "%s %s (%s)" % (kind, f, mode)
        os.unlink(p); os.mkdir(p)
        return "%s %s" % (kind, f)
    if kind == "remove-version-dir":
        v = pick(versions)
        shutil.rmtree(os.path.join(obj, v))
        return "%s %s" % (kind, v)
    return None
