"""Single-fault, stop-request and kill enumeration over the system calls of real commits (C04, C05)."""
import hashlib, json, os, random, re, shutil, time
from vlib import core, phys, physprop, ocflcheck
from vlib.core import hx

TS = "2022-01-01T00:00:00Z"


def canon_file(path):
    b = open(path, "rb").read()
    if os.path.basename(path) == "inventory.json":
        try:
            j = json.loads(b)
            # which of several identical staged files survives deduplication is not determined
            # (hash-map order): the manifest is compared as digest -> number of content paths per version
            j["manifest"] = {k: sorted(p.split("/")[0] for p in v) for k, v in j.get("manifest", {}).items()}
            for blk in [v.get("state", {}) for v in j.get("versions", {}).values()]:
                for k in list(blk):
                    blk[k] = sorted(blk[k])
            return "inv:" + hashlib.sha256(json.dumps(j, sort_keys=True).encode()).hexdigest()[:16]
        except Exception:
            return "inv-unparsable:" + hashlib.sha256(b).hexdigest()[:12]
    if os.path.basename(path).startswith("inventory.json."):
        inv = os.path.join(os.path.dirname(path), "inventory.json")
        alg = os.path.basename(path).split(".")[-1]
        try:
            want = hashlib.new(alg, open(inv, "rb").read()).hexdigest()
            return "sidecar-ok" if b.split()[0].decode().lower() == want else "sidecar-MISMATCH"
        except Exception:
            return "sidecar-unreadable"
    return hashlib.sha256(b).hexdigest()[:16]


def canon_obj(sb, oroot):
    """semantic snapshot of the object at `oroot` (relative to the storage root), or {} if absent.
    Content files are recorded by version directory and content hash (not by name, see canon_file)."""
    base = os.path.join(sb.root, oroot)
    out = {}
    if not os.path.isdir(base):
        return out
    for d, dirs, files in os.walk(base):
        rel = os.path.relpath(d, base)
        parts = rel.split("/")
        in_content = len(parts) >= 2 and re.fullmatch(r"v\d+", parts[0]) is not None
        if rel != "." and not (in_content and len(parts) > 2):
            out[rel] = "d"
        for f in files:
            if in_content:
                k = "%s/%s/#%s" % (parts[0], parts[1], canon_file(os.path.join(d, f)))
                out[k] = out.get(k, 0) + 1
            else:
                out[os.path.normpath(os.path.join(rel, f))] = canon_file(os.path.join(d, f))
    return out


def step_label(sb, c, oroot, v):
    """which step of the install phase a call is (model's Step names), or 'staging' / 'cleanup'"""
    p = c.paths[-1] if c.paths else ""
    r = sb.rel(p)
    obj = "$ROOT/" + oroot
    if r.startswith("$STAGE"):
        if c.kind == "rename" and len(c.paths) == 2 and sb.rel(c.paths[1]).startswith("$ROOT"):
            pass
        else:
            return "staging"
    if c.kind == "rename":
        dst = sb.rel(c.paths[1])
        if dst == obj + "/" + v:
            return "renameVersion"
        if dst == obj:
            return "renameObject"
        return "staging"
    if r == obj + "/inventory.json":
        return {"trunc": "invTrunc", "fchmod": "invChmod", "copy": "invCopy"}.get(c.kind, "other")
    if r.startswith(obj + "/inventory.json."):
        return {"trunc": "sideTrunc", "fchmod": "sideChmod", "copy": "sideCopy"}.get(c.kind, "other")
    if r.startswith(obj + "/0=ocfl_object_"):
        return {"create": "declCreate", "write": "declWrite", "unlink": "declUnlink"}.get(c.kind, "other")
    if c.kind == "mkdir" and r.startswith("$ROOT"):
        return "mkdirParent"
    return "other"


class CommitCase:
    """a commit about to happen in a prepared sandbox state"""

    def __init__(self, sb, oid, args, kind):
        self.sb, self.oid, self.args, self.kind = sb, oid, args, kind


def prepare(rng, sb):
    """random short history ending right before a commit; returns CommitCase"""
    files = {"a.txt": b"hello", "b.txt": b"world", "c.txt": b"hello", "d/e.txt": b"x" * 50, "f.bin": b"\x00\x01",
             "back\\slash.txt": b"a name with a backslash", "d/sp ace\\x.txt": b"hello"}
    for n, c in files.items():
        p = os.path.join(sb.src, n)
        os.makedirs(os.path.dirname(p), exist_ok=True)
        open(p, "wb").write(c)
    layout = rng.choice(["0004-hashed-n-tuple-storage-layout", "0003-hash-and-id-n-tuple-storage-layout", "0002-flat-direct-storage-layout"])
    spec = rng.choice(["1.0", "1.1"])
    sb.run(["init", "-v", spec, "-l", layout])
    kind = rng.choice(["new-object", "new-version", "new-version", "upgrade"] if spec == "1.1" else ["new-object", "new-version", "new-version"])
    oid = "obj"
    objspec = "1.0" if kind == "upgrade" else None
    sb.run(["new"] + (["-v", objspec] if objspec else []) + (["-c", rng.choice(["data", "c-dir"])] if rng.random() < 0.35 else []) + ["-z", str(rng.choice([0, 0, 3])), oid])

    def stage(k):
        names = rng.sample(list(files), rng.randint(1, 3))
        if rng.random() < 0.5 and "back\\slash.txt" not in names:
            names.append("back\\slash.txt")
        sb.run(["cp", "-r", oid] + [os.path.join(sb.src, n) for n in names] + ["--", rng.choice(["/", "x%d/" % k, "n%d.txt" % k])])
        if rng.random() < 0.5:
            # a destination name with a backslash (an ordinary character in a logical path)
            sb.run(["cp", oid, os.path.join(sb.src, "b.txt"), "--", "dir\\w%d.txt" % k])
        if rng.random() < 0.3:
            sb.run(["rm", oid, rng.choice(["a.txt", "b.txt"])])
    stage(0)
    if kind != "new-object":
        for k in range(rng.randint(1, 2)):
            sb.run(["commit", "-c", TS, oid])
            stage(k + 1)
    # a second, untouched object must stay untouched
    sb.run(["new", "other"]); sb.run(["cp", "other", os.path.join(sb.src, "a.txt"), "--", "/"]); sb.run(["commit", "-c", TS, "other"])
    if kind == "upgrade":
        args = ["upgrade", "-v", "1.1", "-c", TS, oid]
    else:
        args = ["commit", "-c", TS, "-n", "me", "-m", "m", oid]
    return CommitCase(sb, oid, args, kind)


def object_root(sb, oid, layout_hint=None):
    for r, i in physprop.scan_objects(sb.root).items():
        if i.get("id") == oid:
            return r
    return None


def enumerate_case(case, mode, errnos, rep, tier, rng):
    """mode: 'err' | 'stop' | 'kill'.  Yields (fault description, observation dict)."""
    sb = case.sb
    S0 = sb.save()
    pre_objs = physprop.scan_objects(sb.root)
    oroot_before = object_root(sb, case.oid)
    base = sb.run(case.args, trace=True)
    if base["rc"] != 0:
        return
    oroot = object_root(sb, case.oid)
    v = physprop.scan_objects(sb.root)[oroot]["head"]
    T_new = canon_obj(sb, oroot)
    other_new = canon_obj(sb, object_root(sb, "other"))
    staged_dir = os.path.join(sb.staging, physprop.staged_dir(case.oid))
    sb.restore(S0)
    T_old = canon_obj(sb, oroot)
    staged_before = phys.tree(staged_dir) if os.path.isdir(staged_dir) else {}
    folded = [c for c in phys.fold(base["calls"]) if not c.err]
    allc = [c for c in base["calls"] if phys.mutating(c) and not c.err]
    order = {id(c): i for i, c in enumerate(allc)}
    first_of_run = {id(c) for c in folded}
    install_seq = None
    for c in allc:
        if step_label(sb, c, oroot, v) in ("renameVersion", "renameObject"):
            install_seq = order[id(c)]
    targets = allc if tier == "thorough" else folded
    if tier != "thorough" and len(targets) > 34:
        labels = [step_label(sb, c, oroot, v) for c in targets]
        # always: the install steps, and every call on an inventory or sidecar (also the staged ones)
        keep = [i for i, l in enumerate(labels) if l not in ("staging", "other") or any(os.path.basename(p).startswith("inventory") for p in targets[i].paths)]
        rest = [i for i in range(len(targets)) if i not in keep]
        keep += rng.sample(rest, min(len(rest), 34 - len(keep))) if len(keep) < 34 else []
        targets = [targets[i] for i in sorted(keep)]
    for c in targets:
        for errno in (errnos if mode == "err" else [None]):
            sb.restore(S0)
            if mode == "err":
                inj = "%s:error=%s:when=%d" % (c.name, errno, c.nth)
            elif mode == "stop":
                inj = "%s:signal=SIGINT:when=%d" % (c.name, c.nth)
            else:
                inj = "%s:signal=SIGKILL:when=%d" % (c.name, c.nth)
            r = sb.run(case.args, inject=inj)
            if r.get("timeout"):
                # once more from the same state: a command that twice does not finish within a minute hangs
                sb.restore(S0)
                r = sb.run(case.args, inject=inj)
                rep.count("timeout-retried:%s" % ("again" if r.get("timeout") else "finished"))
            if mode == "kill" and r["rc"] == 0:
                # a killed process does not exit with status 0: the call numbered `when` was not reached in this run
                # (the number of write calls varies a little from run to run), so nothing was injected
                rep.count("kill-not-delivered")
                continue
            T = canon_obj(sb, oroot)
            cls = "old" if T == T_old else ("new" if T == T_new else "other")
            label = step_label(sb, c, oroot, v)
            if label.endswith("Copy") and id(c) not in first_of_run:
                # a later copy_file_range of the same file (the end-of-file probe): the data is already there
                label += "Eof"
            if label in ("staging", "other") and install_seq is not None and order.get(id(c), -1) > install_seq:
                label = "cleanup"
            # did the fault land where the traced run made this call?  The fault is addressed by call number; the order of
            # the calls that clean up and copy staged files depends on hash order, the install steps come in a fixed order.
            # So: the install steps completed before the fault must be the ones of the traced run, and a fault aimed at
            # an install step must come after the same number of calls
            bi = next((k for k, x in enumerate(base["calls"]) if x is c), None)
            bfold = [x for x in phys.fold(base["calls"][:bi] if bi is not None else []) if not x.err]
            ifold = [x for x in phys.fold(r["calls"]) if not x.err and not getattr(x, "injected", False)]
            if bfold and (bfold[-1].name, bfold[-1].paths) == (c.name, c.paths):
                bfold = bfold[:-1]
            blab = [step_label(sb, x, oroot, v) for x in bfold]
            ilab = [step_label(sb, x, oroot, v) for x in ifold]
            steps = lambda ls: [l for l in ls if l not in ("staging", "other")]
            clab = step_label(sb, c, oroot, v)
            if mode == "kill":
                # (strace may log the call the process was killed in: one entry more, with the target's label)
                if len(ilab) == len(blab) + 1 and ilab[-1] == clab:
                    ilab = ilab[:-1]
                landed = bi is not None and steps(ilab) == steps(blab) and (clab in ("staging", "other") or len(ilab) == len(blab))
            else:
                # an injected error is marked in the trace: it must have been delivered, and to a call of the same step
                hit = [x for x in r["calls"] if getattr(x, "injected", False)]
                if not hit:
                    rep.count("fault-not-delivered:err")
                landed = bi is not None and bool(hit) and step_label(sb, hit[0], oroot, v) == clab and steps(ilab)[:len(steps(blab))] == steps(blab)
            if not landed:
                rep.count("fault-elsewhere:%s" % mode)
            obs = dict(call="%s#%d %s %s" % (c.name, c.nth, c.kind, sb.rel(c.paths[-1]) if c.paths else ""), label=label, inject=inj, landed=landed,
                       upgrade=(case.kind == "upgrade"),
                       rc=r["rc"], err=r["err"][-300:], cls=cls, kind=case.kind, T=T, T_old=T_old, T_new=T_new, oroot=oroot, v=v,
                       other_ok=(canon_obj(sb, object_root(sb, "other") or "") == other_new), staged_dir=staged_dir, calls=r["calls"],
                       hung=bool(r.get("timeout")))
            rep.count("fault:%s:%s:%s:%s" % (mode, case.kind, label, cls))
            rep.classes.add("%s|%s|%s|%s|rc%d" % (mode, case.kind, label, cls, min(r["rc"], 3) if r["rc"] >= 0 else -1))
            yield c, obs
    shutil.rmtree(S0, ignore_errors=True)


def judge_fault(sb, case, obs, mode):
    """C04 oracle for one injected error / stop request; returns failures"""
    fails = []
    what = "%s of a %s commit, `%s` at %s" % ({"err": "single failure", "stop": "stop request"}[mode], case.kind, obs["inject"], obs["call"])
    if obs.get("hung"):
        fails.append("%s: the command did not finish within a minute, twice" % what)
    if obs["cls"] == "other":
        diff = sorted(set(obs["T"].items()) ^ set(obs["T_old"].items()))[:4]
        fails.append("%s: the object is neither the old state nor the complete new version (rc=%d): %s" % (what, obs["rc"], diff))
    if obs["cls"] == "new":
        probs = ocflcheck.check_object(os.path.join(sb.root, obs["oroot"]), strict=True)
        if probs:
            fails.append("%s: the new version is installed but invalid: %s" % (what, probs[:2]))
    if mode == "err" and obs["rc"] == 0 and obs["cls"] != "new":
        fails.append("%s: success reported but the new version is not installed (state %s)" % (what, obs["cls"]))
    if not obs["other_ok"]:
        fails.append("%s: another object changed" % what)
    # never wedged: reset always works; a retry works when the old state is back and no lock is left
    lock_dir = os.path.join(sb.staging, "extensions", "rocfl-locks")
    stale = os.listdir(lock_dir) if os.path.isdir(lock_dir) else []
    snap = sb.save("snap")
    if obs["cls"] == "old" and not stale and case.kind != "new-object" or (obs["cls"] == "old" and not stale and case.kind == "new-object"):
        r = sb.run(case.args)
        if r.get("timeout"):
            # a machine under load: once more from the same state with a generous limit before calling it a hang
            sb.restore(snap)
            r = sb.run(case.args, timeout=300)
        if r["rc"] != 0 and case.kind == "upgrade" and "greater than or equal" in r["err"]:
            # the staged inventory already carries the new spec version: the pending upgrade is
            # completed by an ordinary commit
            r = sb.run(["commit", "-c", TS, case.oid])
        T = canon_obj(sb, obs["oroot"])
        if r["rc"] != 0 or T != obs["T_new"]:
            fails.append("%s: retrying the commit afterwards %s" % (what, "failed: " + r["err"][-200:] if r["rc"] else "did not produce the new version"))
        sb.restore(snap)
    r = sb.run(["reset", case.oid])
    if r.get("timeout"):
        sb.restore(snap)
        r = sb.run(["reset", case.oid], timeout=300)
    if r["rc"] != 0:
        fails.append("%s: resetting the staged changes afterwards failed: %s" % (what, r["err"][-200:]))
    elif os.path.isdir(obs["staged_dir"]):
        fails.append("%s: reset left the staged version behind" % what)
    shutil.rmtree(snap, ignore_errors=True)
    return fails


def judge_kill(sb, case, obs):
    """C05 oracle for one kill point"""
    fails = []
    what = "kill before `%s` of a %s commit" % (obs["call"], case.kind)
    v = obs["v"]
    for k, x in obs["T_old"].items():
        top = k.split("/")[0]
        if re.fullmatch(r"v\d+", top) and top != v and obs["T"].get(k) != x:
            fails.append("%s: previously committed %s changed or vanished" % (what, k))
    # every content of the version being committed exists in full in the staging area or in the object
    want = sorted(k.split("#")[1] for k in obs["T_new"] if k.startswith(v + "/") and "#" in k)

    def hashes(top):
        out = set()
        for d, _, files in os.walk(top):
            for f in files:
                if not f.startswith("inventory.json"):
                    out.add(hashlib.sha256(open(os.path.join(d, f), "rb").read()).hexdigest()[:16])
        return out
    have = hashes(os.path.join(obs["staged_dir"], v)) | hashes(os.path.join(sb.root, obs["oroot"], v))
    for x in want:
        if x not in have:
            fails.append("%s: a content file (sha256 %s…) of the version being committed is in full neither in staging nor in the object" % (what, x))
    # … and every content path the staged inventory lists for that version is a complete file in one of the two
    # places (a path listed but present in neither is content that a retried commit would lose)
    sinv_path = os.path.join(obs["staged_dir"], "inventory.json")
    if os.path.isfile(sinv_path):
        try:
            sinv = json.load(open(sinv_path))
        except ValueError:
            sinv = None
        if sinv and sinv.get("head") == v:
            alg = sinv.get("digestAlgorithm", "sha512")
            for dg, paths in sinv.get("manifest", {}).items():
                for pth in paths:
                    if not pth.startswith(v + "/"):
                        continue
                    ok_somewhere = False
                    for top in (obs["staged_dir"], os.path.join(sb.root, obs["oroot"])):
                        fp = os.path.join(top, pth)
                        if os.path.isfile(fp) and hashlib.new(alg, open(fp, "rb").read()).hexdigest() == dg.lower():
                            ok_somewhere = True
                    if not ok_somewhere:
                        fails.append("%s: the staged inventory lists %s but that file is complete neither in staging nor in the object" % (what, pth))
    if obs["cls"] == "other":
        r = sb.run(["validate", case.oid])
        if r["rc"] != 2:
            fails.append("%s: the object differs from the old and the new state but `validate` exits %d" % (what, r["rc"]))
    # the same commit run again once the dead process' lock is gone: if it reports success, what it leaves is the
    # complete new version (every version directory with its own inventory) - not something in between that validates
    if obs["cls"] in ("old", "other"):
        locks = os.path.join(sb.staging, "extensions", "rocfl-locks")
        if os.path.isdir(locks):
            for f in os.listdir(locks):
                os.unlink(os.path.join(locks, f))
        r = sb.run(case.args, timeout=300)
        if r["rc"] == 0:
            from vlib import ocflcheck
            oroot = object_root(sb, case.oid)
            probs = ocflcheck.check_object(os.path.join(sb.root, oroot), strict=True, fixity=True) if oroot else ["the object is not in the repository"]
            if probs:
                fails.append("%s: the commit run again afterwards reports success but leaves %s" % (what, probs[:2]))
    return fails


def run(rep, prop, tier, seed, proof_broken=False):
    rng = random.Random(seed)
    core.build_rocfl_bin()
    tier_eff = "thorough" if (tier == "thorough" or proof_broken) else "quick"
    budget = prop.BUDGET[tier_eff]
    t_end = time.time() + budget["seconds"]
    fails, lean_jobs = [], []
    for i in range(budget["commits"]):
        if time.time() > t_end:
            break
        sb = phys.Sandbox(ext_staging=rng.random() < 0.3)
        try:
            case = prepare(random.Random(rng.getrandbits(48)), sb)
            rep.evaluations += 1
            for mode in prop.MODES:
                errnos = ["EIO"] if tier_eff == "quick" else ["EIO", "ENOSPC", "EACCES"]
                for c, obs in enumerate_case(case, mode, errnos, rep, tier_eff if budget.get("all_calls") else "quick", rng):
                    fs = judge_kill(sb, case, obs) if mode == "kill" else judge_fault(sb, case, obs, mode)
                    for f in fs:
                        fails.append((f, dict(kind=case.kind, args=case.args, inject=obs["inject"], call=obs["call"])))
                    want = obs["cls"] if obs["cls"] != "other" else "invalid"
                    if mode in ("err", "kill") and obs.get("landed", True):
                        lean_jobs.append(("script-commitfault %d %s %s" % (int(obs["upgrade"]), obs["label"], mode), want,
                                          dict(kind=case.kind, inject=obs["inject"], call=obs["call"], label=obs["label"], observed=obs["cls"], rc=obs["rc"])))
        finally:
            sb.close()
    dis = []
    if lean_jobs:
        res = core.run_lines(core.drv_path(), [j[0] for j in lean_jobs])
        for (line, want, info), got in zip(lean_jobs, res):
            rep.count("lean-evaluations")
            g = got[3:] if got.startswith("ok ") else got
            if g in ("unmodelled", "not-a-step"):
                rep.count("unmodelled-step:" + info["label"])
                continue
            if g != want:
                dis.append(dict(model=g, observed_class=want, **info))
    rep.disagreements = len(dis)
    if lean_jobs:
        rep.sample(dict(request=lean_jobs[0][0], observed=lean_jobs[0][1]))
    seen = set()
    for f, info in fails:
        key = re.sub(r"#\d+|[0-9a-f]{8,}", "#", f)[:90]
        if key in seen or len(seen) >= 3:
            continue
        seen.add(key)
        rep.violation(dict(kind="oracle-failure", what=f, replay=info,
                           how="prepare the state with vlib/faultprop.prepare(seed) and run the commit under `strace -e inject=<inject>`"))
    if dis and not fails:
        rep.violation(dict(kind="correspondence-broken", correspondence=prop.CORRESPONDENCE, what=dis[0], disagreeing=len(dis)), no_input=True)
