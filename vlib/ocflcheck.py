"""An OCFL 1.0/1.1 validator written from the specification text (resources/main/specs/ocfl_1.1.md),
sharing no code with rocfl.  It judges directory trees on disk: `check_object(path)` returns a list of
problems (empty = valid), `check_root(path)` additionally walks the storage hierarchy.

`strict=True` adds the clauses of property C01 that go beyond the MUSTs: every version directory
carries its own inventory and sidecar, no stray entries, no empty directories."""
import hashlib, json, os, re

ALGS = {"md5": "md5", "sha1": "sha1", "sha256": "sha256", "sha512": "sha512", "blake2b-512": "blake2b",
        "blake2b-160": ("blake2b", 20), "blake2b-256": ("blake2b", 32), "blake2b-384": ("blake2b", 48), "sha512/256": "sha512_256"}
VERSION_RE = re.compile(r"^v(0*)([1-9][0-9]*)$")
HEXLEN = {"md5": 32, "sha1": 40, "sha256": 64, "sha512": 128, "blake2b-512": 128, "blake2b-160": 40, "blake2b-256": 64, "blake2b-384": 96, "sha512/256": 64}
SPEC_TYPES = {"https://ocfl.io/1.0/spec/#inventory": "1.0", "https://ocfl.io/1.1/spec/#inventory": "1.1"}


def digest_file(path, alg):
    a = ALGS[alg]
    h = hashlib.blake2b(digest_size=a[1]) if isinstance(a, tuple) else hashlib.new(a)
    with open(path, "rb") as fh:
        for chunk in iter(lambda: fh.read(1 << 16), b""):
            h.update(chunk)
    return h.hexdigest()


def no_dup_hook(pairs):
    seen = {}
    for k, v in pairs:
        if k in seen:
            raise ValueError("duplicate key " + k)
        seen[k] = v
    return seen


def spec_of(inv):
    t = inv.get("type") if isinstance(inv, dict) else None
    return SPEC_TYPES.get(t) if isinstance(t, str) else None


def rfc3339(x):
    """RFC 3339 section 5.6 date-time (T and Z in either case), with field ranges checked"""
    if not isinstance(x, str):
        return False
    m = re.match(r"^(\d{4})-(\d\d)-(\d\d)[Tt](\d\d):(\d\d):(\d\d)(\.\d+)?([Zz]|[+-](\d\d):(\d\d))$", x)
    if not m:
        return False
    y, mo, d, h, mi, sec = (int(m.group(i)) for i in range(1, 7))
    if not (1 <= mo <= 12 and h <= 23 and mi <= 59 and sec <= 60):
        return False
    dim = [31, 29 if (y % 4 == 0 and (y % 100 != 0 or y % 400 == 0)) else 28, 31, 30, 31, 30, 31, 31, 30, 31, 30, 31][mo - 1]
    if not 1 <= d <= dim:
        return False
    if m.group(9) is not None and not (int(m.group(9)) <= 23 and int(m.group(10)) <= 59):
        return False
    return True


def bad_path(p):
    return p == "" or p.startswith("/") or p.endswith("/") or any(s in ("", ".", "..") for s in p.split("/"))


def conflicts(paths):
    s = set(paths)
    for p in paths:
        parts = p.split("/")
        for i in range(1, len(parts)):
            if "/".join(parts[:i]) in s:
                return True
    return False


def check_inventory(inv, problems, where, obj_spec=None):
    """structural rules of section 3.5; returns (alg, head, versions dict) or None"""
    def bad(msg):
        problems.append("%s: %s" % (where, msg))
    if not isinstance(inv, dict):
        bad("inventory is not a JSON object"); return None
    for k in ("id", "type", "digestAlgorithm", "head", "manifest", "versions"):
        if k not in inv:
            bad("missing key " + k)
    if problems and any(p.startswith(where + ": missing") for p in problems):
        return None
    if not isinstance(inv["id"], str) or inv["id"] == "":
        bad("id must be a non-empty string")
    if not isinstance(inv["type"], str) or inv["type"] not in SPEC_TYPES:
        bad("unknown type " + str(inv["type"]))
    alg = inv["digestAlgorithm"]
    if not isinstance(alg, str) or alg not in ("sha256", "sha512"):
        bad("digestAlgorithm must be sha512 or sha256"); return None
    cdir = inv.get("contentDirectory", "content")
    if not isinstance(cdir, str) or "/" in cdir or cdir in ("", ".", ".."):
        bad("invalid contentDirectory %r" % (cdir,))
        cdir = "content"
    head = inv["head"]
    versions = inv["versions"]
    manifest = inv["manifest"]
    if not isinstance(versions, dict) or not isinstance(manifest, dict) or not isinstance(head, str):
        bad("wrong types"); return None
    nums = {}
    widths = set()
    for v in versions:
        m = VERSION_RE.match(v)
        if not m:
            bad("invalid version name " + v); continue
        nums[int(m.group(2))] = v
        widths.add(len(v) if m.group(1) else 0)
    if len(widths) > 1:
        bad("inconsistent zero padding")
    if not nums or sorted(nums) != list(range(1, len(nums) + 1)):
        bad("versions are not 1..n")
    elif nums[max(nums)] != head:
        bad("head %s is not the latest version" % head)
    hexlen = {"sha256": 64, "sha512": 128}[alg]
    seen_paths = set()
    lower = set()
    for dg, paths in manifest.items():
        if not re.fullmatch(r"[0-9a-fA-F]{%d}" % hexlen, dg):
            bad("manifest digest %s malformed" % dg[:16])
        if dg.lower() in lower:
            bad("manifest digest listed twice (case)")
        lower.add(dg.lower())
        if not isinstance(paths, list):
            bad("manifest entry is not a list of paths"); continue
        # an empty list is not ruled out by the specification (the digest then names no file at all)
        for p in paths:
            if not isinstance(p, str) or bad_path(p):
                bad("invalid content path %r" % (p,)); continue
            if p in seen_paths:
                bad("content path listed twice " + p)
            seen_paths.add(p)
            first = p.split("/")[0]
            if first not in versions:
                bad("content path %s not under a version directory" % p)
            elif len(p.split("/")) < 3 or p.split("/")[1] != cdir:
                bad("content path %s not under the content directory" % p)
    if conflicts(list(seen_paths)):
        bad("content paths conflict (file and directory)")
    used = set()
    for v, block in versions.items():
        if not isinstance(block, dict) or "created" not in block or "state" not in block:
            bad("version %s lacks created/state" % v); continue
        if not rfc3339(block["created"]):
            bad("version %s created is not RFC3339 with seconds and zone: %s" % (v, block["created"]))
        st = block["state"]
        if not isinstance(st, dict):
            bad("state of %s not an object" % v); continue
        lps = []
        for dg, paths in st.items():
            if dg not in manifest:
                bad("state digest of %s not in manifest" % v)
            used.add(dg.lower())
            if not isinstance(paths, list):
                bad("state entry of %s is not a list of paths" % v); continue
            for p in paths:
                if not isinstance(p, str) or bad_path(p):
                    bad("invalid logical path %r in %s" % (p, v))
                lps.append(p)
        if len(lps) != len(set(lps)):
            bad("logical path listed twice in " + v)
        if conflicts([p for p in lps if isinstance(p, str)]):
            bad("logical paths conflict in " + v)
        if "message" in block and not isinstance(block["message"], str):
            bad("message not a string")
        if "user" in block:
            u = block["user"]
            if not isinstance(u, dict) or not isinstance(u.get("name"), str):
                bad("user without name")
    for dg in lower - used:
        bad("manifest digest %s… is not referenced by any version state" % dg[:12])
    if "fixity" in inv:
        fx = inv["fixity"]
        if not isinstance(fx, dict):
            bad("fixity not an object")
        else:
            for falg, block in fx.items():
                if not isinstance(block, dict):
                    bad("fixity block %s not an object" % falg); continue
                flower, fpaths = set(), set()
                for dg, paths in block.items():
                    if dg.lower() in flower:
                        bad("fixity block %s lists a digest twice" % falg)
                    flower.add(dg.lower())
                    if falg in HEXLEN and not re.fullmatch(r"[0-9a-fA-F]{%d}" % HEXLEN[falg], dg):
                        bad("fixity digest malformed for " + falg)
                    if not isinstance(paths, list):
                        bad("fixity entry is not a list"); continue
                    for p in paths:
                        if not isinstance(p, str) or bad_path(p):
                            bad("invalid content path in fixity %r" % (p,)); continue
                        if p in fpaths:
                            bad("fixity block %s lists a path twice" % falg)
                        fpaths.add(p)
                        if p not in seen_paths:
                            bad("fixity path %s is not in the manifest" % p)
    return alg, head, nums, cdir, seen_paths


def same_state(inv_a, st_a, inv_b, st_b):
    """states recorded with different digest algorithms: same logical paths, each bound to the same content file"""
    def flat(inv, st):
        out = {}
        for dg, lps in (st or {}).items():
            cps = set(inv["manifest"].get(dg, []))
            for lp in lps if isinstance(lps, list) else []:
                out[lp] = cps
        return out
    a, b = flat(inv_a, st_a), flat(inv_b, st_b)
    return set(a) == set(b) and all(a[k] & b[k] for k in a)


def norm_state(st):
    if not isinstance(st, dict):
        return st
    return {k.lower(): sorted(v) if isinstance(v, list) else v for k, v in st.items()}


def read_inventory(d, problems, where):
    ip = os.path.join(d, "inventory.json")
    if not os.path.isfile(ip):
        problems.append("%s: inventory.json missing" % where); return None, None
    raw = open(ip, "rb").read()
    try:
        inv = json.loads(raw.decode("utf-8"), object_pairs_hook=no_dup_hook)
    except Exception as e:
        problems.append("%s: inventory.json does not parse: %s" % (where, e)); return None, raw
    return inv, raw


def check_sidecar(d, alg, raw, problems, where):
    sp = os.path.join(d, "inventory.json." + alg)
    if not os.path.isfile(sp):
        problems.append("%s: sidecar inventory.json.%s missing" % (where, alg)); return
    parts = open(sp, "r", errors="replace").read().split()
    if len(parts) != 2 or parts[1] != "inventory.json":
        problems.append("%s: sidecar malformed" % where); return
    if parts[0].lower() != hashlib.new(alg, raw).hexdigest():
        problems.append("%s: sidecar digest does not match inventory.json" % where)


def check_object(root, strict=True, fixity=True):
    problems = []
    if not os.path.isdir(root) or os.path.islink(root):
        return ["object root is not a directory"]
    entries = sorted(os.listdir(root))
    decl = [e for e in entries if e.startswith("0=")]
    if len(decl) != 1 or decl[0] not in ("0=ocfl_object_1.0", "0=ocfl_object_1.1"):
        problems.append("object version declaration missing or ambiguous: %s" % decl)
        return problems
    spec = decl[0].split("_")[-1]
    if open(os.path.join(root, decl[0]), "rb").read() != ("ocfl_object_%s\n" % spec).encode():
        problems.append("version declaration content wrong")
    # links are not allowed anywhere in an object (E090)
    for d, dirs, files in os.walk(root):
        for e in dirs + files:
            if os.path.islink(os.path.join(d, e)):
                problems.append("symbolic link " + os.path.relpath(os.path.join(d, e), root))
    inv, raw = read_inventory(root, problems, "root")
    if inv is None:
        return problems
    res = check_inventory(inv, problems, "root")
    if res is None:
        return problems
    alg, head, nums, cdir, cpaths = res
    if spec_of(inv) != spec:
        problems.append("inventory type does not match the version declaration")
    check_sidecar(root, alg, raw, problems, "root")
    allowed = {decl[0], "inventory.json", "inventory.json." + alg, "extensions", "logs"} | set(nums.values())
    for e in entries:
        if e not in allowed:
            problems.append("unexpected entry in object root: " + e)
        p = os.path.join(root, e)
        if e in nums.values() and (not os.path.isdir(p) or os.path.islink(p)):
            problems.append("version %s is not a directory" % e)
    ext = os.path.join(root, "extensions")
    if os.path.lexists(ext):
        if not os.path.isdir(ext) or os.path.islink(ext):
            problems.append("extensions is not a directory")
        else:
            for e in os.listdir(ext):
                if not os.path.isdir(os.path.join(ext, e)):
                    problems.append("file in the extensions directory: " + e)
    vinvs = {}
    for n, v in nums.items():
        vd = os.path.join(root, v)
        if not os.path.isdir(vd):
            problems.append("version directory %s missing" % v); continue
        ventries = sorted(os.listdir(vd))
        for e in ventries:
            if e in ("inventory.json", cdir) or e.startswith("inventory.json."):
                if e.startswith("inventory.json.") and e != "inventory.json." + alg and strict:
                    problems.append("unexpected entry %s/%s" % (v, e))
                continue
            # a file that is not part of the version is forbidden (E015); an extra directory is only discouraged (W002)
            if strict or not os.path.isdir(os.path.join(vd, e)) or os.path.islink(os.path.join(vd, e)):
                problems.append("unexpected entry %s/%s" % (v, e))
        vinv_path = os.path.join(vd, "inventory.json")
        if os.path.isfile(vinv_path):
            vraw = open(vinv_path, "rb").read()
            if v == head:
                if vraw != raw:
                    problems.append("head version inventory differs from the root inventory")
                check_sidecar(vd, alg, vraw, problems, v)
            else:
                vp = []
                try:
                    vinv = json.loads(vraw.decode("utf-8"), object_pairs_hook=no_dup_hook)
                    r2 = check_inventory(vinv, vp, v)
                    problems += vp
                    if r2 and isinstance(vinv, dict):
                        vinvs[n] = vinv
                        if vinv.get("head") != v:
                            problems.append("%s: inventory head is %s" % (v, vinv.get("head")))
                        if vinv.get("id") != inv.get("id"):
                            problems.append("%s: id differs" % v)
                        if vinv.get("contentDirectory", "content") != cdir:
                            problems.append("%s: contentDirectory differs" % v)
                        for vv, block in vinv.get("versions", {}).items():
                            if vv not in inv["versions"]:
                                problems.append("%s: version %s is not in the root inventory" % (v, vv)); continue
                            if vinv.get("digestAlgorithm") == alg:
                                if norm_state(block.get("state")) != norm_state(inv["versions"][vv].get("state")):
                                    problems.append("%s: state of %s differs from the root inventory" % (v, vv))
                            elif not same_state(vinv, block.get("state"), inv, inv["versions"][vv].get("state")):
                                problems.append("%s: state of %s differs from the root inventory (other algorithm)" % (v, vv))
                        check_sidecar(vd, vinv.get("digestAlgorithm", alg), vraw, problems, v)
                except Exception as e:
                    problems.append("%s: inventory does not parse: %s" % (v, e))
        elif strict:
            problems.append("version %s has no inventory.json" % v)
        if strict and not os.path.isfile(os.path.join(vd, "inventory.json." + alg)) and os.path.isfile(vinv_path) and v == head:
            problems.append("version %s has no sidecar" % v)
    # content files <-> manifest
    on_disk = set()
    for v in nums.values():
        cd = os.path.join(root, v, cdir)
        if os.path.isdir(cd):
            for d, dirs, files in os.walk(cd):
                if not dirs and not files:
                    problems.append("empty directory " + os.path.relpath(d, root))
                for f in files:
                    fp = os.path.join(d, f)
                    rel = os.path.relpath(fp, root)
                    if os.path.islink(fp) or not os.path.isfile(fp):
                        problems.append("not a regular file: " + rel)
                    on_disk.add(rel)
                for dd in dirs:
                    if os.path.islink(os.path.join(d, dd)):
                        problems.append("symlinked directory " + os.path.relpath(os.path.join(d, dd), root))
        elif os.path.lexists(cd):
            problems.append("%s/%s is not a directory" % (v, cdir))
    for p in sorted(cpaths - on_disk):
        problems.append("manifest path without content file: " + p)
    for p in sorted(on_disk - cpaths):
        problems.append("content file not in manifest: " + p)
    # spec versions never decrease along the version sequence; the root equals its head
    last = None
    for n in sorted(vinvs):
        t = spec_of(vinvs[n])
        if t and last and t < last:
            problems.append("OCFL spec version decreases at " + nums[n])
        last = t or last
    rt = spec_of(inv)
    if rt and last and rt < last:
        problems.append("root inventory uses an older OCFL version than a version inventory")
    # every earlier inventory's manifest covers exactly the files that existed at its version
    for n, vinv in vinvs.items():
        vman = {p for ps in vinv["manifest"].values() if isinstance(ps, list) for p in ps if isinstance(p, str)}
        upto = {nums[k] for k in nums if k <= n}
        there = {p for p in on_disk if p.split("/")[0] in upto}
        for p in sorted(there - vman):
            problems.append("%s: content file %s is not in this version's manifest" % (nums[n], p))
        for p in sorted(vman - there):
            problems.append("%s: manifest path %s has no content file" % (nums[n], p))
    if fixity:
        jobs = [(alg, inv["manifest"], "root")]
        for n, vinv in vinvs.items():
            if vinv.get("digestAlgorithm") != alg:
                jobs.append((vinv.get("digestAlgorithm"), vinv["manifest"], nums[n]))
        for who, i in [("root", inv)] + [(nums[n], vi) for n, vi in vinvs.items()]:
            fx = i.get("fixity")
            if isinstance(fx, dict):
                for falg, block in fx.items():
                    if falg in ALGS and isinstance(block, dict):
                        jobs.append((falg, block, who + " fixity"))
        cache = {}
        for jalg, table, who in jobs:
            for dg, paths in table.items():
                for p in paths if isinstance(paths, list) else []:
                    if not isinstance(p, str):
                        continue
                    fp = os.path.join(root, p)
                    if p in on_disk and os.path.isfile(fp):
                        if (p, jalg) not in cache:
                            cache[(p, jalg)] = digest_file(fp, jalg)
                        if cache[(p, jalg)] != dg.lower():
                            problems.append("%s: content digest mismatch (%s): %s" % (who, jalg, p))
    return problems


def is_object_root(d):
    try:
        return any(e.startswith("0=ocfl_object_") and os.path.isfile(os.path.join(d, e)) for e in os.listdir(d))
    except OSError:
        return False


def check_root(root, strict=True, fixity=True):
    """returns (problems of root/hierarchy, {object path: problems})"""
    problems = []
    objs = {}
    entries = sorted(os.listdir(root))
    decl = [e for e in entries if e.startswith("0=")]
    if len(decl) != 1 or decl[0] not in ("0=ocfl_1.0", "0=ocfl_1.1"):
        problems.append("storage root declaration missing or ambiguous: %s" % decl)
    else:
        v = decl[0].split("_")[-1]
        if open(os.path.join(root, decl[0]), "rb").read() != ("ocfl_%s\n" % v).encode():
            problems.append("root declaration content wrong")

    def walk(d, top):
        for e in sorted(os.listdir(d)):
            p = os.path.join(d, e)
            if top and (e == "extensions" or os.path.isfile(p)):
                continue
            if os.path.islink(p) or not os.path.isdir(p):
                problems.append("file in storage hierarchy: " + os.path.relpath(p, root)); continue
            if is_object_root(p):
                objs[os.path.relpath(p, root)] = check_object(p, strict, fixity)
                for sub, dirs, _ in os.walk(p):
                    for dd in dirs:
                        if sub != p or dd != "extensions":
                            if is_object_root(os.path.join(sub, dd)) and "extensions" not in os.path.relpath(os.path.join(sub, dd), p).split("/"):
                                problems.append("object nested inside object: " + os.path.relpath(os.path.join(sub, dd), root))
            elif not os.listdir(p):
                problems.append("empty directory in storage hierarchy: " + os.path.relpath(p, root))
            else:
                walk(p, False)
    walk(root, True)
    if decl and len(decl) == 1 and decl[0] in ("0=ocfl_1.0", "0=ocfl_1.1"):
        rv = decl[0].split("_")[-1]
        for op in objs:
            od = [e for e in os.listdir(os.path.join(root, op)) if e.startswith("0=ocfl_object_")]
            if od and od[0].split("_")[-1] > rv:
                problems.append("object %s declares a newer OCFL version than the storage root" % op)
    return problems, objs
