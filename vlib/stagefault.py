"""External cp / mv of the real binary in which one source cannot be read or moved: one system call that touches
a source file fails (unreadable source, rename across file systems, I/O error while copying).  Calls on rocfl's own
bookkeeping (staged inventory, lock, directory clean-up) are not failed here: C09 speaks of commands that fail for
some of their sources, not of arbitrary environment failures.

After such a partially failing staging operation the staged object must still be a truthful view (C09): every
logical path of the staged version is readable and returns bytes whose digest is the listed one, nothing
that was moved is lost; and whatever is then committed answers with the bytes of the listed digests (C02)
and validates (C01).  The judgement reads the staged inventory.json itself and hashes what `cat` returns;
it relies on nothing rocfl says about digests."""
import hashlib, json, os, random, re, shutil, time
from vlib import phys, physprop, faultprop

TS = faultprop.TS
BUDGET = {"quick": dict(cases=4, seconds=40, per_op=8), "thorough": dict(cases=30, seconds=600, per_op=1000)}


def sha(alg, b):
    return hashlib.new(alg, b).hexdigest()


class StageCase:
    def __init__(self, sb, oid, ops, alg):
        self.sb, self.oid, self.ops, self.alg = sb, oid, ops, alg


def prepare(rng, sb):
    """an object with one or two committed versions and some staged changes; returns the candidate operations"""
    files = {"a.txt": b"alpha", "b.txt": b"beta", "c.txt": b"alpha", "d/e.txt": b"e" * 40, "d/f.bin": b"\x00\x01\x02",
             "m1.txt": b"move one", "m2.txt": b"move two", "mdir/m3.txt": b"move three", "mdir/sub/m4.txt": b"alpha",
             "n1.txt": b"new one", "n2.txt": b"beta"}
    for n, c in files.items():
        p = os.path.join(sb.src, n)
        os.makedirs(os.path.dirname(p), exist_ok=True)
        open(p, "wb").write(c)
    layout = rng.choice(["0004-hashed-n-tuple-storage-layout", "0002-flat-direct-storage-layout"])
    alg = rng.choice(["sha256", "sha512"])
    sb.run(["init", "-l", layout])
    oid = "obj"
    sb.run(["new", "-d", alg, oid])
    src = lambda n: os.path.join(sb.src, n)
    sb.run(["cp", "-r", oid, src("a.txt"), src("b.txt"), src("d"), "--", "/"])
    if rng.random() < 0.8:
        sb.run(["commit", "-c", TS, oid])
        sb.run(["cp", oid, src("c.txt"), "--", "s/c.txt"])
        if rng.random() < 0.5:
            sb.run(["cp", oid, src("n2.txt"), "--", "s/n2.txt"])
        if rng.random() < 0.4:
            sb.run(["commit", "-c", TS, oid])
            sb.run(["cp", oid, src("n1.txt"), "--", "s/late.txt"])
    ops = [
        ["cp", oid, src("n1.txt"), src("n2.txt"), "--", "new/"],
        ["cp", oid, src("n1.txt"), "--", "a.txt"],                      # overwrite an existing path
        ["cp", "-r", oid, src("mdir"), src("m1.txt"), "--", "copied/"],
        ["mv", oid, src("m1.txt"), "--", "a.txt"],                      # move onto an existing path
        ["mv", oid, src("m1.txt"), src("m2.txt"), "--", "moved/"],
        ["mv", oid, src("mdir"), src("n1.txt"), "--", "moved-dir/"],
        ["mv", oid, src("m2.txt"), "--", "s/c.txt"],                    # onto a path added in the staged version
    ]
    return StageCase(sb, oid, ops, alg), set(sha("sha256", c) for c in files.values())


def staged_inventory(sb, oid):
    p = os.path.join(sb.staging, physprop.staged_dir(oid), "inventory.json")
    if not os.path.exists(p):
        return None, None
    try:
        return json.load(open(p)), None
    except ValueError as e:
        return None, "the staged inventory.json cannot be parsed (%s)" % e


def judge_staged(sb, case, what):
    """C09: the staged version is a truthful view"""
    fails = []
    inv, err = staged_inventory(sb, case.oid)
    if err:
        return [what + ": " + err], None
    if inv is None:
        return [], None
    alg = inv["digestAlgorithm"]
    head = inv["head"]
    state = inv["versions"][head]["state"]
    for digest, paths in sorted(state.items()):
        for p in paths:
            r = sb.run(["cat", "-S", case.oid, p])
            if r["rc"] != 0:
                fails.append("%s: staged path %r is listed but `cat -S` fails: %s" % (what, p, r["err"].strip()[-160:]))
            elif sha(alg, r["out"]) != digest.lower():
                fails.append("%s: staged path %r returns bytes whose %s digest is not the listed one" % (what, p, alg))
    return fails, inv


def judge_no_loss(sb, case, what, inv, contents_before):
    """whatever was in the source directory before a (failing) move is still there or is staged"""
    have = set()
    for top in (sb.src, sb.root, sb.staging):
        for d, _, fs in os.walk(top):
            for f in fs:
                have.add(sha("sha256", open(os.path.join(d, f), "rb").read()))
    lost = contents_before - have
    return ["%s: %d source file(s) are neither in the source directory nor in the staging area any more" % (what, len(lost))] if lost else []


def judge_committed(sb, case, what):
    """C02 / C01: commit what is staged; every listed path of the new head returns the bytes of its digest; the object validates"""
    fails = []
    inv, err = staged_inventory(sb, case.oid)
    if inv is None:
        return fails
    r = sb.run(["commit", "-c", TS, case.oid])
    if r["rc"] != 0:
        if "No staged changes" in r["err"] or "no staged" in r["err"].lower():
            return fails
        return ["%s: the staged object can no longer be committed: %s" % (what, r["err"].strip()[-200:])]
    oroot = faultprop.object_root(sb, case.oid)
    if oroot is None:
        return ["%s: after the commit the object is not in the repository" % what]
    cinv = json.load(open(os.path.join(sb.root, oroot, "inventory.json")))
    alg = cinv["digestAlgorithm"]
    for digest, paths in sorted(cinv["versions"][cinv["head"]]["state"].items()):
        for p in paths:
            c = sb.run(["cat", case.oid, p])
            if c["rc"] != 0:
                fails.append("%s: committed %s lists %r but `cat` fails: %s" % (what, cinv["head"], p, c["err"].strip()[-160:]))
            elif sha(alg, c["out"]) != digest.lower():
                fails.append("%s: committed %s path %r returns bytes whose %s digest is not the listed one" % (what, cinv["head"], p, alg))
    v = sb.run(["validate", case.oid])
    if v["rc"] != 0:
        codes = sorted(set(re.findall(r"\[(E\d+)\]", v["out"].decode("utf8", "replace"))))
        fails.append("%s: the version committed afterwards is not valid (%s)" % (what, ",".join(codes) or "rc %d" % v["rc"]))
    return fails


def run(rep, tier, seed, committed=False, errnos=("EIO",)):
    """returns a list of (failure text, replay dict)"""
    rng = random.Random(seed + 17)
    budget = BUDGET["thorough" if tier == "thorough" else "quick"]
    t_end = time.time() + budget["seconds"]
    out = []
    for i in range(budget["cases"]):
        if time.time() > t_end:
            break
        case_seed = rng.getrandbits(48)
        sb = phys.Sandbox(ext_staging=(i % 3 == 2))
        try:
            case, contents = prepare(random.Random(case_seed), sb)
            S0 = sb.save()
            ops = case.ops if tier == "thorough" else rng.sample(case.ops, 5)
            for op in ops:
                if time.time() > t_end:
                    break
                sb.restore(S0)
                base = sb.run(op, trace=True)
                rep.evaluations += 1
                shown = " ".join(os.path.relpath(a, sb.src) if a.startswith(sb.src) else a for a in op)
                # the fault-free run must itself leave a truthful view
                f0, inv = judge_staged(sb, case, "`%s` (no fault)" % shown)
                out += [(f, dict(case_seed=case_seed, op=shown, inject=None)) for f in f0]
                targets, last = [], None
                for c in base["calls"]:
                    if c.err or not any(p == sb.src or p.startswith(sb.src + "/") for p in c.paths) or c.kind in ("rmdir", "mkdir"):
                        continue
                    if c.kind == "copy" and last is not None and last.kind == "copy" and last.paths == c.paths:
                        continue
                    targets.append(c)
                    last = c
                if len(targets) > budget["per_op"]:
                    targets = rng.sample(targets, budget["per_op"])
                for c in targets:
                    for errno in (errnos if c.kind != "rename" else tuple(errnos) + ("EXDEV",)):
                        sb.restore(S0)
                        inj = "%s:error=%s:when=%d" % (c.name, errno, c.nth)
                        r = sb.run(op, inject=inj)
                        if r.get("timeout"):
                            continue
                        what = "`%s` with %s failing (%s %s, exit %d)" % (shown, c.name, errno, sb.rel(c.paths[-1]) if c.paths else "", r["rc"])
                        rep.evaluations += 1
                        rep.classes.add("stagefault|%s|%s|rc%d" % (op[0] + ("-i" if "-i" in op else ""), c.kind, min(r["rc"], 3)))
                        rep.count("stagefault:%s:%s" % (op[0] + ("-i" if "-i" in op else ""), "failed" if r["rc"] else "ok"))
                        fs, inv = judge_staged(sb, case, what)
                        fs += judge_no_loss(sb, case, what, inv, contents) if op[0] == "mv" else []
                        if committed and not fs:
                            fs += judge_committed(sb, case, what)
                        out += [(f, dict(case_seed=case_seed, op=shown, inject=inj, ext_staging=sb.ext)) for f in fs]
            shutil.rmtree(S0, ignore_errors=True)
        finally:
            sb.close()
    return out


def phase(rep, pid, tier, seed, committed=False):
    """run the staging-fault phase for a property and report what it finds"""
    fails = run(rep, tier, seed, committed=committed, errnos=("EIO", "EACCES") if tier == "thorough" else ("EIO",))
    seen = set()
    for f, rp in fails:
        key = re.sub(r"[0-9a-f]{8,}|\d+", "#", f)[:90]
        if key in seen or len(seen) >= 3:
            continue
        seen.add(key)
        rep.violation(dict(kind="oracle-failure", oracle="staging-under-faults", what=f, replay=rp,
                           how="vlib/stagefault.prepare(random.Random(case_seed), Sandbox(ext_staging)) then run the operation under `strace -e inject=<inject>`"))
    rep.extra["stagefault_failures"] = len(fails)
