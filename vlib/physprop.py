"""Runner for the physical-layer properties (C03, C12, C13 and the fault/kill enumerations of C04, C05):
histories of real CLI invocations under strace, trace oracles, and the comparison of the observed
install phase with the Lean script model / Lean monitors."""
import hashlib, json, os, random, re, time
from vlib import core, phys, physgen
from vlib.core import hx, unhx


def scan_objects(root):
    """object root (relative) -> dict(id, head, alg, versions, namaste) for every object in the main tree"""
    out = {}
    for d, dirs, files in os.walk(root):
        rel = os.path.relpath(d, root)
        if rel.split("/")[0] == "extensions":
            dirs[:] = []
            continue
        nam = [f for f in files if f.startswith("0=ocfl_object_")]
        if nam:
            info = dict(namaste=sorted(nam), versions=sorted(x for x in dirs if re.fullmatch(r"v\d+", x)))
            try:
                inv = json.load(open(os.path.join(d, "inventory.json")))
                info.update(id=inv.get("id"), head=inv.get("head"), alg=inv.get("digestAlgorithm"))
            except Exception:
                pass
            out[rel] = info
            dirs[:] = []
    return out


def staged_dir(oid):
    h = hashlib.sha256(oid.encode()).hexdigest()
    return "%s/%s/%s/%s" % (h[0:3], h[3:6], h[6:9], h)


def canon_call(sb, c):
    """kind|hexpath[|hexpath] with sandbox-relative names, or None for calls outside the modelled kinds"""
    kind = c.kind
    if kind == "openw":
        kind = "write"
    if kind not in ("mkdir", "create", "trunc", "fchmod", "write", "copy", "rename", "unlink", "rmdir"):
        return None
    return "|".join([kind] + [hx(sb.rel(p)) for p in c.paths])


class Step:
    """everything an oracle may look at for one executed operation"""

    def __init__(self, sb, op, res, pre_objs, post_objs, pre_tree, post_tree, pre_outside, post_outside):
        self.sb, self.op, self.res = sb, op, res
        self.calls = [c for c in res["calls"] if phys.mutating(c)]
        self.folded = phys.fold(res["calls"])
        self.pre_objs, self.post_objs = pre_objs, post_objs
        self.pre_tree, self.post_tree = pre_tree, post_tree
        self.pre_outside, self.post_outside = pre_outside, post_outside


class AppendOnly:
    """C03: no call of any operation other than purging that object touches an already committed version
    directory; across a commit only root inventory, sidecar and (on upgrade) the declaration differ."""
    name = "append-only"

    def check(self, s):
        fails = []
        sb = s.sb
        committed = []   # absolute paths of committed version dirs before the op
        for oroot, info in s.pre_objs.items():
            if s.op.kind == "purge" and info.get("id") == s.op.oid:
                continue
            for v in info["versions"]:
                committed.append(os.path.join(sb.root, oroot, v))
        for c in s.calls:
            ps = c.paths[-1:] if c.kind == "copy" else c.paths
            for p in ps:
                for d in committed:
                    if p == d or p.startswith(d + "/"):
                        fails.append("`%s` (%s): %s %s touches the committed version directory %s" % (
                            s.op.kind, "rc=%d" % s.res["rc"], c.name, sb.rel(p), sb.rel(d)))
        # byte level
        for oroot, info in s.pre_objs.items():
            if s.op.kind == "purge" and info.get("id") == s.op.oid:
                continue
            for v in info["versions"]:
                pre = {k: x for k, x in s.pre_tree.items() if k == os.path.join(oroot, v) or k.startswith(os.path.join(oroot, v) + "/")}
                post = {k: x for k, x in s.post_tree.items() if k == os.path.join(oroot, v) or k.startswith(os.path.join(oroot, v) + "/")}
                if pre != post:
                    fails.append("`%s` changed bytes inside committed %s/%s: %s" % (s.op.kind, oroot, v, sorted(set(pre.items()) ^ set(post.items()))[:3]))
            # pre-existing files of the object that differ afterwards
            if s.op.kind != "purge":
                for k, x in s.pre_tree.items():
                    if (k.startswith(oroot + "/")) and x != "d" and s.post_tree.get(k) != x:
                        base = k[len(oroot) + 1:]
                        allowed = base == "inventory.json" or base.startswith("inventory.json.") or base.startswith("0=ocfl_object_")
                        if not allowed or s.op.kind not in ("commit", "upgrade"):
                            fails.append("`%s` changed the pre-existing file %s" % (s.op.kind, k))
        return fails

    def lean_lines(self, s):
        sb = s.sb
        dirs = []
        for oroot, info in s.pre_objs.items():
            if s.op.kind == "purge" and info.get("id") == s.op.oid:
                continue
            dirs += [hx("$ROOT/" + os.path.join(oroot, v)) for v in info["versions"]]
        calls = [x for x in (canon_call(sb, c) for c in s.folded) if x]
        if not dirs or not calls:
            return None
        return "monitor-avoids %d %s %s" % (len(dirs), " ".join(dirs), " ".join(calls)), "ok avoids"


class Confined:
    """C12: nothing outside the storage root and the staging root is created, changed or deleted
    (apart from the named sources of an external move)."""
    name = "confined"

    def check(self, s):
        fails = []
        sb = s.sb
        allowed_src = []
        if s.op.kind == "mvx":
            allowed_src = [a for a in s.op.args if a.startswith(sb.src)]
        for c in s.calls:
            ps = c.paths[-1:] if c.kind == "copy" else c.paths
            for p in ps:
                r = sb.rel(p)
                if r.startswith("$ROOT") or r.startswith("$STAGE"):
                    continue
                if r.startswith("$SRC") and any(p == a or p.startswith(a + "/") or a.startswith(p + "/") for a in allowed_src) and c.kind in ("rename", "rmdir", "unlink"):
                    continue
                if r.startswith("$HOME"):
                    continue
                fails.append("`%s`: %s %s is outside the storage root and the staging root" % (s.op.kind, c.name, r))
        if s.pre_outside is not None and s.op.kind != "mvx" and s.pre_outside != s.post_outside:
            fails.append("`%s` changed files outside both roots: %s" % (s.op.kind, sorted(set(s.pre_outside.items()) ^ set(s.post_outside.items()))[:4]))
        return fails

    def lean_lines(self, s):
        sb = s.sb
        if s.op.kind == "mvx":
            return None
        calls = [x for x in (canon_call(sb, c) for c in s.folded) if x and "$HOME" not in str(unhx(x.split("|")[1]))]
        if not calls:
            return None
        return "monitor-confined 2 %s %s %s" % (hx("$ROOT"), hx("$STAGE"), " ".join(calls)), "ok confined"


LOCKED = {"new", "cpx", "mvx", "cpi", "mvi", "rm", "reset", "commit", "upgrade"}


class LockDiscipline:
    """C13 (coverage half): every mutating call of a locked operation that concerns the object happens
    between the creation (O_EXCL) and the removal of the object's lock file; the lock is gone afterwards."""
    name = "lock-discipline"

    def check(self, s):
        if s.op.kind not in LOCKED or not s.op.oid:
            return []
        sb = s.sb
        fails = []
        lock = os.path.join(sb.staging, "extensions", "rocfl-locks", hashlib.sha256(s.op.oid.strip().encode()).hexdigest() + ".lock")
        held = False
        acquired = False
        sd = os.path.join(sb.staging, staged_dir(s.op.oid.strip()))
        for c in s.folded:
            if c.kind == "create" and c.paths and c.paths[0] == lock:
                if not c.err:
                    held, acquired = True, True
                continue
            if c.kind == "unlink" and c.paths and c.paths[0] == lock:
                held = False
                continue
            if c.err:
                continue
            ps = c.paths[-1:] if c.kind == "copy" else c.paths
            concerns = any(p == sd or p.startswith(sd + "/") or (p.startswith(sb.root) and not p.startswith(sb.staging)) for p in ps)
            infra = all(p.startswith(os.path.join(sb.staging, "extensions")) or os.path.dirname(p) == sb.staging or p == sb.staging
                        or p == os.path.join(sb.root, "extensions") or sb.staging.startswith(p) for p in ps)
            if concerns and not infra and not held:
                fails.append("`%s`: %s %s happens without holding the object's lock" % (s.op.kind, c.name, [sb.rel(p) for p in ps]))
        if os.path.exists(lock):
            fails.append("`%s` (rc=%d) returned and left the lock file behind" % (s.op.kind, s.res["rc"]))
        # the model's locked operation reads the object's staged state once it holds the lock (C13_serializable rests on it)
        held = False
        inv = os.path.join(sd, "inventory.json")
        for c in s.res["calls"]:
            if c.paths and c.paths[0] == lock:
                if c.kind == "create" and not c.err:
                    held = True
                elif c.kind == "unlink":
                    held = False
                continue
            if c.kind == "read" and not c.err and c.paths and c.paths[0] == inv and not held:
                fails.append("`%s`: the staged inventory is read without holding the object's lock" % s.op.kind)
                break
        return fails

    def lean_lines(self, s):
        return None


class PrivateScratch:
    """C13 (operations on different objects do not interfere): a locked operation on one object writes, renames
    or removes files in the staging root only under that object's own staging directory, plus its lock file and
    the files that set up the staging repository itself; any other file there would be shared with operations
    that hold a different object's lock."""
    name = "private-scratch"
    BOOT = re.compile(r"(0=ocfl_\d+\.\d+|ocfl_\d+\.\d+\.(txt|md)|ocfl_layout\.json|[0-9]{4}-[a-z0-9-]+\.md|extensions/[0-9]{4}-[a-z0-9-]+/config\.json)$")

    def check(self, s):
        if s.op.kind not in LOCKED or not s.op.oid:
            return []
        sb = s.sb
        fails = []
        lock = os.path.join(sb.staging, "extensions", "rocfl-locks", hashlib.sha256(s.op.oid.strip().encode()).hexdigest() + ".lock")
        sd = os.path.join(sb.staging, staged_dir(s.op.oid.strip()))
        for c in s.folded:
            if c.err or c.kind in ("mkdir", "rmdir"):
                continue
            ps = c.paths[-1:] if c.kind == "copy" else c.paths
            for p in ps:
                if not (p == sb.staging or p.startswith(sb.staging + "/")):
                    continue
                rel = os.path.relpath(p, sb.staging)
                if p == lock or p == sd or p.startswith(sd + "/") or self.BOOT.match(rel):
                    continue
                # the staging area of a main repository lives inside it: the main tree is not staging
                fails.append("`%s`: %s %s is a file in the staging root outside the object's own staging directory (shared with operations on other objects)" % (s.op.kind, c.name, sb.rel(p)))
        return fails[:3]

    def lean_lines(self, s):
        return None


def install_model_line(s):
    """driver request + expected observed install-phase calls for a successful commit"""
    sb, op = s.sb, s.op
    if op.kind not in ("commit", "upgrade") or s.res["rc"] != 0:
        return None
    post = [(r, i) for r, i in s.post_objs.items() if i.get("id") == op.oid.strip()]
    if len(post) != 1:
        return None
    oroot, info = post[0]
    pre = s.pre_objs.get(oroot)
    sd = "$STAGE/" + staged_dir(op.oid.strip())
    observed = [canon_call(sb, c) for c in s.folded if not c.err and any(sb.rel(p).startswith("$ROOT") and not sb.rel(p).startswith("$STAGE") and not p.startswith(sb.staging) for p in c.paths)]
    observed = [o for o in observed if o]
    if pre is None:
        parents = []
        parts = oroot.split("/")
        for i in range(1, len(parts)):
            p = "/".join(parts[:i])
            if p not in s.pre_tree:
                parents.append(hx("$ROOT/" + p))
        line = "script-newobject %s %s %s" % (hx("$ROOT/" + oroot), hx(sd), " ".join(parents))
    else:
        up = ("-", "-")
        if pre["namaste"] != info["namaste"]:
            up = (hx(pre["namaste"][0]), hx(info["namaste"][0]))
        line = "script-newversion %s %s %s %s %s %s" % (hx("$ROOT/" + oroot), hx(sd), hx(info["head"]), hx(info["alg"]), up[0], up[1])
    return line.strip(), observed


def render_observed(obs):
    out = []
    for o in obs:
        t = o.split("|")
        out.append(" ".join([t[0]] + [unhx(x).decode() for x in t[1:]]))
    return ";".join(out)


def run_history(rng, n_ops, oracles, rep, lean_jobs, ext_staging=None, layouts=None, ids=None, trace=True, hook=None,
                hostile_roots=None, weights=None):
    """one history; returns list of (op repr, oracle name, failure)"""
    ext = rng.random() < 0.3 if ext_staging is None else ext_staging
    sb = phys.Sandbox(ext_staging=ext)
    fails = []
    log = []
    try:
        g = physgen.PhysGen(rng, sb, n_ops, layouts=layouts, ids=ids, hostile_roots=hostile_roots, weights=weights)
        g.setup_files()
        ops = [g.init_op()]
        i = 0
        while i < n_ops + 1:
            op = ops[i] if i < len(ops) else g.next_op()
            i += 1
            pre_tree = phys.tree(sb.root, exclude=() if ext else ("extensions/rocfl-staging",)) if os.path.isdir(sb.root) else {}
            pre_objs = scan_objects(sb.root) if os.path.isdir(sb.root) else {}
            pre_out = phys.tree(sb.dir, exclude=("root", "staging", "src", "home") + tuple(f for f in os.listdir(sb.dir) if f.startswith("trace.")))
            if hook:
                handled = hook(sb, op, g, rep)
                if handled is not None:
                    for f in handled:
                        fails.append((list(log), "lock-held", f))
                    log.append("%s  [run while another holder has the object's lock]" % " ".join(op.args)[:160])
                    continue
            res = sb.run(op.args, trace=trace)
            post_tree = phys.tree(sb.root, exclude=() if ext else ("extensions/rocfl-staging",)) if os.path.isdir(sb.root) else {}
            post_objs = scan_objects(sb.root) if os.path.isdir(sb.root) else {}
            post_out = phys.tree(sb.dir, exclude=("root", "staging", "src", "home") + tuple(f for f in os.listdir(sb.dir) if f.startswith("trace.")))
            s = Step(sb, op, res, pre_objs, post_objs, pre_tree, post_tree, pre_out, post_out)
            log.append("%s -> rc=%d" % (" ".join(op.args)[:200], res["rc"]))
            rep.count("op:%s:%s" % (op.kind, "ok" if res["rc"] == 0 else "rc%d" % res["rc"]))
            rep.classes.add("%s:%d" % (op.kind, res["rc"]))
            rep.count("syscalls-observed", len(s.calls))
            for o in oracles:
                for f in o.check(s):
                    fails.append((list(log), o.name, f))
                ll = o.lean_lines(s)
                if ll and len(ll) == 3:
                    lean_jobs.append((ll[0], ll[1], "%s on `%s`" % (o.name, " ".join(op.args)[:120]), list(log), ll[2]))
                elif ll:
                    lean_jobs.append((ll[0], ll[1], "%s on `%s`" % (o.name, " ".join(op.args)[:120]), list(log)))
            im = install_model_line(s) if trace else None
            if im:
                lean_jobs.append((im[0], "ok " + hx(render_observed(im[1])), "install script of `%s`" % " ".join(op.args)[:120], list(log)))
    finally:
        sb.close()
    return fails


def run(rep, prop, tier, seed, proof_broken=False):
    rng = random.Random(seed)
    core.build_rocfl_bin()
    budget = prop.BUDGET["thorough" if (tier == "thorough" or proof_broken) else "quick"]
    t_end = time.time() + budget["seconds"]
    all_fails, lean_jobs = [], []
    for h in range(budget["histories"]):
        if time.time() > t_end:
            break
        rep.evaluations += 1
        fails = run_history(random.Random(rng.getrandbits(48)), budget["ops"], prop.make_oracles(), rep, lean_jobs,
                            **getattr(prop, "HISTORY_KW", {}))
        all_fails += fails
    # Lean side: monitors and install scripts
    dis = []
    all_fails = list(all_fails)
    if lean_jobs:
        res = core.run_lines(core.drv_path(), [j[0] for j in lean_jobs])
        for job, got in zip(lean_jobs, res):
            line, want, what, log = job[:4]
            rep.count("lean-evaluations")
            if len(job) == 5:
                # guard decision: the model decides, the implementation's outcome must follow
                info = job[4]
                rep.count("guard:" + got)
                if got in ("ok outside", "ok nested"):
                    if info["rc"] == 0 or info["changed"]:
                        all_fails.append((log, "new-object-guard", "commit with object root %r (%s by the model's guard) returned rc=%d and %s the main repository" % (
                            info["rel"], got[3:], info["rc"], "changed" if info["changed"] else "did not change")))
                elif got == "ok safe" and info["rc"] != 0 and "already exists" not in info["err"] and "No staged changes" not in info["err"] and "lock" not in info["err"]:
                    dis.append(dict(what=what, detail="the model's guard accepts root %r but commit failed: %s" % (info["rel"], info["err"]), history=log))
                continue
            if got != want:
                if want.startswith("ok ") and got.startswith("ok ") and line.startswith("script-"):
                    detail = "observed install phase [%s] differs from the model's script [%s]" % (
                        unhx(want[3:]).decode() if want[3:] != "-" else "", unhx(got[3:]).decode() if got[3:] != "-" else "")
                else:
                    detail = "%s: Lean says %s, expected %s" % (what, got[:200], want[:200])
                dis.append(dict(what=what, detail=detail, history=log))
    rep.disagreements = (getattr(rep, "disagreements", 0) or 0) + len(dis)
    rep.sample(dict(lean_request=lean_jobs[0][0][:300], expected=lean_jobs[0][1][:200]) if lean_jobs else {})
    seen = set()
    for log, oname, f in all_fails:
        k = prop.known_match(f) if hasattr(prop, "known_match") else None
        if k:
            rep.known(k, f[:300])
            continue
        key = (oname, re.sub(r"[0-9a-f]{8,}", "#", f)[:80])
        if key in seen or len(seen) >= 3:
            continue
        seen.add(key)
        rep.violation(dict(kind="oracle-failure", oracle=oname, what=f, history=log))
    if dis and not all_fails:
        rep.violation(dict(kind="correspondence-broken", correspondence=prop.CORRESPONDENCE, what=dis[0]["detail"],
                           history=dis[0]["history"], disagreeing=len(dis),
                           note="the observed system-call trace differs from the Lean script model / monitor; no oracle failure on this budget"),
                      no_input=True)


def replay(rep, prop, payload):
    print(json.dumps(payload, indent=1)[:3000])
    print("replay: re-run the listed history lines by hand with the rocfl binary under strace (see vlib/phys.py)")


class NewObjectGuard:
    """C12: committing a new object whose mapped root is not a safe relative path, or lies inside
    another object, must fail and change nothing; otherwise (target free, something staged) it succeeds.
    The decision itself is taken by the Lean model (`safeRel`, `notInsideObject`) and compared."""
    name = "new-object-guard"

    def __init__(self, layout_of):
        self.layout_of = layout_of

    def rel_of(self, s):
        op = s.op
        lay = self.layout_of(s)
        if lay == "0002-flat-direct-storage-layout":
            return op.oid
        if lay == "none":
            if "-r" in op.args:
                return op.args[op.args.index("-r") + 1].strip("/") if op.args[op.args.index("-r") + 1].strip("/") else ""
            return None
        return None

    def applicable(self, s):
        if s.op.kind != "commit" or any(i.get("id") == s.op.oid for i in s.pre_objs.values()):
            return None
        rel = self.rel_of(s)
        if rel is None:
            return None
        staged_inv = os.path.join(s.sb.staging, staged_dir(s.op.oid), "inventory.json")
        return rel

    def check(self, s):
        return []

    def lean_lines(self, s):
        rel = self.applicable(s)
        if rel is None:
            return None
        roots = [hx(r) for r in s.pre_objs]
        exists = rel in s.pre_tree or os.path.lexists(os.path.join(s.sb.root, rel)) if s.res["rc"] != 0 else False
        # expected answer of the model given what the implementation did
        # the `extensions` directory is the parent of the internal staging area and is created with it
        changed = {k: v for k, v in s.post_tree.items() if k != "extensions"} != {k: v for k, v in s.pre_tree.items() if k != "extensions"}
        if s.res["rc"] == 0:
            want = "ok safe"
        else:
            want = None
        line = "script-guard %s %s" % (hx(rel), " ".join(roots))
        return line.strip(), want, dict(rc=s.res["rc"], changed=changed, rel=rel, err=s.res["err"][:200])


class OthersUntouched:
    """C08: an operation on one object leaves every other object byte for byte as it was; purge removes exactly
    the named object"""
    name = "others-untouched"

    def check(self, s):
        fails = []
        for oroot, info in s.pre_objs.items():
            if info.get("id") == s.op.oid:
                continue
            # nested roots (an id that is a path prefix of another id under a direct layout): the inner object's
            # files are not the outer object's
            inner = [r for r in s.pre_objs if r != oroot and r.startswith(oroot + "/")]
            pre = {k: v for k, v in s.pre_tree.items() if (k == oroot or k.startswith(oroot + "/")) and not any(k == r or k.startswith(r + "/") for r in inner)}
            post = {k: v for k, v in s.post_tree.items() if (k == oroot or k.startswith(oroot + "/")) and not any(k == r or k.startswith(r + "/") for r in inner)}
            if pre != post:
                diff = sorted(set(pre.items()) ^ set(post.items()))[:3]
                fails.append("`%s %s` (rc=%d) changed the object %s at %s: %s" % (s.op.kind, s.op.oid, s.res["rc"], info.get("id"), oroot, diff))
        if s.op.kind == "purge" and s.res["rc"] == 0:
            gone = [r for r, i in s.pre_objs.items() if r not in s.post_objs]
            extra = [r for r in gone if s.pre_objs[r].get("id") != s.op.oid]
            if extra:
                fails.append("`purge %s` removed other objects as well: %s" % (s.op.oid, extra))
        return fails

    def lean_lines(self, s):
        return None


class OthersStayValid:
    """C12: the objects that existed before an operation are still valid afterwards (unless purged)"""
    name = "others-stay-valid"

    def check(self, s):
        from vlib import ocflcheck
        fails = []
        for oroot, info in s.pre_objs.items():
            if s.op.kind == "purge" and info.get("id") == s.op.oid:
                continue
            p = os.path.join(s.sb.root, oroot)
            if not os.path.isdir(p):
                fails.append("`%s %s` removed the object at %s" % (s.op.kind, s.op.oid, oroot))
                continue
            probs = ocflcheck.check_object(p, strict=True, fixity=False)
            if probs:
                fails.append("after `%s %s` the object at %s is invalid: %s" % (s.op.kind, s.op.oid, oroot, probs[:2]))
        return fails

    def lean_lines(self, s):
        return None


class AllValid:
    """C01 on the real binary: after every operation the storage root and every object in it are valid OCFL as judged by
    vlib/ocflcheck.py (strict: no stray or empty directory anywhere), also after operations that were refused"""
    name = "all-valid"

    def check(self, s):
        from vlib import ocflcheck
        if not os.path.isdir(s.sb.root) or not any(f.startswith("0=ocfl_") for f in os.listdir(s.sb.root)):
            return []
        fails = []
        problems, objs = ocflcheck.check_root(s.sb.root, strict=True, fixity=False)
        for p in problems[:2]:
            fails.append("after `%s %s` (rc=%d): storage root: %s" % (s.op.kind, s.op.oid, s.res["rc"], p))
        for o, ps in objs.items():
            for p in ps[:2]:
                fails.append("after `%s %s` (rc=%d): object at %s: %s" % (s.op.kind, s.op.oid, s.res["rc"], o, p))
        return fails[:4]

    def lean_lines(self, s):
        return None
