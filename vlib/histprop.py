"""Common runner for the properties that are decided over operation histories (C01, C02, C08, C09,
C14, C18, C19 …): generation through a live harness with implementation-level oracles evaluated
inline (stage O), comparison with the Lean driver afterwards (stage T), search and shrinking (S)."""
import copy, json, os, random, shutil, subprocess, tempfile, time
from vlib import core, hist
from vlib.core import hx, unhx


class Ctx:
    """what an oracle may look at: the live harness (extra queries) and the scratch directory"""

    def __init__(self, live, base):
        self.live = live
        self.base = base          # harness VERIF_SCRATCH
        self.n = 0                # current r<n> (bumped by `reset`)

    @property
    def dir(self):
        return os.path.join(self.base, "r%d" % self.n)


class LiveH(hist.Live):
    def __init__(self, hbin):
        self.base = tempfile.mkdtemp(prefix="rocfl-verif-h.", dir=os.environ.get("VERIF_TMP") or ("/dev/shm" if os.path.isdir("/dev/shm") else None))
        env = dict(os.environ, VERIF_SCRATCH=self.base)
        self.p = subprocess.Popen([hbin], stdin=subprocess.PIPE, stdout=subprocess.PIPE, stderr=subprocess.DEVNULL, env=env)

    def close(self):
        super().close()
        shutil.rmtree(self.base, ignore_errors=True)


def contents_of(steps):
    import hashlib
    c = {}
    for st in steps:
        if st["op"] == "mkfile":
            b = core.unhx(st["h"].split(" ")[2])
            c[hashlib.sha256(b).hexdigest()] = b
    return c


def execute(steps, hbin, oracles):
    """runs the steps through a fresh live harness; returns (hres, failures) where failures are
    (step index, oracle name, detail).  Oracles see every step right after it ran."""
    live = LiveH(hbin)
    ctx = Ctx(live, live.base)
    hres, fails = [], []
    try:
        for i, st in enumerate(steps):
            if st["op"] == "reset":
                r = live.ask(st["h"])
                ctx.n += 1
            else:
                for o in oracles:
                    o.before(ctx, st)
                r = live.ask(st["h"])
            hres.append(r)
            st["hres"] = r
            for o in oracles:
                for f in o.after(ctx, st, r) or []:
                    fails.append((i, o.name, f))
    finally:
        live.close()
    return hres, fails


class Oracle:
    name = "oracle"

    def before(self, ctx, st):
        pass

    def after(self, ctx, st, resp):
        return []


def blocks_of(steps):
    """indices grouped into removable blocks: a mutation and the observations that follow it"""
    blocks, cur = [], []
    for i, st in enumerate(steps):
        if st["kind"] == "setup":
            continue
        if st["kind"] == "mut" and cur:
            blocks.append(cur); cur = []
        cur.append(i)
    if cur:
        blocks.append(cur)
    return blocks


def judge_script(steps, hres, contents):
    """stage T for one script: first disagreement between implementation and model, or None"""
    sc = hist.Script()
    sc.steps = steps
    sc.contents = contents
    res = hist.run_scripts([sc], None, core.drv_path())[0]
    for i, (st, h, d, ok, detail) in enumerate(res["rows"]):
        if not ok:
            return dict(index=i, op=st["op"], request=st["h"], implementation=h[:600], model=d[:600], detail=detail[:600])
    return None


def run(rep, prop, tier, seed, proof_broken=False):
    rng = random.Random(seed)
    hbin = core.build_harness(getattr(prop, "HARNESS_FEATURES", None))
    budget = prop.BUDGET["thorough" if (proof_broken or tier == "thorough") else "quick"]
    t_end = time.time() + budget.get("seconds", 1e9)
    scripts = []
    ofail = []      # (script, failures)
    live = LiveH(hbin)
    ctx = Ctx(live, live.base)
    all_oracles = []
    try:
        n = 0
        for case in prop.corpus_specs() + [None] * budget["histories"]:
            if time.time() > t_end:
                break
            g = prop.make_gen(random.Random(rng.getrandbits(48)) if case is None else random.Random(case["seed"]),
                              budget, live, case)
            oracles = prop.make_oracles(g.sc.contents, g)
            g.ctx = ctx
            g.oracles = oracles
            all_oracles.extend(oracles)
            g.fails = []
            sc = g.build()
            scripts.append(sc)
            n += 1
            if g.fails:
                ofail.append((sc, g.fails))
    finally:
        live.close()
    # ---- T
    res = hist.run_scripts(scripts, None, core.drv_path())
    dis = []
    for sc, r in zip(scripts, res):
        rep.evaluations += 1
        nd = r["nondet"]
        rep.count("histories")
        rep.count("nondeterministic-tail-skipped", int(nd))
        for st, h, d, ok, detail in r["rows"]:
            if st["kind"] == "mut":
                key = "%s:%s" % (st["op"], hist.outcome(h).split(":")[1] if ":" in hist.outcome(h) and not hist.outcome(h).startswith("err:copyMove") else hist.outcome(h).split(":")[0] + (":copyMove" if "copyMove" in hist.outcome(h) else ""))
                rep.count("op:" + key)
                rep.classes.add(key)
            if not ok:
                dis.append((sc, dict(op=st["op"], request=st["h"], implementation=h[:500], model=d[:500], detail=detail[:500])))
                break
    rep.disagreements = len(dis)
    for sc in scripts[:3]:
        rep.sample([s["h"][:120] for s in sc.steps if s["kind"] == "mut"][:10])
    # ---- known findings
    real = []
    for sc, fails in ofail:
        left = []
        for f in fails:
            k = prop.known_match(f, sc)
            if k:
                rep.known(k, f[2][:300])
            else:
                left.append(f)
        if left:
            real.append((sc, left))
    for sc, fails in real[:3]:
        small, sfails = shrink_script(sc, hbin, prop, lambda fl: any(not prop.known_match(f, sc) for f in fl))
        rep.violation(dict(kind="oracle-failure", oracle=sfails[0][1] if sfails else fails[0][1],
                           what=(sfails[0][2] if sfails else fails[0][2])[:1000],
                           steps=[dict(op=s["op"], h=s["h"], kind=s["kind"], hres=s.get("hres", "")[:300]) for s in small],
                           replay_lines=[s["h"] for s in small]))
    if dis and not real:
        sc, d = dis[0]
        rep.violation(dict(kind="correspondence-broken", correspondence=prop.CORRESPONDENCE, what=d,
                           replay_lines=[s["h"] for s in sc.steps], disagreeing_histories=len(dis),
                           note="model and implementation differ; the property's implementation-level oracles found no failing input on this budget"),
                      no_input=True)
    rep.extra["oracle_checks"] = sum(getattr(o, "checks", 0) for o in all_oracles)
    rep.extra["oracles"] = sorted({o.name for o in all_oracles})


def shrink_script(sc, hbin, prop, pred):
    """delta-debugging over operation blocks; `pred(failures)` says whether the failure persists"""
    steps = [dict(s) for s in sc.steps]
    best = steps
    _, bf = execute([dict(s) for s in best], hbin, prop.make_oracles(contents_of(best), None))
    if not pred(bf):
        return steps, bf
    improved = True
    tries = 0
    while improved and tries < 60:
        improved = False
        bl = blocks_of(best)
        for b in reversed(bl):
            tries += 1
            cand = [dict(s) for i, s in enumerate(best) if i not in set(b)]
            try:
                _, f = execute(cand, hbin, prop.make_oracles(contents_of(cand), None))
            except Exception:
                continue
            if pred(f):
                best, bf = cand, f
                improved = True
                break
    return best, bf


def replay(rep, prop, payload):
    hbin = core.build_harness(getattr(prop, "HARNESS_FEATURES", None))
    lines = payload.get("replay_lines")
    if not lines:
        print("replay file carries no input:", payload.get("kind"), payload.get("theorems") or payload.get("correspondence"))
        return
    steps = payload.get("steps") or [dict(op=l.split(" ")[0], h=l, kind="mut") for l in lines]
    for s in steps:
        s.setdefault("d", s["h"]); s.setdefault("meta", {})
    hres, fails = execute(steps, hbin, prop.make_oracles(contents_of(steps), None))
    for s, r in zip(steps, hres):
        print("%-60s -> %s" % (s["h"][:60], r[:100]))
    for f in fails:
        print("ORACLE", f[1], f[2][:400])
        if not prop.known_match(f, None):
            rep.violation(dict(kind="oracle-failure", oracle=f[1], what=f[2][:1000], replay_lines=lines))
            break
