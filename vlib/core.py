"""Shared machinery of ./check: build (proof stage P), axiom audit, harness/driver execution
(correspondence stage T), oracle bookkeeping (stage O), verdicts, evidence and replay files."""
import json, os, re, subprocess, sys, time, hashlib, random, shutil, tempfile

ROOT = os.path.dirname(os.path.dirname(os.path.abspath(__file__)))
LEAN = os.path.join(ROOT, "lean")
HARNESS = os.path.join(ROOT, "harness")
REPO = os.environ.get("VERIF_REPO", "/repo")
OUT = os.path.join(ROOT, "out")
ALLOWED_AXIOMS = {"propext", "Classical.choice", "Quot.sound"}
FORBIDDEN = re.compile(r"\b(sorry|admit|native_decide|bv_decide|implemented_by|unsafe)\b|^\s*axiom\s|maxHeartbeats\s+0")

ENV = dict(os.environ, CARGO_NET_OFFLINE="true")


def sh(cmd, cwd=None, inp=None, timeout=None, env=None):
    p = subprocess.run(cmd, cwd=cwd, input=inp, stdout=subprocess.PIPE, stderr=subprocess.STDOUT,
                       timeout=timeout, env=env or ENV, shell=isinstance(cmd, str))
    return p.returncode, p.stdout.decode("utf-8", "replace")


def scratch():
    base = os.environ.get("VERIF_TMP") or ("/dev/shm" if os.path.isdir("/dev/shm") else tempfile.gettempdir())
    d = tempfile.mkdtemp(prefix="rocfl-verif.", dir=base)
    return d


# ------------------------------------------------------------------ stage P

def strip_comments(src):
    src = re.sub(r"/-.*?-/", "", src, flags=re.S)
    return re.sub(r"--.*", "", src)


def lean_sources():
    for d, _, fs in os.walk(os.path.join(LEAN, "RocflModel")):
        for f in fs:
            if f.endswith(".lean"):
                yield os.path.join(d, f)
    for d, _, fs in os.walk(os.path.join(LEAN, "Driver")):
        for f in fs:
            if f.endswith(".lean"):
                yield os.path.join(d, f)


def forbidden_scan():
    hits = []
    for f in lean_sources():
        for i, line in enumerate(strip_comments(open(f).read()).splitlines(), 1):
            if FORBIDDEN.search(line):
                hits.append("%s:%d: %s" % (os.path.relpath(f, ROOT), i, line.strip()))
    return hits


def theorem_names(pid):
    """every `theorem` declared in Theorems/<pid>.lean (the property's proof obligations)"""
    f = os.path.join(LEAN, "RocflModel", "Theorems", pid + ".lean")
    src = strip_comments(open(f).read())
    ns = re.search(r"^namespace\s+(\S+)", src, re.M).group(1)
    return [ns + "." + m for m in re.findall(r"^theorem\s+(\S+)", src, re.M)]


def proof_stage(pid):
    """lake build of the property's theorem module + driver, then `#print axioms` audit.
    returns dict(obligations, discharged, failed:[names], log)"""
    t0 = time.time()
    mod = "RocflModel.Theorems." + pid
    rc, log = sh(["lake", "build", mod, "drv"], cwd=LEAN, timeout=3600)
    names = theorem_names(pid)
    res = dict(obligations=len(names), discharged=0, failed=[], axioms={}, build_ok=(rc == 0),
               checker_cmd="cd lean && lake build %s drv && lake env lean Audit/%s.lean  # #print axioms" % (mod, pid))
    if rc != 0:
        res["failed"] = names
        res["log"] = log[-4000:]
        return res
    hits = forbidden_scan()
    if hits:
        res["failed"] = names
        res["log"] = "forbidden tokens:\n" + "\n".join(hits)
        return res
    os.makedirs(os.path.join(LEAN, "Audit"), exist_ok=True)
    af = os.path.join(LEAN, "Audit", pid + ".lean")
    with open(af, "w") as fh:
        fh.write("import %s\n" % mod)
        for n in names:
            fh.write("#print axioms %s\n" % n)
    rc, log = sh(["lake", "env", "lean", af], cwd=LEAN, timeout=1800)
    # parse
    for m in re.finditer(r"'([^']+)' (does not depend on any axioms|depends on axioms: \[([^\]]*)\])", log, re.S):
        ax = [a.strip() for a in (m.group(3) or "").replace("\n", " ").split(",") if a.strip()]
        res["axioms"][m.group(1)] = ax
    for n in names:
        if n in res["axioms"] and set(res["axioms"][n]) <= ALLOWED_AXIOMS:
            res["discharged"] += 1
        else:
            res["failed"].append(n)
    res["wall_s"] = round(time.time() - t0, 1)
    if res["failed"]:
        res["log"] = log[-4000:]
    return res


# ------------------------------------------------------------------ binaries

_built = {}


def build_harness(features=None):
    key = ("harness", features)
    if key in _built:
        return _built[key]
    cmd = ["cargo", "build", "--offline"]
    tdir = os.path.join(HARNESS, "target")
    env = None
    cov = os.environ.get("VERIF_COVERAGE_DIR")
    if cov:
        # tools/covaudit.sh: an instrumented build in a scratch directory (never used by the registered commands)
        tdir = os.path.join(cov, "target-harness")
        env = dict(ENV, CARGO_TARGET_DIR=tdir, RUSTFLAGS="-C instrument-coverage")
    if features:
        # a build with other features gets its own target directory (the binaries would overwrite each other)
        cmd += ["--features", features]
        tdir = os.path.join(cov or HARNESS, "target-" + features.replace(",", "-"))
        env = dict(env or ENV, CARGO_TARGET_DIR=tdir)
    rc, log = sh(cmd, cwd=HARNESS, timeout=3600, env=env)
    if rc != 0:
        raise BuildError("harness build failed (does /repo still compile?)\n" + log[-3000:])
    _built[key] = os.path.join(tdir, "debug", "verif-harness")
    return _built[key]


def build_rocfl_bin():
    """the real CLI, built from /repo's working tree into a target dir of ours"""
    if "rocfl" in _built:
        return _built["rocfl"]
    tdir = os.path.join(HARNESS, "target-rocfl")
    env = dict(ENV, CARGO_TARGET_DIR=tdir)
    cargo = ["cargo"]
    if os.environ.get("VERIF_COVERAGE_DIR"):
        tdir = os.path.join(os.environ["VERIF_COVERAGE_DIR"], "target-rocfl")
        env = dict(ENV, CARGO_TARGET_DIR=tdir, RUSTFLAGS="-C instrument-coverage")
    rc, log = sh(cargo + ["build", "--offline", "--bin", "rocfl", "--no-default-features"], cwd=REPO, timeout=3600, env=env)
    if rc != 0:
        raise BuildError("rocfl build failed\n" + log[-3000:])
    _built["rocfl"] = os.path.join(tdir, "debug", "rocfl")
    return _built["rocfl"]


class BuildError(Exception):
    pass


def drv_path():
    return os.path.join(LEAN, ".lake", "build", "bin", "drv")


def run_lines(binary, lines, cwd=None, timeout=3600, env=None):
    """pipe request lines, return response lines (same count)"""
    if isinstance(binary, str):
        binary = [binary]
    inp = ("\n".join(lines) + "\n").encode()
    p = subprocess.run(binary, input=inp, stdout=subprocess.PIPE, stderr=subprocess.PIPE, cwd=cwd, timeout=timeout, env=env or ENV)
    out = p.stdout.decode("utf-8", "replace").splitlines()
    if len(out) != len(lines):
        raise RuntimeError("%s answered %d lines for %d requests (rc=%s)\nstderr: %s" % (
            binary[0], len(out), len(lines), p.returncode, p.stderr.decode("utf-8", "replace")[-2000:]))
    return out


def hx(s):
    if isinstance(s, str):
        s = s.encode("utf-8")
    return s.hex() if s else "-"


def unhx(s):
    return b"" if s == "-" else bytes.fromhex(s)


# ------------------------------------------------------------------ known findings

def load_known(pid):
    f = os.path.join(ROOT, "known-findings.json")
    if not os.path.exists(f):
        return []
    return [k for k in json.load(open(f))["findings"] if k["property"] == pid and k["kind"] == "known"]


# ------------------------------------------------------------------ reporting

class Report:
    def __init__(self, pid, tier, seed):
        self.pid, self.tier, self.seed = pid, tier, seed
        self.t0 = time.time()
        self.evaluations = 0
        self.classes = set()
        self.samples = []
        self.dist = {}
        self.violations = []      # (kind, detail, replay-path)
        self.known_hits = {}      # id -> what
        self.disagreements = 0
        self.extra = {}
        self.assumptions = []
        self.rule = ""
        self._known_ids = {k["id"] for k in load_known(pid)}

    def count(self, key, n=1):
        self.dist[key] = self.dist.get(key, 0) + n

    def sample(self, obj, limit=6):
        if len(self.samples) < limit:
            self.samples.append(obj)

    def replay_file(self, payload):
        d = os.path.join(OUT, "replay")
        os.makedirs(d, exist_ok=True)
        body = json.dumps(payload, indent=1, sort_keys=True, ensure_ascii=True)
        p = os.path.join(d, "%s-%s.json" % (self.pid, hashlib.sha1(body.encode()).hexdigest()[:10]))
        open(p, "w").write(body)
        return p

    def violation(self, payload, no_input=False):
        payload = dict(payload, property=self.pid, seed=self.seed, tier=self.tier)
        p = self.replay_file(payload)
        self.violations.append((p, no_input))
        return p

    def known(self, kid, what):
        # only findings listed in the committed known-findings.json are accepted as known
        if kid not in self._known_ids:
            self.violation(dict(kind="unlisted-finding", id=kid, what=what))
            return
        self.known_hits.setdefault(kid, what)

    def finish(self, proof, trusted_base, level="proof"):
        cov = dict(
            obligations=proof["obligations"], discharged=proof["discharged"],
            checker_cmd=proof["checker_cmd"], trusted_base=trusted_base,
            evaluations=self.evaluations, distinct_nontrivial=len(self.classes),
            rule=self.rule, samples=self.samples[:8], distribution=self.dist,
            disagreements_checked=self.disagreements,
            theorem_axioms=proof.get("axioms", {}), failed_obligations=proof.get("failed", []),
            known_findings_reproduced=sorted(self.known_hits),
        )
        cov.update(self.extra)
        ev = dict(property_id=self.pid, tier=self.tier, seed=self.seed, level=level, coverage=cov,
                  assumptions=self.assumptions, wall_s=round(time.time() - self.t0, 1),
                  violations=len(self.violations))
        os.makedirs(os.path.join(ROOT, "evidence"), exist_ok=True)
        with open(os.path.join(ROOT, "evidence", self.pid + ".json"), "w") as fh:
            json.dump(ev, fh, indent=1, sort_keys=True)
        for kid, what in sorted(self.known_hits.items()):
            print("KNOWN-FINDING: property=%s %s: %s" % (self.pid, kid, what))
        for p, no_input in self.violations:
            print("VIOLATION property=%s replay=%s%s" % (self.pid, p, " no-failing-input-found" if no_input else ""))
        sys.stdout.flush()
        return 1 if self.violations else 0


# ------------------------------------------------------------------ generic T/O/S runner

def evaluate(rep, prop, cases, hbin):
    """runs cases through harness and driver; returns (oracle_failures, disagreements) as lists of
    (case, judgement).  A case is a dict with 'h' and 'd': lists of protocol lines."""
    if not cases:
        return [], []
    hl, dl = [], []
    for c in cases:
        hl += c["h"]
        dl += c["d"]
    hres = run_lines(hbin, hl) if hl else []
    dres = run_lines(drv_path(), dl) if dl else []
    hi = di = 0
    ofail, dis = [], []
    for c in cases:
        h = hres[hi:hi + len(c["h"])]; hi += len(c["h"])
        d = dres[di:di + len(c["d"])]; di += len(c["d"])
        j = prop.judge(c, h, d)
        rep.evaluations += 1
        rep.count("outcome:" + j["cls"])
        rep.classes.add(j["cls"]) if j.get("nontrivial", True) else None
        if len(rep.samples) < 6 and j.get("nontrivial", True) and (rep.evaluations % 37 == 1):
            rep.sample(dict(request=c["h"][:4], implementation=h[:4], model=d[:4]))
        if not j["oracle"]:
            if j.get("known"):
                rep.known(j["known"], j.get("detail", ""))
            else:
                ofail.append((c, j, h, d))
        if not j["agree"]:
            if j.get("known"):
                rep.known(j["known"], j.get("detail", ""))
            else:
                dis.append((c, j, h, d))
    return ofail, dis


def shrink(prop, case, pred, budget=200):
    """greedy shrinking with the property's candidate generator"""
    cur = case
    n = 0
    improved = True
    while improved and n < budget:
        improved = False
        for cand in prop.shrink_candidates(cur):
            n += 1
            if n >= budget:
                break
            try:
                if pred(cand):
                    cur = cand
                    improved = True
                    break
            except Exception:
                pass
    return cur


def standard_run(rep, prop, tier, seed, proof_broken, hbin=None):
    rng = random.Random(seed)
    hbin = hbin or build_harness(getattr(prop, "HARNESS_FEATURES", None))
    budget_tier = "thorough" if proof_broken else tier
    cases = prop.corpus() + prop.gen(rng, budget_tier)
    ofail, dis = evaluate(rep, prop, cases, hbin)
    rep.disagreements = len(dis)
    if (dis or proof_broken) and not ofail:
        # stage S: neighbours of the disagreements, then the enlarged budget
        extra = []
        for c, j, h, d in dis[:20]:
            extra += prop.neighbors(c, rng)
        if tier != "thorough" and not proof_broken:
            extra += prop.gen(rng, "thorough")
        of2, dis2 = evaluate(rep, prop, extra, hbin)
        ofail += of2
    seen = set()
    for c, j, h, d in ofail:
        if j["cls"] in seen or len(seen) >= 3:
            continue
        seen.add(j["cls"])

        def still(cand):
            o, _ = evaluate(Report(rep.pid, rep.tier, rep.seed), prop, [cand], hbin)
            return bool(o)
        small = shrink(prop, c, still)
        o, _ = evaluate(Report(rep.pid, rep.tier, rep.seed), prop, [small], hbin)
        jj, hh, dd = (o[0][1], o[0][2], o[0][3]) if o else (j, h, d)
        rep.violation(dict(kind="oracle-failure", what=jj.get("detail", ""), case=small, implementation=hh, model_and_spec=dd))
    if dis and not ofail:
        c, j, h, d = dis[0]

        def still(cand):
            _, dd = evaluate(Report(rep.pid, rep.tier, rep.seed), prop, [cand], hbin)
            return bool(dd)
        small = shrink(prop, c, still)
        _, dd2 = evaluate(Report(rep.pid, rep.tier, rep.seed), prop, [small], hbin)
        jj, hh, dd = (dd2[0][1], dd2[0][2], dd2[0][3]) if dd2 else (j, h, d)
        rep.violation(dict(kind="correspondence-broken", correspondence=prop.CORRESPONDENCE,
                           what=jj.get("detail", ""), case=small, implementation=hh, model_and_spec=dd,
                           disagreeing_cases=len(dis),
                           note="model and implementation differ; no input violating the property's oracle was found"),
                      no_input=True)


def standard_replay(rep, prop, payload):
    hbin = build_harness(getattr(prop, "HARNESS_FEATURES", None))
    case = payload.get("case")
    if not case:
        print("replay file carries no input: ", payload.get("kind"), payload.get("theorems") or payload.get("correspondence"))
        return
    ofail, dis = evaluate(rep, prop, [case], hbin)
    for c, j, h, d in ofail:
        print("implementation:", h)
        print("model | spec  :", d)
        rep.violation(dict(kind="oracle-failure", what=j.get("detail", ""), case=c, implementation=h, model_and_spec=d))
    if dis and not ofail:
        c, j, h, d = dis[0]
        print("implementation:", h)
        print("model | spec  :", d)
        rep.violation(dict(kind="correspondence-broken", correspondence=prop.CORRESPONDENCE, case=c, implementation=h, model_and_spec=d), no_input=True)
