"""History engine shared by the properties that quantify over operation histories:
generation of operation scripts, harness/driver line construction, canonicalisation and comparison
of the two response streams."""
import hashlib, json, random
from vlib.core import hx, unhx

LAYOUTS = [
    ("0004-hashed-n-tuple-storage-layout", None),
    ("0004-hashed-n-tuple-storage-layout", {"extensionName": "0004-hashed-n-tuple-storage-layout", "digestAlgorithm": "md5", "tupleSize": 2, "numberOfTuples": 2, "shortObjectRoot": True}),
    ("0003-hash-and-id-n-tuple-storage-layout", None),
    ("0002-flat-direct-storage-layout", None),
    ("0006-flat-omit-prefix-storage-layout", {"extensionName": "0006-flat-omit-prefix-storage-layout", "delimiter": ":"}),
    ("0007-n-tuple-omit-prefix-storage-layout", {"extensionName": "0007-n-tuple-omit-prefix-storage-layout", "delimiter": ":", "tupleSize": 2, "numberOfTuples": 2}),
    ("none", None),
]

CONTENTS = [b"", b"hello", b"world", b"hello", b"x" * 100, b"\x00\x01\xfe\xff binary \n\r", b"same", b"same", "ünï".encode(), b"0123456789" * 50]
# `a.tmp` / `a` / `a.txt~`: names that collide with one another under the usual ways of deriving a temporary name
EXT_FILES = ["a.txt", "b.txt", "c.dat", "d1/x.txt", "d1/y.txt", "d1/sub/z.txt", "d2/x.txt", "d2/deep/er/w.bin", "e", "a.tmp", "a", "d1/x.tmp", "a.txt~",
             "d12/x.txt", "d1x/sub/q.txt"]      # directories whose names start with another directory's name
NAMES = ["a.txt", "b.txt", "n.txt", "d1", "d1/x.txt", "d1/sub", "d2", "new/dir/f", "e", "z", "d12", "d1x/sub"]
H_FILES = ['q"uote.txt', 'back\\slash.txt', 'new\nline', 'tab\there.txt', 'sp ace ', ' lead', 'ünï/日本/🙂.bin', '%25pct%', 'x' * 180,
           'ctl\x01\x1f', 'd"q/in"ner/f\\g', "it's", 'a.txt']
H_NAMES = ['q"uote.txt', 'dst"q', 'back\\slash.txt', 'n\nl/x', 'sp ace /y ', '🙂/😀', 'd"q', 'ctl\x02', 'plain', 'd"q/in"ner']
H_IDS = ['ob"j', 'back\\slash', 'new\nline', ' padded ', '\u00a0nbsp\u3000', 'ünï:日本:🙂', 'urn:x:"q"\\', 'x' * 300, 'tab\tid', 'ctl\x01id', 'a/b', '%2e%2e',
         'urn:long:' + 'L' * 4200, 'urn:é:' + 'é' * 2100]
H_META = ['quo"te', 'back\\slash', 'multi\nline\ttab', '🙂 non-BMP', '  spaces  ', 'ctl\x00\x1f', 'y' * 500, 'é' * 3000, 'a' + 'é' * 3000, 'z' * 9000]
USERS = ["me", "Ann Onymous", "ü ser"]
ADDRS = ["mailto:me@example.org", "https://example.org/u/1", None]


RUST_WS = set([9, 10, 11, 12, 13, 32, 0x85, 0xA0, 0x1680, 0x2028, 0x2029, 0x202F, 0x205F, 0x3000]) | set(range(0x2000, 0x200B))


def rust_trim(s):
    a, b = 0, len(s)
    while a < b and ord(s[a]) in RUST_WS:
        a += 1
    while b > a and ord(s[b - 1]) in RUST_WS:
        b -= 1
    return s[a:b]


def sha(alg, b):
    return hashlib.new(alg, b).hexdigest()


class Live:
    """a harness process driven interactively while a history is generated"""

    def __init__(self, hbin):
        import subprocess
        self.p = subprocess.Popen([hbin], stdin=subprocess.PIPE, stdout=subprocess.PIPE, stderr=subprocess.DEVNULL)

    def ask(self, line):
        self.p.stdin.write((line + "\n").encode())
        self.p.stdin.flush()
        return self.p.stdout.readline().decode("utf-8", "replace").rstrip("\n")

    def close(self):
        try:
            self.p.stdin.close()
            self.p.wait(timeout=20)
        except Exception:
            self.p.kill()


class Script:
    """a history: steps with a harness line, a driver-line builder and a kind used for comparison"""

    def __init__(self):
        self.steps = []          # dict(op, h, d (str or callable(prev harness responses) -> str), kind, meta)
        self.contents = {}       # sha256 -> bytes
        self.live = None
        self.hook_before = None
        self.hook_after = None

    def add(self, op, h, d=None, kind="mut", **meta):
        st = dict(op=op, h=h, d=d if d is not None else h, kind=kind, meta=meta)
        if self.live is not None:
            if self.hook_before:
                self.hook_before(st)
            st["hres"] = self.live.ask(h)
            if self.hook_after:
                self.hook_after(st, st["hres"])
        self.steps.append(st)
        return st.get("hres")

    def hlines(self):
        return [s["h"] for s in self.steps]

    def dlines(self, hres):
        out = []
        for i, s in enumerate(self.steps):
            d = s["d"]
            out.append(d(hres, i) if callable(d) else d)
        return out


def keep_from_manifest(resp, head_prefix_hint=None):
    """observed surviving content paths (all of the committed root manifest)"""
    if not resp.startswith("ok "):
        return "default"
    m = json.loads(resp[3:])
    cps = [cp for paths in m.values() for cp in paths]
    return ",".join(hx(c) for c in cps) or "-"


class Gen:
    def __init__(self, rng, n_ops=14, n_objects=2, layouts=None, hostile_ids=False, profile="general", live=None,
                 two_clients=False, weights=None, observe_history=False, observe_ls=False):
        self.rng = rng
        self.sc = Script()
        self.sc.live = live
        self.known = {}         # id -> (files, dirs) of the staged view last observed
        self.two_clients = two_clients
        self.hostile = hostile_ids
        self.weights = weights or [30, 8, 16, 14, 10, 8, 2, 16, 1, 2, 1]
        self.observe_history = observe_history
        self.observe_ls = observe_ls
        self.n_ops = n_ops
        self.profile = profile
        lay = rng.choice(layouts or (LAYOUTS[:3] + [LAYOUTS[6]] if hostile_ids else LAYOUTS[:2] + LAYOUTS[:1] * 2 + LAYOUTS))
        self.layout = lay
        self.spec = rng.choice(["1.0", "1.1"])
        self.staging = "ext" if two_clients else rng.choice(["default", "default", "ext"])
        self.ids = []
        self.objs = {}          # id -> dict(alg, committed: bool guess)
        self.n_objects = n_objects
        self.time = 0

    # ---- helpers
    def ts(self):
        self.time += 1
        return "2021-03-%02dT%02d:%02d:00+00:00" % (1 + self.time // 1000, (self.time // 60) % 24, self.time % 60)

    def setup(self):
        sc, rng = self.sc, self.rng
        sc.add("reset", "reset", kind="setup")
        name, cfg = self.layout
        sc.add("init", "init %s %s %s %s" % (name, hx(json.dumps(cfg)) if cfg else "-", self.spec, self.staging),
               "init %s" % self.spec, kind="setup")
        for rel in (H_FILES if self.hostile else EXT_FILES):
            self.mkfile(rel, rng.choice(CONTENTS))

    def mkfile(self, rel, b):
        self.sc.contents[sha("sha256", b)] = b
        self.sc.add("mkfile", "mkfile %s %s" % (hx(rel), b.hex() or "-"),
                    "mkfile %s %s %s" % (hx(rel), sha("sha256", b), sha("sha512", b)), kind="setup")

    def new_object(self):
        rng = self.rng
        prefix = "ns:" if self.layout[0].startswith(("0006", "0007")) and rng.random() < 0.8 else ""
        oid = prefix + "obj%d" % len(self.ids)
        if self.hostile:
            oid = rng.choice(H_IDS) + ("" if rng.random() < 0.5 else str(len(self.ids)))
        alg = rng.choice(["sha256", "sha512", "sha512"])
        cdir = rng.choice(["content", "content", "data", "c0ntent-dir"])
        if self.hostile:
            cdir = rng.choice(["content", 'c"d', "c\\d", "c d ", "ünï🙂", "", "c\nd", " ", ". ", " ..", "\t", " . "])
        width = rng.choice([0, 0, 0, 1, 2, 3, 5])
        spec = rng.choice(["-", "-", "1.0", "1.1"])
        created = oid
        oid = rust_trim(oid)  # `create_object` trims the id; every later command must use the stored one
        self.ids.append(oid)
        self.objs[oid] = dict(alg=alg, cdir=cdir)
        self.sc.add("new", "new %s %s %s %d %s" % (hx(created), alg, hx(cdir), width, spec), kind="mut", id=oid, cdir=cdir)
        return oid

    def observe_staged(self, oid):
        sc = self.sc
        r = sc.add("staged", "staged %s" % hx(oid), kind="view", id=oid)
        if r and r.startswith("ok "):
            files = sorted(json.loads(r[3:])["state"])
            dirs = sorted({"/".join(f.split("/")[:i]) for f in files for i in range(1, f.count("/") + 1)})
            self.known[oid] = (files, dirs)
        sc.add("smanifest", "smanifest %s" % hx(oid), kind="manifest", id=oid)
        sc.add("sfiles", "sfiles %s" % hx(oid), kind="files", id=oid)
        sc.add("heads", "heads %s" % hx(oid), kind="plain", id=oid)

    def observe_listing(self):
        sc, rng = self.sc, self.rng
        sc.add("ls", "ls -", kind="ls")
        sc.add("lsstaged", "lsstaged -", kind="ls")
        for _ in range(2):
            if not self.ids:
                break
            i = rng.choice(self.ids)
            frag = [c for c in i if c not in "*?[]{}\\"]
            if not frag:
                continue
            k = rng.randint(0, len(frag))
            g = rng.choice(["".join(frag[:k]) + "*", "*" + "".join(frag[k:]), "".join(frag[:k]) + "?" + "".join(frag[k + 1:]), "*", "".join(frag)])
            sc.add("ls", "ls %s" % hx(g), kind="ls")
            if rng.random() < 0.4:
                sc.add("lsstaged", "lsstaged %s" % hx(g), kind="ls")
            # character classes, alternatives, escapes and patterns globset rejects
            if all(ord(c) < 128 for c in frag) and frag:
                k = rng.randrange(len(frag))
                c = frag[k]
                other = rng.choice("qzx0")
                gx = rng.choice(["".join(frag[:k]) + "[%s%s]" % (c, other) + "".join(frag[k + 1:]),
                                 "".join(frag[:k]) + "[!%s]" % other + "".join(frag[k + 1:]),
                                 "".join(frag[:k]) + "[%s-%s]" % (c, c) + "".join(frag[k + 1:]),
                                 "".join(frag[:k]) + "{%s,%s}" % ("".join(frag[k:]), other * 2),
                                 "{%s,%s}" % ("".join(frag), other),
                                 "".join(frag[:k]) + "\\" + "".join(frag[k:]),
                                 "".join(frag[:k]) + "[%s]" % other + "".join(frag[k + 1:])])
                malformed = rng.random() < 0.15
                if malformed:
                    gx = rng.choice(["".join(frag[:k]) + "[", "{" + "".join(frag), "".join(frag) + "}", "".join(frag[:k]) + "[z-a]", "{a,{b,c}}", "".join(frag) + "\\"])
                if "/" not in gx and "-" not in frag and "]" not in frag and "," not in frag and "**" not in gx:
                    sc.add("ls", "ls %s" % hx(gx), kind="ls")
                    # (a malformed pattern is only reported by the staged listing once a staging area exists)
                    if rng.random() < 0.4 and not malformed:
                        sc.add("lsstaged", "lsstaged %s" % hx(gx), kind="ls")

    def observe_main(self, oid):
        sc = self.sc
        sc.add("ver", "ver %s -" % hx(oid), kind="view", id=oid)
        sc.add("files", "files %s" % hx(oid), kind="files", id=oid)

    def observe_hist(self, oid):
        sc, rng = self.sc, self.rng
        sc.add("log", "log %s" % hx(oid), kind="log", id=oid)
        r = sc.add("heads", "heads %s" % hx(oid), kind="plain", id=oid)
        import re
        m = re.search(r"main=v0*(\d+)", r or "")
        n = int(m.group(1)) if m else 0
        for _ in range(min(4, n * n)):
            l, rt = rng.randint(1, max(n, 1)), rng.randint(1, max(n, 1))
            sc.add("diff", "diff %s v%d v%d" % (hx(oid), l, rt), kind="diff", id=oid)
        if n:
            sc.add("diff", "diff %s - v%d" % (hx(oid), rng.randint(1, n)), kind="diff", id=oid)
        for p in rng.sample(self.path_pool(oid), min(3, len(self.path_pool(oid)))):
            if not any(c in p for c in "*?"):
                sc.add("flog", "flog %s %s" % (hx(oid), hx(p)), kind="flog", id=oid)
        sc.add("diffstaged", "diffstaged %s" % hx(oid), kind="diff", id=oid)

    def commit(self, oid, root=None, meta=None, created=None):
        sc, rng = self.sc, self.rng
        user = rng.choice(USERS + [None] + (H_META if self.hostile else []))
        addr = rng.choice(ADDRS + (H_META[:3] if self.hostile else [])) if user else None
        msg = rng.choice(["first", "update", None, "mësságe with \"quotes\""] + (H_META if self.hostile else []))
        if meta:
            user, addr, msg = meta
        created = created or self.ts()
        if root is None and self.layout[0] == "none":
            root = "objects/o%d" % self.ids.index(oid) if self.hostile else "objects/" + oid.replace(":", "_")
        h = "commit %s %s %s %s %s %s %d" % (hx(oid), hx(root) if root else "-", hx(user) if user else "-",
                                            hx(addr) if addr else "-", hx(msg) if msg else "-", created, rng.randint(0, 1))
        idx = len(sc.steps)

        def d(hres, i, oid=oid, user=user, addr=addr, msg=msg, created=created, root=root):
            # the dedup choice is observable in the committed manifest, or — when the install failed
            # after `dedup_head` was persisted — in the staged manifest
            keep = keep_from_manifest(hres[i + 1]) if hres[i].startswith("ok") else keep_from_manifest(hres[i + 2])
            has_root = 1 if (self.layout[0] != "none" or root) else 0
            return "commit %s %d %s %s %s %s %s" % (hx(oid), has_root, hx(user) if user else "-", hx(addr) if addr else "-",
                                                   hx(msg) if msg else "-", created, keep)
        r = sc.add("commit", h, d, kind="mut", id=oid, user=user, addr=addr, msg=msg, created=created)
        sc.add("manifest", "manifest %s" % hx(oid), kind="manifest", id=oid)
        sc.add("smanifest", "smanifest %s" % hx(oid), kind="manifest", id=oid)
        self.observe_main(oid)
        if self.observe_history:
            self.observe_hist(oid)
        sc.add("heads", "heads %s" % hx(oid), kind="plain", id=oid)

    def evolve(self, oid):
        """one path through several versions: changed, left alone, changed back, removed, re-added"""
        sc, rng = self.sc, self.rng
        n = len(sc.steps)
        pattern = rng.choice([["A", "B", "B"], ["A", "B", "A"], ["A", "B", "B", "A", "A"], ["A", "A", "B"], ["A", "-", "A"], ["A", "B", "-", "B"], ["A", "B", "C", "C", "B"]])
        path = rng.choice(["evo.txt", "d1/evo.txt"])
        prev = None
        for i, c in enumerate(pattern):
            if c != prev:
                if c == "-":
                    sc.add("rm", "rm %s 0 %s" % (hx(oid), hx(path)), kind="mut", id=oid)
                else:
                    rel = "evo%d_%d/%s" % (n, i, path.rsplit("/", 1)[-1])
                    self.mkfile(rel, ("content %s of %s" % (c, path)).encode())
                    sc.add("cpx", "cpx %s 0 %s %s" % (hx(oid), hx(path), hx(rel)), kind="mut", id=oid)
            # something always changes so that the commit goes through
            rel = "evo%d_%d/filler.txt" % (n, i)
            self.mkfile(rel, ("filler %d %d" % (n, i)).encode())
            sc.add("cpx", "cpx %s 0 %s %s" % (hx(oid), hx("fill/%d_%d.txt" % (n, i)), hx(rel)), kind="mut", id=oid)
            prev = c
            self.commit(oid)
        self.observe_staged(oid)

    def overwrite_staged(self, oid):
        """a path added in the staged version is overwritten by an internal copy/move of committed content"""
        sc, rng = self.sc, self.rng
        files, _ = self.known.get(oid, ([], []))
        n = len(sc.steps)
        rel = "ow%d/new.txt" % n
        self.mkfile(rel, ("fresh %d" % n).encode())
        dst = rng.choice(["ow.txt", "d1/ow.txt"])
        sc.add("cpx", "cpx %s 0 %s %s" % (hx(oid), hx(dst), hx(rel)), kind="mut", id=oid)
        if files:
            src = rng.choice(files)
            if rng.random() < 0.6:
                sc.add("cpi", "cpi %s %s 0 %s %s" % (hx(oid), rng.choice(["-", "v1"]), hx(dst), hx(src)), kind="mut", id=oid)
            else:
                sc.add("mvi", "mvi %s %s %s" % (hx(oid), hx(dst), hx(src)), kind="mut", id=oid)
        self.observe_staged(oid)
        self.commit(oid)
        self.observe_staged(oid)

    def staged_alias(self, oid):
        """a file added in the staged version is copied inside the staged version; then one of the two paths is
        overwritten from outside, removed or moved: the other path must keep its bytes"""
        sc, rng = self.sc, self.rng
        n = len(sc.steps)
        rel1, rel2 = "al%d/one.txt" % n, "al%d/two.txt" % n
        self.mkfile(rel1, ("alias one %d" % n).encode())
        self.mkfile(rel2, ("alias two %d" % n).encode())
        a = rng.choice(["al.txt", "d1/al.txt"])
        b = rng.choice(["al-copy.txt", "d2/al-copy.txt"])
        sc.add("cpx", "cpx %s 0 %s %s" % (hx(oid), hx(a), hx(rel1)), kind="mut", id=oid)
        sc.add("cpi", "cpi %s - 0 %s %s" % (hx(oid), hx(b), hx(a)), kind="mut", id=oid)
        t = rng.choice([a, b])
        k = rng.random()
        if k < 0.6:
            sc.add("cpx", "cpx %s 0 %s %s" % (hx(oid), hx(t), hx(rel2)), kind="mut", id=oid)
        elif k < 0.8:
            sc.add("rm", "rm %s 0 %s" % (hx(oid), hx(t)), kind="mut", id=oid)
        else:
            sc.add("mvi", "mvi %s %s %s" % (hx(oid), hx("al-moved.txt"), hx(t)), kind="mut", id=oid)
        self.observe_staged(oid)
        self.commit(oid)
        self.observe_staged(oid)

    def unicode_dirs(self, oid):
        """internal recursive copies and moves of directories whose names are not ASCII: the destination paths are built
        from the part of the source path below the copied directory"""
        sc, rng = self.sc, self.rng
        n = len(sc.steps)
        tree = {"donn\u00e9es/2024/rapport.txt": b"r", "donn\u00e9es/2024/sub/x.bin": b"x", "\U0001F4C1/docs/file.txt": b"f", "\u00e9\u00e9/a/f1.txt": b"1", "\u00e9\u00e9/b/g1.txt": b"2"}
        for rel, b in tree.items():
            self.mkfile("u%d/%s" % (n, rel), b + str(n).encode())
        for top in ("donn\u00e9es", "\U0001F4C1", "\u00e9\u00e9"):
            sc.add("cpx", "cpx %s 1 %s %s" % (hx(oid), hx("/"), hx("u%d/%s" % (n, top))), kind="mut", id=oid)
        if rng.random() < 0.6:
            self.commit(oid)
        sc.add("cpi", "cpi %s - 1 %s %s" % (hx(oid), hx("backup-latin"), hx("donn\u00e9es/2024")), kind="mut", id=oid)
        sc.add("cpi", "cpi %s - 1 %s %s" % (hx(oid), hx("backup-emoji"), hx("\U0001F4C1/docs")), kind="mut", id=oid)
        sc.add("mvi", "mvi %s %s %s %s" % (hx(oid), hx("merged"), hx("\u00e9\u00e9/a"), hx("\u00e9\u00e9/b")), kind="mut", id=oid)
        self.observe_staged(oid)
        self.commit(oid)
        self.observe_staged(oid)

    def sibling_dirs(self, oid):
        """a recursive operation on a directory while the object also holds directories whose names merely start with
        that directory's name (d1 next to d12/ and d1x/): only the directory itself may be affected"""
        sc, rng = self.sc, self.rng
        for src in ("d1", "d12", "d1x"):
            sc.add("cpx", "cpx %s 1 %s %s" % (hx(oid), hx("/"), hx(src)), kind="mut", id=oid)
        if rng.random() < 0.7:
            self.commit(oid)
        k = rng.choice(["rm", "cpi", "mvi", "reset"])
        if k == "rm":
            sc.add("rm", "rm %s 1 %s" % (hx(oid), hx("d1")), kind="mut", id=oid)
        elif k == "cpi":
            sc.add("cpi", "cpi %s - 1 %s %s" % (hx(oid), hx("copy-of-d1"), hx("d1")), kind="mut", id=oid)
        elif k == "mvi":
            sc.add("mvi", "mvi %s %s %s" % (hx(oid), hx("moved-d1"), hx("d1")), kind="mut", id=oid)
        else:
            sc.add("rm", "rm %s 1 %s" % (hx(oid), hx("d12")), kind="mut", id=oid)
            sc.add("rm", "rm %s 0 %s" % (hx(oid), hx("d1/x.txt")), kind="mut", id=oid)
            sc.add("resetp", "resetp %s 1 %s" % (hx(oid), hx("d1")), kind="mut", id=oid)
        self.observe_staged(oid)
        self.commit(oid)
        self.observe_staged(oid)

    def name_clash(self):
        """one internal copy with two sources that land on the same name, one a directory with files several levels
        down, the other a file: whichever is handled first, the result must not hold a path that is both.  Which
        source wins depends on hash order inside the library, so the model is not compared on these steps; the object
        is purged afterwards"""
        sc, rng = self.sc, self.rng
        n = len(sc.steps)
        oid = "clash%d" % n
        self.ids.append(oid)
        self.objs[oid] = dict(alg="sha512", cdir="content")
        for k in range(5):
            self.mkfile("nc%d/a/sub/deep/f%d.txt" % (n, k), ("deep %d %d" % (n, k)).encode())
        self.mkfile("nc%d/b/sub" % n, ("a file named sub %d" % n).encode())
        sc.add("new", "new %s sha512 %s 0 -" % (hx(oid), hx("content")), kind="mut", id=oid, cdir="content")
        sc.add("cpx", "cpx %s 1 %s %s %s" % (hx(oid), hx("/"), hx("nc%d/a" % n), hx("nc%d/b" % n)), kind="mut", id=oid)
        self.commit(oid, root=("objects/%s" % oid) if self.layout[0] == "none" else None)
        move = rng.random() < 0.4
        if move:
            sc.add("mvi", "mvi %s %s %s %s" % (hx(oid), hx("c"), hx("a/sub"), hx("b/sub")), kind="nondet", id=oid)
        else:
            sc.add("cpi", "cpi %s - 1 %s %s %s" % (hx(oid), hx("c"), hx("a/sub"), hx("b/sub")), kind="nondet", id=oid)
        sc.add("commit", "commit %s %s - - - %s 0" % (hx(oid), hx("objects/%s" % oid) if self.layout[0] == "none" else "-", self.ts()), kind="nondet", id=oid)
        sc.add("purge", "purge %s" % hx(oid), kind="mut", id=oid)
        self.ids.remove(oid)

    def repeated_names(self, oid):
        """internal recursive copies / moves where a directory has the name of its parent (`rep/rep/...`, `lib/lib/...`):
        the destination keeps every level below the copied directory"""
        sc, rng = self.sc, self.rng
        n = len(sc.steps)
        for rel, b in {"rep/rep/nested.txt": b"n", "rep/rep/deep/deep.txt": b"d", "rep/rep/rep/three.txt": b"3", "lib/lib/only.txt": b"o"}.items():
            self.mkfile("rn%d/%s" % (n, rel), b + str(n).encode())
        for top in ("rep", "lib"):
            sc.add("cpx", "cpx %s 1 %s %s" % (hx(oid), hx("/"), hx("rn%d/%s" % (n, top))), kind="mut", id=oid)
        if rng.random() < 0.6:
            self.commit(oid)
        sc.add("cpi", "cpi %s - 1 %s %s" % (hx(oid), hx("copied"), hx("rep/rep")), kind="mut", id=oid)
        sc.add("mvi", "mvi %s %s %s" % (hx(oid), hx("moved"), hx("lib")), kind="mut", id=oid)
        if rng.random() < 0.5:
            sc.add("cpi", "cpi %s - 1 %s %s" % (hx(oid), hx("again/"), hx("rep")), kind="mut", id=oid)
        self.observe_staged(oid)
        self.commit(oid)
        self.observe_staged(oid)

    def twin_create(self):
        """both clients create the same new object in their own staging areas; the first commit wins, the second
        must be refused (also without a storage layout, where the two would be stored under different roots)"""
        sc, rng = self.sc, self.rng
        oid = "twin%d" % len(sc.steps)
        self.ids.append(oid)
        self.objs[oid] = dict(alg="sha512", cdir="content")
        for k in (0, 1):
            sc.add("client", "client %d" % k, kind="skipd")
            sc.add("new", "new %s sha512 %s 0 -" % (hx(oid), hx("content")), kind="mut", id=oid, cdir="content")
            sc.add("cpx", "cpx %s 0 %s %s" % (hx(oid), hx("/"), hx(rng.choice(EXT_FILES))), kind="mut", id=oid)
        for k in (0, 1):
            sc.add("client", "client %d" % k, kind="skipd")
            self.commit(oid, root=("objects/%s-%d" % (oid, k)) if self.layout[0] == "none" else None)
        sc.add("resetall", "resetall %s" % hx(oid), kind="mut", id=oid)
        self.observe_staged(oid)

    def lookalike(self):
        """an object is purged and created again with the same paths, contents, author and message - only the time of
        the commit (and possibly the content directory) differs - while the other client holds a version staged on
        the purged one: committing that version must be refused, the new object keeps its versions as they are"""
        sc, rng = self.sc, self.rng
        n = len(sc.steps)
        oid = "look%d" % n
        self.ids.append(oid)
        self.objs[oid] = dict(alg="sha512", cdir="content")
        meta = (rng.choice(USERS), None, "same words")
        rel, rel2 = "look%d/f.txt" % n, "look%d/g.txt" % n
        self.mkfile(rel, ("lookalike %d" % n).encode())
        self.mkfile(rel2, ("later %d" % n).encode())
        root = ("objects/%s" % oid) if self.layout[0] == "none" else None
        # either the time of the commit differs, or even that is the same and the re-created version holds one file more
        same_time = rng.random() < 0.5
        when = self.ts() if same_time else None
        sc.add("client", "client 0", kind="skipd")
        sc.add("new", "new %s sha512 %s 0 -" % (hx(oid), hx("content")), kind="mut", id=oid, cdir="content")
        sc.add("cpx", "cpx %s 0 %s %s" % (hx(oid), hx("d/"), hx(rel)), kind="mut", id=oid)
        self.commit(oid, root=root, meta=meta, created=when)
        sc.add("cpx", "cpx %s 0 %s %s" % (hx(oid), hx("later/"), hx(rel2)), kind="mut", id=oid)
        sc.add("client", "client 1", kind="skipd")
        sc.add("purge", "purge %s" % hx(oid), kind="mut", id=oid)
        cd2 = rng.choice(["content", "data"])
        sc.add("new", "new %s sha512 %s 0 -" % (hx(oid), hx(cd2)), kind="mut", id=oid, cdir=cd2)
        sc.add("cpx", "cpx %s 0 %s %s" % (hx(oid), hx("d/"), hx(rel)), kind="mut", id=oid)
        if same_time:
            rel3 = "look%d/h.txt" % n
            self.mkfile(rel3, ("one more %d" % n).encode())
            sc.add("cpx", "cpx %s 0 %s %s" % (hx(oid), hx("d/"), hx(rel3)), kind="mut", id=oid)
        self.commit(oid, root=root, meta=meta, created=when)
        sc.add("client", "client 0", kind="skipd")
        self.commit(oid, root=root, meta=meta)
        sc.add("resetall", "resetall %s" % hx(oid), kind="mut", id=oid)
        self.observe_staged(oid)

    def diverge(self, oid):
        """one client stages on the current head; the other purges the object, creates it again and commits
        fewer, as many or more versions; then the first client commits its now baseless staged version"""
        sc, rng = self.sc, self.rng
        sc.add("client", "client 0", kind="skipd")
        sc.add("cpx", "cpx %s 0 %s %s" % (hx(oid), hx("diverged/"), hx(rng.choice(EXT_FILES))), kind="mut", id=oid)
        self.observe_staged(oid)
        sc.add("client", "client 1", kind="skipd")
        sc.add("purge", "purge %s" % hx(oid), kind="mut", id=oid)
        sc.add("new", "new %s %s %s 0 -" % (hx(oid), self.objs.get(oid, {}).get("alg", "sha512"), hx(self.objs.get(oid, {}).get("cdir", "content") or "content")),
               kind="mut", id=oid, cdir=self.objs.get(oid, {}).get("cdir", "content"))
        for k in range(rng.choice([1, 1, 2, 3])):
            sc.add("cpx", "cpx %s 0 %s %s" % (hx(oid), hx("again%d/" % k), hx(rng.choice(EXT_FILES))), kind="mut", id=oid)
            self.commit(oid)
        sc.add("client", "client 0", kind="skipd")
        self.commit(oid)
        # the refused version has no base any more; reading it back is not meaningful: drop it
        sc.add("resetall", "resetall %s" % hx(oid), kind="mut", id=oid)
        self.observe_staged(oid)

    def path_pool(self, oid=None):
        files, dirs = self.known.get(oid, ([], []))
        if files and self.rng.random() < (0.9 if self.hostile else 0.75):
            pool = files * 3 + dirs * 2
            if self.rng.random() < 0.3 and not any(c in "".join(files) for c in "*?[]{}\\"):
                f = self.rng.choice(files)
                pool = [f.rsplit("/", 1)[0] + "/*" if "/" in f else "*", f[:-1] + "?", f.split("/")[0] + "*"]
            return pool
        return (H_NAMES + H_FILES) if self.hostile else (NAMES + EXT_FILES)

    def rand_glob(self):
        rng = self.rng
        return rng.choice(["*", "d1/*", "*.txt", "d1", "d1/", "a.txt", "?.txt", "d1/sub", "d*", "nope", "d1/*/z.txt", "/", "d2/deep"])

    def step(self):
        rng, sc = self.rng, self.sc
        if not self.ids or (len(self.ids) < self.n_objects and rng.random() < 0.25):
            oid = self.new_object()
            self.observe_staged(oid)
            return
        oid = rng.choice(self.ids)
        if self.two_clients and rng.random() < 0.12:
            self.diverge(oid)
            return
        if self.two_clients and rng.random() < 0.08:
            self.twin_create()
            return
        if self.two_clients and rng.random() < 0.08:
            self.lookalike()
            return
        r0 = rng.random()
        if r0 < (0.10 if self.observe_history else 0.05):
            self.evolve(oid)
            return
        if 0.10 <= r0 < 0.17:
            self.overwrite_staged(oid)
            return
        if 0.17 <= r0 < 0.22:
            self.staged_alias(oid)
            return
        if 0.22 <= r0 < 0.25:
            self.unicode_dirs(oid)
            return
        if 0.25 <= r0 < 0.29:
            self.sibling_dirs(oid)
            return
        if 0.29 <= r0 < 0.32 and not self.hostile:
            self.name_clash()
            return
        if 0.32 <= r0 < 0.35:
            self.repeated_names(oid)
            return
        if self.two_clients and rng.random() < 0.35:
            sc.add("client", "client %d" % rng.randint(0, 1), kind="skipd")
        op = rng.choices(["cpx", "mvx", "cpi", "mvi", "rm", "resetp", "resetall", "commit", "purge", "upgrade", "new"],
                         self.weights)[0]
        if op == "cpx":
            if self.hostile:
                srcs = rng.sample(H_FILES + ['ünï', 'd"q', 'd"q/in"ner', "missing"], rng.choice([1, 1, 1, 2, 3]))
                dst = rng.choice(["/", ""] + H_NAMES + [n + "/" for n in H_NAMES[:4]])
            else:
                srcs = rng.sample(EXT_FILES + ["d1", "d2", "d1/sub", "missing.txt", "d12", "d1x"], rng.choice([1, 1, 1, 2, 3]))
                dst = rng.choice(["/", "", "a.txt", "new.txt", "d1", "d1/", "dir/", "d1/x.txt", "x/y/z", "e", "e/f", "bad/../p", "."])
            sc.add("cpx", "cpx %s %d %s %s" % (hx(oid), rng.randint(0, 1), hx(dst), " ".join(hx(s) for s in srcs)), kind="mut", id=oid)
        elif op == "mvx":
            # fresh files so that moved-away sources do not starve later steps
            k = rng.randint(1, 2)
            rels = []
            for j in range(k):
                rel = "mv%d_%d/%s" % (len(sc.steps), j, rng.choice(["m.txt", "sub/n.txt"]))
                self.mkfile(rel, rng.choice(CONTENTS))
                rels.append(rel)
            srcs = [rng.choice([r, r.split("/")[0]]) for r in rels]
            dst = rng.choice(["/", "moved", "moved/", "d1", "a.txt"] + (H_NAMES[:5] if self.hostile else []))
            sc.add("mvx", "mvx %s %s %s" % (hx(oid), hx(dst), " ".join(hx(s) for s in srcs)), kind="mut", id=oid)
        elif op in ("cpi", "mvi"):
            srcs = [rng.choice(self.path_pool(oid) + [self.rand_glob()]) for _ in range(rng.choice([1, 1, 1, 2]))]
            dst = rng.choice(["/", "copy.txt", "d1", "d3/", "a.txt", "d1/x.txt", "deep/er/path", "e", "b.txt"] + self.path_pool(oid)[:6] + (H_NAMES if self.hostile else []))
            if op == "cpi":
                ver = rng.choice(["-", "-", "v1", "v2", "v9"])
                sc.add("cpi", "cpi %s %s %d %s %s" % (hx(oid), ver, rng.randint(0, 1), hx(dst), " ".join(hx(s) for s in srcs)), kind="mut", id=oid)
            else:
                sc.add("mvi", "mvi %s %s %s" % (hx(oid), hx(dst), " ".join(hx(s) for s in srcs)), kind="mut", id=oid)
        elif op in ("rm", "resetp"):
            ps = [rng.choice(self.path_pool(oid) + [self.rand_glob()]) for _ in range(rng.choice([1, 1, 2]))]
            sc.add(op, "%s %s %d %s" % (op, hx(oid), rng.randint(0, 1), " ".join(hx(p) for p in ps)), kind="mut", id=oid)
        elif op == "resetall":
            sc.add("resetall", "resetall %s" % hx(oid), kind="mut", id=oid)
        elif op == "purge":
            sc.add("purge", "purge %s" % hx(oid), kind="mut", id=oid)
        elif op == "upgrade":
            created = self.ts()
            h = "upgrade %s 1.1 %s - %s %s 0" % (hx(oid), hx("me"), hx("upgrade"), created)

            def d(hres, i, oid=oid, created=created):
                keep = keep_from_manifest(hres[i + 1]) if hres[i].startswith("ok") else keep_from_manifest(hres[i + 2])
                return "upgrade %s 1.1 %d %s - %s %s %s" % (hx(oid), 0 if self.layout[0] == "none" else 1, hx("me"), hx("upgrade"), created, keep)
            sc.add("upgrade", h, d, kind="mut", id=oid)
            sc.add("manifest", "manifest %s" % hx(oid), kind="manifest", id=oid)
            sc.add("smanifest", "smanifest %s" % hx(oid), kind="manifest", id=oid)
            self.observe_main(oid)
        elif op == "new":
            sc.add("new", "new %s sha512 %s 0 -" % (hx(oid), hx("content")), kind="mut", id=oid, cdir="content")
        if op == "commit":
            self.commit(oid)
        self.observe_staged(oid)
        if rng.random() < 0.5:
            p = rng.choice(self.path_pool(oid))
            sc.add("cat", "cat %s S %s" % (hx(oid), hx(p)), kind="cat", id=oid)
        if rng.random() < 0.3:
            p = rng.choice(self.path_pool(oid))
            sc.add("cat", "cat %s %s %s" % (hx(oid), rng.choice(["-", "v1", "v2"]), hx(p)), kind="cat", id=oid)
        if self.observe_ls:
            self.observe_listing()
        if rng.random() < 0.1:
            sc.add("open", "open", "heads %s" % hx(oid), kind="skip")

    def install_hooks(self):
        ctx, oracles = getattr(self, "ctx", None), getattr(self, "oracles", None)
        if ctx is None:
            return
        self.fails = []

        def before(st):
            if st["op"] == "reset":
                return
            for o in oracles:
                o.before(ctx, st)

        def after(st, resp):
            if st["op"] == "reset":
                ctx.n += 1
                return
            for o in oracles:
                for f in o.after(ctx, st, resp) or []:
                    self.fails.append((len(self.sc.steps), o.name, f))
        self.sc.hook_before, self.sc.hook_after = before, after

    def build(self):
        self.install_hooks()
        self.setup()
        for _ in range(self.n_ops):
            self.step()
        self.sc.add("nondet", "heads %s" % hx(self.ids[0] if self.ids else "x"), "nondet", kind="nondet")
        return self.sc


# ---------------------------------------------------------------------------- comparison

def canon_view(resp):
    """harness `staged`/`ver` JSON -> {path: (digest, content_path, last_update)}"""
    if not resp.startswith("ok "):
        return resp.split(" ")[0]
    j = json.loads(resp[3:])
    return {p: (v[0], v[1], v[2].lstrip("v").lstrip("0") or "0") for p, v in j["state"].items()}


def canon_model_view(resp):
    if not resp.startswith("ok"):
        return resp.split(" ")[0]
    out = {}
    for row in resp[3:].split():
        p, d, cps, lu = row.split(":")
        out[unhx(p).decode()] = (d, [unhx(c).decode() for c in cps.split("|")] if cps != "!" else None, lu.lstrip("v"))
    return out


def compare_view(h, d):
    a, b = canon_view(h), canon_model_view(d)
    if isinstance(a, str) or isinstance(b, str):
        return a == b, "%s vs %s" % (a if isinstance(a, str) else "ok", b if isinstance(b, str) else "ok")
    if set(a) != set(b):
        return False, "paths differ: impl-only %s model-only %s" % (sorted(set(a) - set(b)), sorted(set(b) - set(a)))
    for p in a:
        if a[p][0] != b[p][0]:
            return False, "digest of %s differs" % p
        if b[p][1] is None or a[p][1] not in b[p][1]:
            return False, "content path of %s: impl %s not among model's admissible %s" % (p, a[p][1], b[p][1])
        if a[p][2] != b[p][2]:
            return False, "last update of %s: impl v%s model v%s" % (p, a[p][2], b[p][2])
    return True, ""


def canon_pairs_h_manifest(resp):
    if not resp.startswith("ok "):
        return resp.split(" ")[0]
    m = json.loads(resp[3:])
    return sorted((cp, dg) for dg, cps in m.items() for cp in cps)


def canon_pairs_h_files(resp):
    if not resp.startswith("ok "):
        return resp.split(" ")[0]
    return sorted(json.loads(resp[3:]).items())


def canon_pairs_model(resp):
    if not resp.startswith("ok"):
        return resp.split(" ")[0]
    return sorted((unhx(r.split(":")[0]).decode(), r.split(":")[1]) for r in resp[3:].split())


def outcome(resp):
    """ok | err:<kind> | panic"""
    t = resp.split(" ")[0]
    return t


def compare_step(step, h, d, contents, alg_of):
    kind = step["kind"]
    if kind in ("setup", "skip", "skipd"):
        return True, ""
    if kind == "nondet":
        return True, ""
    if kind in ("mut", "plain"):
        if kind == "plain":
            return h == d, "%s vs %s" % (h, d)
        return outcome(h) == outcome(d), "outcome impl %s model %s" % (outcome(h), outcome(d))
    if kind == "view":
        return compare_view(h, d)
    if kind == "manifest":
        a, b = canon_pairs_h_manifest(h), canon_pairs_model(d)
        return a == b, "manifest impl %s model %s" % (a, b)
    if kind == "files":
        a, b = canon_pairs_h_files(h), canon_pairs_model(d)
        return a == b, "content files impl %s model %s" % (a, b)
    if kind == "ls":
        if not h.startswith("ok") or not d.startswith("ok"):
            return outcome(h) == outcome(d), "ls outcome impl %s model %s" % (outcome(h), outcome(d))
        j = json.loads(h[3:])
        a = sorted("%s:v%d" % (hx(o[0]), int(o[1][1:])) for o in j["objects"])
        b = sorted(d[3:].split())
        if j["errors"]:
            return False, "listing reported %d errors" % j["errors"]
        return a == b, "listing impl %s model %s" % ([x for x in a if x not in b][:4], [x for x in b if x not in a][:4])
    if kind == "diff":
        if not h.startswith("ok") or not d.startswith("ok"):
            return outcome(h) == outcome(d), "diff outcome impl %s model %s" % (outcome(h), outcome(d))
        items = []
        for it in json.loads(h[3:]):
            if it[0] == "R":
                items.append("R:%s>%s" % (",".join(hx(x) for x in it[1]), ",".join(hx(x) for x in it[2])))
            else:
                items.append("%s:%s" % (it[0], hx(it[1])))
        a, b = sorted(items), sorted(d[3:].split())
        return a == b, "diff impl %s model %s" % (a, b)
    if kind == "log":
        if not h.startswith("ok") or not d.startswith("ok"):
            return outcome(h) == outcome(d), "log outcome impl %s model %s" % (outcome(h), outcome(d))
        def oh(x):
            return "n" if x is None else "s" + hx(x)
        a = ["v%d|%s|%s|%s|%s" % (int(v["v"][1:]), oh(v["user"]), oh(v["addr"]), oh(v["msg"]), v["created"]) for v in json.loads(h[3:])]
        b = d[3:].split()
        return a == b, "log impl %s model %s" % (a, b)
    if kind == "flog":
        if not h.startswith("ok") or not d.startswith("ok"):
            return outcome(h) == outcome(d), "file log outcome impl %s model %s" % (outcome(h), outcome(d))
        a = [int(v[1:]) for v in json.loads(h[3:])]
        b = [int(v[1:]) for v in d[3:].split(",") if v]
        return a == b, "file log impl %s model %s" % (a, b)
    if kind == "cat":
        if not h.startswith("ok") or not d.startswith("ok"):
            return outcome(h) == outcome(d), "cat outcome impl %s model %s" % (outcome(h), outcome(d))
        s256 = h.split(" ")[1].split(":")[0]
        b = contents.get(s256)
        if b is None:
            return False, "cat returned bytes that were never ingested"
        ds = d.split(" ")[1].split("|") if len(d.split(" ")) > 1 else []
        ok = any(sha("sha256", b) == x or sha("sha512", b) == x for x in ds) and len(ds) == 1
        return ok, "cat bytes digest %s vs model %s" % (s256, ds)
    return True, ""


def run_scripts(scripts, hbin, drv):
    """returns per script: list of (step, hresp, dresp, ok, detail) up to the first #nondet"""
    from vlib.core import run_lines
    if all("hres" in st for sc in scripts for st in sc.steps):
        hres = [st["hres"] for sc in scripts for st in sc.steps]
    else:
        hl = []
        for sc in scripts:
            hl += sc.hlines()
        hres = run_lines(hbin, hl)
    dl = []
    off = 0
    per = []
    for sc in scripts:
        n = len(sc.steps)
        hr = hres[off:off + n]
        off += n
        per.append(hr)
        dl += sc.dlines(hr)
    dres = run_lines(drv, dl)
    out = []
    off = 0
    for sc, hr in zip(scripts, per):
        n = len(sc.steps)
        dr = dres[off:off + n]
        off += n
        rows = []
        nondet = False
        for st, h, d in zip(sc.steps, hr, dr):
            if d.endswith(" #nondet"):
                nondet = True
                break
            ok, detail = compare_step(st, h, d, sc.contents, None)
            rows.append((st, h, d, ok, detail))
        out.append(dict(rows=rows, nondet=nondet, hres=hr, dres=dr))
    return out
