"""Shared machinery for the S3 properties (C15, C16): the same protocol lines are sent to a filesystem-backed
harness and to an S3-backed harness that talks to the in-process stand-in (vlib/s3mock.py)."""
import copy, hashlib, json, os, random, re, shutil
from vlib import core, histprop, s3mock, faultprop
from vlib.core import hx, unhx

TS = "2022-05-06T07:08:09+00:00"
NAMES = ["a.txt", "b.bin", "dir/c.txt", "dir/sub/d.bin", "e", "sp ace.txt", "uni-é.txt", "big.bin"]
LAYOUTS = [("0004-hashed-n-tuple-storage-layout", None), ("0003-hash-and-id-n-tuple-storage-layout", None), ("0002-flat-direct-storage-layout", None),
           ("0004-hashed-n-tuple-storage-layout", {"extensionName": "0004-hashed-n-tuple-storage-layout", "digestAlgorithm": "sha256", "tupleSize": 2, "numberOfTuples": 2, "shortObjectRoot": True}),
           ("none", None)]
COMPARED = {"new", "cpx", "mvx", "cpi", "mvi", "rm", "resetp", "resetall", "commit", "upgrade", "upgraderepo", "purge", "staged", "ver", "cat",
            "diff", "diffstaged", "log", "flog", "ls", "lsstaged", "info", "repoinfo", "validate", "validaterepo"}


def norm(op, r):
    """responses with storage locations and deduplication choices removed"""
    if not r.startswith("ok "):
        return r.split(" ")[0]
    try:
        j = json.loads(r[3:])
    except ValueError:
        return r
    if op == "repoinfo":
        # the filesystem repository keeps its internal staging area under extensions/; the S3 one stages locally
        j["extensions"] = [e for e in j.get("extensions", []) if e != "rocfl-staging"]
    if op == "staged" and isinstance(j.get("version"), dict):
        j["version"].pop("created", None)      # wall-clock time of staging
    if op in ("staged", "ver"):
        j.pop("root", None)
        # digest and version of last update; which of several content paths of one digest is shown depends on hash-map order
        j["state"] = {k: [v[0], v[2]] for k, v in j["state"].items()}
    elif op == "validaterepo":
        j["objects"] = sorted([o[0], o[2]] for o in j["objects"])
    return json.dumps(j, sort_keys=True)


class Dual:
    """FS harness + S3 harness (own staging each) driven with the same lines"""

    def __init__(self, rng, prefix, page_size, layout, spec):
        self.server = s3mock.Server()
        self.server.state.page_size = page_size
        self.fs = histprop.LiveH(core.build_harness())
        env_backup = dict(os.environ)
        os.environ.update(self.server.client_env())
        try:
            self.s3 = histprop.LiveH(core.build_harness("s3"))
        finally:
            os.environ.clear(); os.environ.update(env_backup)
        self.prefix = prefix
        self.bucket = "bkt"
        self.diffs = []
        self.hist = []
        assert self.fs.ask("reset") == "ok" and self.s3.ask("reset") == "ok"
        name, cfg = layout
        c = hx(json.dumps(cfg)) if cfg else "-"
        r1 = self.fs.ask("init %s %s %s default" % (name, c, spec))
        r2 = self.s3.ask("inits3 %s %s %s %s %s %s" % (hx(self.server.endpoint), self.bucket, hx(prefix) if prefix else "-", name, c, spec))
        self.init_ok = (r1 == "ok" and r2 == "ok")
        if not self.init_ok:
            self.diffs.append(dict(line="init", fs=r1, s3=r2))
        self.fs_root = os.path.join(self.fs.base, "r1", "root")
        self.s3_staging = os.path.join(self.s3.base, "r1", "staging")

    def close(self):
        self.fs.close(); self.s3.close(); self.server.close()

    def both(self, line, compare=True):
        op = line.split(" ")[0]
        a, b = self.fs.ask(line), self.s3.ask(line)
        self.hist.append("%s -> fs:%s s3:%s" % (show(line), a[:40], b[:40]))
        if compare and op in COMPARED and norm(op, a) != norm(op, b):
            self.diffs.append(dict(line=show(line), fs=a[:600], s3=b[:600]))
        return a, b

    # ------------------------------------------------------------------------------------- end state
    def key_tree(self):
        """the bucket as a file tree relative to the repository prefix, canonicalised like a directory"""
        d = self.server.state.dump(self.bucket)
        pre = (self.prefix.strip("/") + "/") if self.prefix else ""
        out, outside = {}, []
        for k, v in d.items():
            if not k.startswith(pre):
                outside.append(k); continue
            out[k[len(pre):]] = v
        return out, outside

    def compare_trees(self):
        """keys under the prefix == files under the FS storage root (minus the internal staging area), same bytes;
        inventories compared as JSON values modulo the deduplication choice, sidecars against their inventory"""
        keys, outside = self.key_tree()
        problems = []
        if outside:
            problems.append("keys outside the repository prefix: %s" % outside[:3])
        files = {}
        for d, dirs, fs in os.walk(self.fs_root):
            rel = os.path.relpath(d, self.fs_root)
            if rel.startswith("extensions/rocfl-staging"):
                dirs[:] = []
                continue
            for f in fs:
                files[os.path.normpath(os.path.join(rel, f))] = open(os.path.join(d, f), "rb").read()

        def canon(tree):
            out = {}
            # object roots: directories holding an object declaration (ids may look like 'p/v1/content', so a
            # 'v1' segment above the object root is part of the root, not a version directory)
            roots = sorted({p.rsplit("/", 1)[0] if "/" in p else "" for p in tree if p.rsplit("/", 1)[-1].startswith("0=ocfl_object_")}, key=len, reverse=True)
            for p, b in tree.items():
                parts = p.split("/")
                root = next((r for r in roots if r == "" or p.startswith(r + "/")), None)
                skip = 0 if not root else len(root.split("/"))
                vi = next((i for i, x in enumerate(parts) if i >= skip and re.fullmatch(r"v\d+", x)), None) if root is not None else None
                base = parts[-1]
                if vi is not None and len(parts) >= vi + 3:
                    k = "/".join(parts[:vi + 2]) + "/#" + hashlib.sha256(b).hexdigest()[:16]
                    out[k] = out.get(k, 0) + 1
                elif base == "inventory.json":
                    try:
                        j = json.loads(b)
                        j["manifest"] = {k: sorted(x.split("/")[0] for x in v) for k, v in j.get("manifest", {}).items()}
                        for blk in j.get("versions", {}).values():
                            blk["state"] = {k: sorted(v) for k, v in blk.get("state", {}).items()}
                        out[p] = "inv:" + hashlib.sha256(json.dumps(j, sort_keys=True).encode()).hexdigest()[:16]
                    except ValueError:
                        out[p] = "inv-unparsable"
                elif base.startswith("inventory.json."):
                    inv = tree.get(p.rsplit("/", 1)[0] + "/inventory.json" if "/" in p else "inventory.json")
                    alg = base.split(".")[-1]
                    try:
                        ok = inv is not None and b.split()[0].decode().lower() == hashlib.new(alg, inv).hexdigest() and b.split()[1] == b"inventory.json"
                    except Exception:
                        ok = False
                    out[p] = "sidecar-ok" if ok else "sidecar-MISMATCH"
                else:
                    out[p] = hashlib.sha256(b).hexdigest()[:16]
            return out
        ck, cf = canon(keys), canon(files)
        if ck != cf:
            only_s3 = sorted(set(ck.items()) - set(cf.items()))[:5]
            only_fs = sorted(set(cf.items()) - set(ck.items()))[:5]
            problems.append("the bucket and the filesystem repository differ: only on S3 %s, only on the filesystem %s" % (only_s3, only_fs))
        return problems


def show(line):
    t = line.split(" ")
    out = [t[0]]
    for x in t[1:]:
        if re.fullmatch(r"([0-9a-f]{2})+", x) and len(x) < 400:
            try:
                out.append(repr(unhx(x).decode("utf-8")))
                continue
            except Exception:
                pass
        out.append(x if len(x) < 60 else x[:40] + "…")
    return " ".join(out)


class LineGen:
    """protocol lines for histories whose outcome does not depend on hash-map order inside the library
    (no two sources landing on one target)"""

    def __init__(self, rng, dual, layout, big=False, path_ids=None):
        self.rng, self.dual, self.layout = rng, dual, layout
        self.ids = ["obj-%d" % k for k in range(rng.randint(1, 3))]
        if layout[0].startswith("0002") and (path_ids if path_ids is not None else rng.random() < 0.6):
            # ids that are paths: prefixes of one another, through another object's inner directories, escaping
            self.ids = list(rng.choice([["a", "a/v1/x", "a/b", "z"], ["coll/2024/rep1", "coll/2024/rep2", "coll"], ["../esc", "ok", "ok/../../y"],
                                        ["p", "p/v1/content", "p/extensions/e"], ["file-extensions", "coll/my_extensions", "extensions-x", "plain"]]))
        self.big = big
        self.files = rng.sample(NAMES[:-1], rng.randint(3, 6)) + (["big.bin"] if big else [])
        self.k = 0

    def setup(self):
        rng = self.rng
        for i, f in enumerate(self.files):
            if f == "big.bin":
                n = rng.choice([5 * 1024 * 1024 + 1, 10 * 1024 * 1024 + 7] if self.big == "multipart" else [5 * 1024 * 1024 + 1, 5 * 1024 * 1024, 10 * 1024 * 1024 + 7, 5 * 1024 * 1024 - 1])
                line = "mkfile %s gen:%d:%d" % (hx(f), n, rng.randint(1, 99))
            else:
                b = bytes([i]) + rng.randbytes(rng.choice([0, 1, 30, 4000]))
                line = "mkfile %s %s" % (hx(f), hx(b))
            self.dual.both(line, compare=False)

    def known(self, oid):
        out = []
        for q in ("staged %s" % hx(oid), "ver %s -" % hx(oid)):
            r = self.dual.fs.ask(q)
            if r.startswith("ok "):
                out += list(json.loads(r[3:])["state"])
        return sorted(set(out))

    def commit_line(self, oid, pretty=None):
        rng = self.rng
        root = "-"
        if self.layout[0] == "none":
            root = hx("objects/" + oid)
        return "commit %s %s %s %s %s %s %d" % (hx(oid), root, hx("Me"), hx("mailto:me@example.org") if rng.random() < 0.5 else "-",
                                               hx(rng.choice(["msg", "two words", "üñí"])), TS, rng.randint(0, 1) if pretty is None else pretty)

    def warmup(self):
        out = []
        for o in self.ids:
            out += ["new %s %s %s %d -" % (hx(o), self.rng.choice(["sha256", "sha512"]), hx(self.rng.choice(["content", "data"])), self.rng.choice([0, 0, 3])),
                    "cpx %s 1 %s %s" % (hx(o), hx("/"), " ".join(hx(f) for f in self.files[:2] + (["big.bin"] if "big.bin" in self.files else []))),
                    self.commit_line(o)]
        return out

    def next(self):
        rng = self.rng
        oid = rng.choice(self.ids)
        have = self.known(oid)

        def lp():
            if have and rng.random() < 0.75:
                p = rng.choice(have)
                return p if rng.random() < 0.8 or "/" not in p else p.rsplit("/", 1)[0]
            return rng.choice(["a.txt", "dir", "dir/c.txt", "x/y.txt", "missing", "*", "dir/*"])
        kind = rng.choices(["cpx", "mvx", "cpi", "mvi", "rm", "resetp", "resetall", "commit", "upgrade", "purge", "new"], [22, 5, 10, 8, 8, 5, 2, 25, 3, 2, 4])[0]
        if kind == "cpx":
            srcs = rng.sample(self.files + ["dir", "missing-src"], rng.choice([1, 1, 2, 3]))
            # distinct base names only
            seen, keep = set(), []
            for s in srcs:
                b = s.rsplit("/", 1)[-1]
                if b not in seen:
                    seen.add(b); keep.append(s)
            dst = rng.choice(["/", "dst/", "x/y/"] if len(keep) > 1 else ["/", "dst/", "a.txt", "x/y.txt", "dir"])
            return "cpx %s %d %s %s" % (hx(oid), rng.randint(0, 1), hx(dst), " ".join(hx(s) for s in keep))
        if kind == "mvx":
            self.k += 1
            rel = "mv%d/m.txt" % self.k
            self.dual.both("mkfile %s %s" % (hx(rel), hx(b"moved %d" % self.k + rng.randbytes(5))), compare=False)
            return "mvx %s %s %s" % (hx(oid), hx(rng.choice(["/", "moved/", "m%d.txt" % self.k])), hx(rel))
        if kind == "cpi":
            s = lp()
            single = not any(c in s for c in "*?")
            return "cpi %s %s %d %s %s" % (hx(oid), rng.choice(["-", "-", "v1", "v2"]), rng.randint(0, 1), hx(rng.choice(["/", "copy.txt", "d3/", "dir"] if single else ["d3/", "/"])), hx(s))
        if kind == "mvi":
            s = lp()
            single = not any(c in s for c in "*?")
            return "mvi %s %s %s" % (hx(oid), hx(rng.choice(["ren.txt", "d4/", "/"] if single else ["d4/", "/"])), hx(s))
        if kind in ("rm", "resetp"):
            return "%s %s %d %s" % (kind, hx(oid), rng.randint(0, 1), " ".join(hx(lp()) for _ in range(rng.choice([1, 2]))))
        if kind == "resetall":
            return "resetall %s" % hx(oid)
        if kind == "commit":
            return self.commit_line(oid)
        if kind == "upgrade":
            return "upgrade %s 1.1 %s - %s %s 0" % (hx(oid), hx("Me"), hx("upgrade"), TS)
        if kind == "purge":
            return "purge %s" % hx(oid)
        return "new %s sha512 %s 0 -" % (hx(oid), hx("content"))

    def observations(self):
        rng = self.rng
        out = ["ls -", "lsstaged -", "repoinfo", "validaterepo 1"]
        for o in self.ids:
            out += ["ver %s -" % hx(o), "staged %s" % hx(o), "log %s" % hx(o), "info %s" % hx(o), "validate %s 1" % hx(o), "diffstaged %s" % hx(o)]
            have = self.known(o)
            for p in rng.sample(have, min(3, len(have))):
                out += ["cat %s - %s" % (hx(o), hx(p)), "cat %s S %s" % (hx(o), hx(p)), "flog %s %s" % (hx(o), hx(p)), "cat %s v1 %s" % (hx(o), hx(p))]
            out += ["diff %s v1 v2" % hx(o), "diff %s - v2" % hx(o), "ver %s v1" % hx(o)]
        out += ["ls %s" % hx("obj-*"), "ls %s" % hx("*1")]
        return out


# ------------------------------------------------------------------------------------------ C16: faults

def object_prefix(dual, oid):
    """storage path of the object relative to the bucket, found through its inventory keys"""
    for k, v in dual.server.state.dump(dual.bucket).items():
        if k.endswith("/inventory.json") and not re.search(r"/v\d+/inventory.json$", k):
            try:
                if json.loads(v).get("id") == oid:
                    return k[:-len("/inventory.json")]
            except ValueError:
                pass
    return None


def snapshot(dual):
    st = dual.server.state
    with st.lock:
        objs = dict(st.objects)
    d = dual.s3_staging + ".snap"
    shutil.rmtree(d, ignore_errors=True)
    if os.path.isdir(dual.s3_staging):
        shutil.copytree(dual.s3_staging, d, symlinks=True)
    return objs, d


def restore(dual, snap):
    objs, d = snap
    st = dual.server.state
    with st.lock:
        st.objects = dict(objs)
        st.uploads = {}
        st.fault = None
    shutil.rmtree(dual.s3_staging, ignore_errors=True)
    if os.path.isdir(d):
        shutil.copytree(d, dual.s3_staging, symlinks=True)


def commit_faults(dual, oid, line, modes=("500", "drop"), limit=None, rng=None):
    """run `line` (a commit or upgrade of `oid`) on the S3 side once cleanly and once per request with that
    request failing; yields observation dicts"""
    s3 = dual.s3
    is_upgrade = line.startswith("upgrade ")
    snap = snapshot(dual)
    pre_bucket = snap[0]
    pre_ver = s3.ask("ver %s -" % hx(oid))
    def staged_state():
        # the logical state only: a failed commit leaves its metadata (and a deduplicated manifest, finding C09-K1) in the staged inventory
        r = s3.ask("staged %s" % hx(oid))
        if not r.startswith("ok "):
            return r.split(" ")[0]
        return {k: v[0] for k, v in json.loads(r[3:])["state"].items()}
    pre_staged = staged_state()
    oroot_before = object_prefix(dual, oid)
    dual.server.state.take_log()
    base = s3.ask(line)
    log = dual.server.state.take_log()
    if not base.startswith("ok"):
        restore(dual, snap)
        return
    post_bucket = dict(dual.server.state.dump(dual.bucket))
    oroot = object_prefix(dual, oid)
    post_ver = norm("ver", s3.ask("ver %s -" % hx(oid)))
    inv = json.loads(post_bucket[oroot + "/inventory.json"])
    newv = inv["head"]
    targets = list(range(1, len(log) + 1))
    if limit and len(targets) > limit:
        # always the last eight requests (inventory installation, declaration swap), a sample of the rest
        keep = set(targets[-8:])
        # one request of every kind of a multipart upload (create, a part, complete) whenever the commit has any
        for kind in ("CREATE_MPU", "UPLOAD_PART", "COMPLETE_MPU"):
            ks = [i for i in targets if log[i - 1][0] == kind]
            if ks:
                keep.add(rng.choice(ks))
        rest = [t for t in targets if t not in keep]
        keep |= set(rng.sample(rest, max(0, min(len(rest), limit - len(keep)))))
        targets = sorted(keep)
    for k in targets:
        for mode in modes:
            restore(dual, snap)
            dual.server.state.take_log()
            dual.server.state.set_fault(k, mode)
            r = s3.ask(line)
            dual.server.state.clear_fault()
            flog = dual.server.state.take_log()
            bucket = dual.server.state.dump(dual.bucket)
            obs = dict(k=k, mode=mode, request=log[k - 1][:3], result=r.split(" ")[0], fault_log=[e for e in flog if e[3] != "ok"],
                       requests_after_fault=[e[:3] for e in flog[k:]], fails=[])
            what = "request #%d of the commit (%s %s) failing with %s" % (k, log[k - 1][0], log[k - 1][2].replace(oroot or "", "$OBJ")[-60:], "HTTP 500" if mode == "500" else "a dropped connection")
            if r.startswith("ok"):
                # success may only be reported with the complete new version in place
                now = norm("ver", s3.ask("ver %s -" % hx(oid)))
                if now != post_ver or {k2: v for k2, v in bucket.items()} != post_bucket:
                    obs["fails"].append("%s: commit reported success but the repository is not the new state" % what)
                obs["cls"] = "new"
                yield obs
                continue
            obs["cls"] = "failed"
            # (b) earlier versions, root inventory and sidecar
            for key, val in pre_bucket.items():
                b, kk = key
                if b != dual.bucket or oroot is None or not kk.startswith(oroot + "/"):
                    if bucket.get(kk) != val and b == dual.bucket:
                        obs["fails"].append("%s: key of another object or of the storage root changed: %s" % (what, kk))
                    continue
                if bucket.get(kk) != val:
                    rel = kk[len(oroot) + 1:]
                    obs["fails"].append("%s: `%s` of the object %s" % (what, rel, "is gone" if kk not in bucket else "was overwritten"))
            if oroot_before is not None:
                now_ver = s3.ask("ver %s -" % hx(oid))
                if norm("ver", now_ver) != norm("ver", pre_ver):
                    obs["fails"].append("%s: the last committed version is no longer readable as before: %s" % (what, now_ver[:120]))
            # (c) nothing of the failed version is left
            left = sorted(kk for kk in bucket if oroot and kk.startswith(oroot + "/") and (dual.bucket, kk) not in pre_bucket)
            if left:
                obs["fails"].append("%s: keys of the failed version were left behind: %s" % (what, [x[len(oroot) + 1:] for x in left][:4]))
            # (d) staged version kept, retry works
            now_staged = staged_state()
            if is_upgrade and not isinstance(pre_staged, dict):
                # an upgrade stages its own version: afterwards it is either absent again or kept for the retry,
                # with the logical state of the committed head
                head_state = {k: v[0] for k, v in json.loads(pre_ver[3:])["state"].items()} if pre_ver.startswith("ok ") else None
                if isinstance(now_staged, dict) and now_staged != head_state:
                    obs["fails"].append("%s: the version staged by the upgrade does not have the state of the head version" % what)
            elif now_staged != pre_staged:
                obs["fails"].append("%s: the staged version is not what it was" % what)
            if not obs["fails"]:
                r2 = s3.ask(line)
                if not r2.startswith("ok") and is_upgrade and isinstance(now_staged, dict):
                    # the staged inventory already carries the new spec version: an ordinary commit completes the upgrade
                    r2 = s3.ask("commit %s - %s - %s %s 0" % (hx(oid), hx("Me"), hx("upgrade"), TS))
                if not r2.startswith("ok") or norm("ver", s3.ask("ver %s -" % hx(oid))) != post_ver:
                    obs["fails"].append("%s: retrying the commit afterwards %s" % (what, "failed: " + r2[:100] if not r2.startswith("ok") else "did not produce the new version"))
            yield obs
    restore(dual, snap)
    # leave both sides in the committed state
    s3.ask(line)
