"""C11 — objects are stored exactly where the declared layout extension prescribes."""
import hashlib, json, os, random
from vlib import core
from vlib.core import hx

RULE = ("(extension, configuration JSON, object id) triples: parameters over the legal grid and its boundary, "
        "ids from a hostile alphabet; a case is non-trivial/distinct by (extension, config verdict, outcome kind, "
        "id features: needs-encoding / long / delimiter position / non-ASCII / shorter-than-width)")
ASSUMPTIONS = [
    "digest of the id is computed by Python hashlib and handed to the model (model is parametric in it)",
    "Unicode case mapping is a parameter of the model; the driver instantiates it with a table generated from Python's str.lower/upper over U+0000-024F, U+0400-045F, U+1E9E, U+212A; generators draw cased characters only from there",
    "serde_json parsing of the extension config (defaults applied per the extension documents) is exercised, not modelled",
]
TRUSTED_BASE = ["Lean 4.33 kernel", "axioms: propext, Classical.choice, Quot.sound (as printed by #print axioms)",
                "hand-written model RocflModel/Layout.lean tied to src/ocfl/store/layout.rs by this correspondence run",
                "Rust harness (StorageLayout::new + map_object_id under catch_unwind)", "Python hashlib",
                "compiled Lean driver (definitions are the proved ones; compilation trusted)"]
CORRESPONDENCE = "Layout.mapObjectId/validateCfg (lean/RocflModel/Layout.lean) vs StorageLayout::new + map_object_id (src/ocfl/store/layout.rs)"

ALGS = {"md5": lambda b: hashlib.md5(b).hexdigest(), "sha1": lambda b: hashlib.sha1(b).hexdigest(),
        "sha256": lambda b: hashlib.sha256(b).hexdigest(), "sha512": lambda b: hashlib.sha512(b).hexdigest(),
        "sha512/256": lambda b: hashlib.new("sha512_256", b).hexdigest(),
        "blake2b-512": lambda b: hashlib.blake2b(b).hexdigest(),
        "blake2b-160": lambda b: hashlib.blake2b(b, digest_size=20).hexdigest(),
        "blake2b-256": lambda b: hashlib.blake2b(b, digest_size=32).hexdigest(),
        "blake2b-384": lambda b: hashlib.blake2b(b, digest_size=48).hexdigest()}
HEXLEN = {"md5": 32, "sha1": 40, "sha256": 64, "sha512": 128, "sha512/256": 64, "blake2b-512": 128,
          "blake2b-160": 40, "blake2b-256": 64, "blake2b-384": 96}
EXT = {"0002": "0002-flat-direct-storage-layout", "0003": "0003-hash-and-id-n-tuple-storage-layout",
       "0004": "0004-hashed-n-tuple-storage-layout", "0006": "0006-flat-omit-prefix-storage-layout",
       "0007": "0007-n-tuple-omit-prefix-storage-layout"}

PLAIN = "abcXYZ019-_"
ENC = " ./:%$#?&+=~'\"\\<>|*\t\n\x00\x7f"
NONASCII_SIMPLE = "éÉèüÜñÑжЖдД中文日本🙂߿"        # lower/upper are 1:1 and keep the UTF-8 length
NONASCII_ODD = "İẞKſıÿµ"                           # case mapping changes the UTF-8 length or is 1:n


def nonsimple(s):
    for c in s:
        lo = c.lower()
        if len(lo) != 1 or len(lo.encode()) != len(c.encode()):
            return True
    return False


def gen_id(rng, delim=None, ascii_only=False):
    kind = rng.choice(["plain", "enc", "uni", "long", "short", "delim", "delim", "odd", "mixed", "boundary"])
    if kind == "boundary":
        # ids whose percent-encoded form has a length on either side of the limits the extensions name (100 for the
        # truncation of 0003's encapsulation directory; 255 as the usual file-name limit)
        target = rng.choice([99, 100, 100, 101, 254, 255, 256])
        specials = rng.choice([0, 0, 1, 2, 5])
        plain = max(1, target - 3 * specials)
        chars = [rng.choice(PLAIN) for _ in range(plain)] + [rng.choice(":/ %") for _ in range(specials)]
        rng.shuffle(chars)
        return "".join(chars)
    alpha = PLAIN
    if kind in ("enc", "mixed"):
        alpha += ENC
    if kind in ("uni", "mixed") and not ascii_only:
        alpha += NONASCII_SIMPLE
    if kind == "odd" and not ascii_only:
        alpha += NONASCII_ODD + NONASCII_SIMPLE
    n = {"long": rng.randint(90, 140), "short": rng.randint(1, 3)}.get(kind, rng.randint(1, 24))
    s = "".join(rng.choice(alpha) for _ in range(n))
    if delim and (kind == "delim" or rng.random() < 0.6):
        # place the delimiter (random case) at random positions incl. both ends / repeated
        for _ in range(rng.randint(1, 3)):
            pos = rng.choice([0, len(s), rng.randint(0, len(s))])
            d = "".join(rng.choice([ch.lower(), ch.upper(), ch]) for ch in delim)
            if len(d) != len(delim):
                d = delim
            s = s[:pos] + d + s[pos:]
    return s


def gen_case(rng):
    ext = rng.choice(["0002", "0003", "0003", "0004", "0004", "0006", "0006", "0007", "0007"])
    cfg = {"extensionName": EXT[ext]}
    alg, ts, nt, short, delim, pad, rev = "sha256", 3, 3, False, "", "left", False
    if ext in ("0003", "0004"):
        if rng.random() < 0.8:
            alg = rng.choice(list(ALGS)); cfg["digestAlgorithm"] = alg
        mode = rng.random()
        if mode < 0.55:       # legal grid
            ts = rng.randint(0, 8); nt = rng.randint(0, 8)
            if rng.random() < 0.3:
                ts = nt = 0
        elif mode < 0.8:      # boundary of product vs digest length
            L = HEXLEN[alg]
            ts = rng.choice([1, 2, 4, 8, 16, 32, 33, L // 2, L]); nt = max(0, L // max(ts, 1) + rng.choice([-1, 0, 0, 1]))
        else:
            ts = rng.choice([0, 1, 31, 32, 33, 64, 128]); nt = rng.choice([0, 1, 2, 4, 32, 33])
        if rng.random() < 0.9:
            cfg["tupleSize"] = ts
        else:
            ts = 3
        if rng.random() < 0.9:
            cfg["numberOfTuples"] = nt
        else:
            nt = 3
        if ext == "0004" and rng.random() < 0.6:
            short = rng.random() < 0.7; cfg["shortObjectRoot"] = short
    if ext in ("0006", "0007"):
        delim = rng.choice([":", "/", "ns:", "Ab", "edu/", "::", "-X-", "é", "Ж:", "x", "", "K" if ext == "0006" else "q:", "%"])
        cfg["delimiter"] = delim
    if ext == "0007":
        ts = rng.choice([1, 2, 3, 4, 5, 32, 0, 33]); nt = rng.choice([1, 2, 3, 4, 32, 0, 33])
        if rng.random() < 0.85:
            cfg["tupleSize"] = ts
        else:
            ts = 3
        if rng.random() < 0.85:
            cfg["numberOfTuples"] = nt
        else:
            nt = 3
        if rng.random() < 0.6:
            pad = rng.choice(["left", "right"]); cfg["zeroPadding"] = pad
        if rng.random() < 0.6:
            rev = rng.random() < 0.5; cfg["reverseObjectRoot"] = rev
    oid = gen_id(rng, delim or None, ascii_only=(ext == "0007" and rng.random() < 0.85))
    return mk(ext, cfg, alg, ts, nt, short, delim, pad, rev, oid)


def mk(ext, cfg, alg, ts, nt, short, delim, pad, rev, oid):
    h = ALGS[alg](oid.encode())
    return dict(h=["layout %s %s %s" % (EXT[ext], hx(json.dumps(cfg)), hx(oid))],
                d=["layout %s %s %d %d %d %s %s %d %s %s" % (ext, alg, ts, nt, int(short), hx(delim), pad, int(rev), hx(h), hx(oid))],
                meta=dict(ext=ext, cfg=cfg, id=oid, alg=alg, ts=ts, nt=nt, short=short, delim=delim, pad=pad, rev=rev))


def gen(rng, tier):
    n = 1500 if tier == "quick" else 60000
    return [gen_case(rng) for _ in range(n)]


def corpus():
    cs = []
    d = os.path.join(core.ROOT, "corpus", "C11")
    if os.path.isdir(d):
        for f in sorted(os.listdir(d)):
            m = json.load(open(os.path.join(d, f)))
            cs.append(mk(**m))
    return cs


def features(m):
    oid = m["id"]
    f = []
    if any(not (c.isalnum() and c.isascii()) and c not in "-_" for c in oid): f.append("enc")
    if len(oid.encode()) > 33: f.append("long")
    if any(ord(c) > 127 for c in oid): f.append("uni")
    if m["delim"]:
        lo, dl = oid.lower(), m["delim"].lower()
        if lo.endswith(dl): f.append("d-end")
        elif lo.startswith(dl): f.append("d-start")
        elif lo.count(dl) > 1: f.append("d-multi")
        elif dl in lo: f.append("d-mid")
    if m["ext"] == "0007" and len(oid) < m["ts"] * m["nt"]: f.append("pad")
    return ",".join(f)


def judge(case, h, d):
    m = case["meta"]
    impl = h[0]
    model, spec = [x.strip() for x in d[0].split("|")]
    model = model.replace("model: ", ""); spec = spec.replace("spec: ", "")
    agree = impl == model
    oracle = impl == spec
    kind = impl.split(":")[0]
    cls = "%s|%s|%s" % (m["ext"], kind, features(m))
    known = None
    detail = ""
    if not oracle or not agree:
        detail = "ext=%s cfg=%s id=%r impl[%s] model[%s] spec[%s]" % (m["ext"], json.dumps(m["cfg"]), m["id"], impl, model, spec)
        if m["ext"] in ("0006", "0007") and "cfg=ok" in impl and (nonsimple(m["id"]) or nonsimple(m["delim"])) and agree:
            known = "C11-K1"
            detail = ("layouts 0006/0007 transfer a byte index found in the lower-cased id to the original id; wrong slice or "
                      "panic when lower-casing changes a character's UTF-8 length (e.g. id %r delimiter %r: got [%s], extension prescribes [%s])"
                      % (m["id"], m["delim"], impl, spec))
    return dict(cls=cls, agree=agree, oracle=oracle, known=known, detail=detail,
                nontrivial=("cfg=ok" in impl))


def neighbors(case, rng):
    m = case["meta"]
    out = []
    for _ in range(40):
        mm = dict(m)
        mm["id"] = gen_id(rng, m["delim"] or None, ascii_only=(m["ext"] == "0007"))
        out.append(mk(**{k: mm[k] for k in ("ext", "cfg", "alg", "ts", "nt", "short", "delim", "pad", "rev")}, oid=mm["id"]))
    return out


def shrink_candidates(case):
    m = case["meta"]
    oid = m["id"]
    base = {k: m[k] for k in ("ext", "cfg", "alg", "ts", "nt", "short", "delim", "pad", "rev")}
    for i in range(len(oid)):
        yield mk(**base, oid=oid[:i] + oid[i + 1:])
    for i, c in enumerate(oid):
        if c != "a":
            yield mk(**base, oid=oid[:i] + "a" + oid[i + 1:])


# ids whose prescribed path a file system would silently normalise, or that leave the storage root
PATHY = ["c//d", "e/./f", "g/h/", "/abs", "a/../b", "x/", ".", "..", "a//", "//a", "a/b", "a/b/c", "./a", "a/.", "a/..", "a/./", "k///l"]


def placement_phase(rep, tier, seed):
    """where objects really land: for generated (extension, configuration, id) triples an object is created
    and committed through the library; the object root found on disk (the directory holding the inventory
    with that id), the root the library reports when the object is read back, and the path of the model
    (= the extension's prescription, C11_map) must be one and the same string; if the commit is refused
    nothing may have been written to the storage root"""
    import re, shutil
    from vlib import histprop, physprop
    hbin = core.build_harness()
    rng = random.Random(seed + 5)
    n = 70 if tier == "quick" else 2500
    base_keys = ("ext", "cfg", "alg", "ts", "nt", "short", "delim", "pad", "rev")
    cases = []
    while len(cases) < n:
        c = gen_case(rng)
        m = c["meta"]
        if m["ext"] in ("0002", "0006", "0007") and rng.random() < 0.5:
            oid = rng.choice(PATHY)
            if m["delim"] and rng.random() < 0.7:
                oid = "p" + m["delim"] + oid
            c = mk(**{k: m[k] for k in base_keys}, oid=oid)
        cases.append(c)
    models = core.run_lines(core.drv_path(), [c["d"][0] for c in cases])
    fails = []
    live = histprop.LiveH(hbin)
    try:
        resets = 0
        for c, ml in zip(cases, models):
            m = c["meta"]
            model = ml.split("|")[0].replace("model: ", "").strip()
            spec = ml.split("|")[1].replace("spec: ", "").strip() if "|" in ml else model
            if not model.startswith("cfg=ok") or model != spec:
                continue          # invalid configurations and C11-K1 ids are the protocol run's business
            if m["ext"] in ("0006", "0007") and (nonsimple(m["id"]) or nonsimple(m["delim"])):
                continue
            oid = m["id"]
            if not oid.strip() or oid != oid.strip() or "\x00" in oid:
                continue          # create_object trims ids; the accepted id is then a different one
            live.ask("reset")
            resets += 1
            root = os.path.join(live.base, "r%d" % resets, "root")
            r = live.ask("init %s %s 1.1 default" % (EXT[m["ext"]], hx(json.dumps(m["cfg"]))))
            rep.evaluations += 1
            if not r.startswith("ok"):
                fails.append("configuration %s accepted by the model and the specification is refused by init: %s" % (json.dumps(m["cfg"]), r[:80]))
                continue
            live.ask("mkfile %s %s" % (hx("f.txt"), b"x".hex()))
            r1 = live.ask("new %s sha512 %s 0 -" % (hx(oid), hx("content")))
            r2 = live.ask("cpx %s 0 %s %s" % (hx(oid), hx("/"), hx("f.txt")))
            before = physprop.scan_objects(root)
            nfiles_before = sum(len(fs) for d, _, fs in os.walk(root) if "rocfl-staging" not in d)
            r3 = live.ask("commit %s - - - - - 0" % hx(oid))
            after = physprop.scan_objects(root)
            want = core.unhx(model.split("map=ok:")[1]).decode("utf8", "replace") if "map=ok:" in model else None
            kind = "committed" if r3.startswith("ok") else "refused"
            rep.classes.add("place|%s|%s|%s" % (m["ext"], kind, features(m)))
            rep.count("placement:%s:%s" % (m["ext"], kind))
            if r3.startswith("ok"):
                found = [r_ for r_, i in after.items() if i.get("id") == oid]
                if want is None:
                    fails.append("ext=%s cfg=%s: id %r cannot be mapped, yet it was committed at %r" % (m["ext"], json.dumps(m["cfg"]), oid, found))
                elif found != [want]:
                    fails.append("ext=%s cfg=%s: id %r is stored at %r, the extension prescribes %r" % (m["ext"], json.dumps(m["cfg"]), oid, found, want))
                else:
                    rv = live.ask("ver %s -" % hx(oid))
                    shown = json.loads(rv[3:]).get("root") if rv.startswith("ok ") else None
                    if shown is None or not shown.endswith("/root/" + want):
                        fails.append("ext=%s: id %r is stored at %r but read back from / shown as %r" % (m["ext"], oid, want, shown if shown else rv[:60]))
            else:
                nfiles_after = sum(len(fs) for d, _, fs in os.walk(root) if "rocfl-staging" not in d)
                if after != before or nfiles_after != nfiles_before:
                    fails.append("ext=%s: the commit of id %r was refused (%s) but the storage root changed" % (m["ext"], oid, r3.split(" ")[0]))
    finally:
        live.close()
    seen = set()
    for f in fails:
        key = re.sub(r"[0-9a-f]{8,}|\d+", "#", f)[:60]
        if key in seen or len(seen) >= 3:
            continue
        seen.add(key)
        rep.violation(dict(kind="oracle-failure", oracle="placement", what=f))
    rep.extra["placement_failures"] = len(fails)


def run(rep, tier, seed, proof_broken=False):
    core.standard_run(rep, __import__("vlib.props.C11", fromlist=["x"]), tier, seed, proof_broken)
    placement_phase(rep, tier, seed)


def replay(rep, payload):
    core.standard_replay(rep, __import__("vlib.props.C11", fromlist=["x"]), payload)
