"""C10 — whatever rocfl accepts and writes to an inventory it can read back unchanged."""
import random
from vlib import core, histprop, oracles, hist
from vlib.core import hx
from vlib.props import _hist_common as hc

TRUSTED_BASE = hc.TRUSTED_BASE + ["lean/RocflModel/Json.lean (model of serde_json's string writer and of a conforming JSON string reader) tied to serde_json by the `jsonstr`/`jsonparse` differential run"]
ASSUMPTIONS = hc.ASSUMPTIONS + [
    "JSON structure outside string tokens (braces, commas, numbers, whitespace) is serde_json's and is exercised, not modelled",
    "`create_object` trims the id: the *accepted* id is the trimmed one (the oracle compares against it)",
    "file names come from a hostile but filesystem-legal alphabet (no NUL, no '/' inside a component, <= 255 bytes per component)",
]
CORRESPONDENCE = "Json.escape/unescape (lean/RocflModel/Json.lean) vs serde_json::to_string/from_str; Rocfl.step vs OcflRepo on histories with hostile strings"
BUDGET = {"quick": dict(histories=80, ops=10, seconds=150, strings=3000), "thorough": dict(histories=2500, ops=24, seconds=1500, strings=200000)}
RULE = ("(a) Unicode strings biased to quotes, backslashes, control characters, non-BMP, surrogate-looking escapes, long runs: written by serde_json "
        "vs Json.escape, and arbitrary token bodies parsed by serde_json vs Json.unescape; distinct = by (feature set, outcome); "
        "(b) operation histories whose ids, file names, content directories, users, addresses and messages come from a hostile alphabet")

ALPH = ['"', "\\", "\n", "\t", "\r", "\x00", "\x01", "\x1f", "\x7f", " ", "/", "%", "a", "Z", "0", "é", "ÿ", "Ā", "日", " ", "퟿", "", "￿", "🙂", "\U0010ffff", "u", "b"]
BODY = ["\\", '"', "u", "d", "8", "3", "D", "e", "0", "n", "t", "/", "b", "f", "r", "x", "\n", "a", "\\u", "\\ud83d", "\\ude42", "\\u00", "\\n", '\\"', "\\\\", "é", "🙂"]


def features(s):
    f = set()
    for c in s:
        o = ord(c)
        f.add("q" if c == '"' else "b" if c == "\\" else "c" if o < 32 else "a" if o < 127 else "B" if o < 0x10000 else "N")
    return "".join(sorted(f))


def gen_pure(rng, n):
    cases = []
    for _ in range(n):
        if rng.random() < 0.6:
            s = "".join(rng.choice(ALPH) for _ in range(rng.choice([0, 1, 2, 3, 5, 8, 20, 200])))
            cases.append(dict(h=["jsonstr %s" % hx(s)], d=["jsonstr %s" % hx(s)], meta=dict(kind="write", s=s)))
        else:
            s = "".join(rng.choice(BODY) for _ in range(rng.choice([1, 2, 3, 4, 6, 10])))
            cases.append(dict(h=["jsonparse %s" % hx(s)], d=["jsonparse %s" % hx(s)], meta=dict(kind="parse", s=s)))
    return cases


class Pure:
    CORRESPONDENCE = CORRESPONDENCE

    @staticmethod
    def judge(case, h, d):
        m = case["meta"]
        agree = h[0] == d[0]
        oracle = True
        detail = ""
        if m["kind"] == "write":
            import json
            # oracle: Python's json reads the token rocfl's writer produced back to the same string
            body = core.unhx(h[0].split(" ")[1]).decode("utf-8")
            try:
                oracle = json.loads('"' + body + '"') == m["s"] and h[0].endswith("rt=1")
            except Exception:
                oracle = False
            if not oracle:
                detail = "string %r is written as %r which does not read back" % (m["s"], body)
        if not agree:
            detail = detail or "%s of %r: implementation %s, model %s" % (m["kind"], m["s"], h[0], d[0])
        return dict(cls="%s|%s|%s" % (m["kind"], features(m["s"]), h[0].split(" ")[0]), agree=agree, oracle=oracle, known=None, detail=detail)

    @staticmethod
    def neighbors(case, rng):
        return gen_pure(rng, 50)

    @staticmethod
    def shrink_candidates(case):
        s = case["meta"]["s"]
        op = "jsonstr" if case["meta"]["kind"] == "write" else "jsonparse"
        for i in range(len(s)):
            t = s[:i] + s[i + 1:]
            yield dict(h=["%s %s" % (op, hx(t))], d=["%s %s" % (op, hx(t))], meta=dict(kind=case["meta"]["kind"], s=t))


def make_gen(rng, budget, live, case):
    return hc.make_gen(rng, budget, live, case, hostile_ids=True)


def make_oracles(contents, gen):
    return [oracles.ReadBack(), oracles.StagedView(contents), oracles.TrueHistory()]


def corpus_specs():
    return hc.corpus_specs("C10")


def known_match(f, sc):
    return hc.known_failed_commit_dedup(f, sc)


def run(rep, tier, seed, proof_broken=False):
    import vlib.props.C10 as me
    rng = random.Random(seed)
    hbin = core.build_harness()
    n = BUDGET["thorough" if (tier == "thorough" or proof_broken) else "quick"]["strings"]
    ofail, dis = core.evaluate(rep, Pure, gen_pure(rng, n), hbin)
    for c, j, h, d in ofail[:2]:
        rep.violation(dict(kind="oracle-failure", what=j["detail"], case=c, implementation=h, model=d))
    if dis and not ofail:
        c, j, h, d = dis[0]
        rep.violation(dict(kind="correspondence-broken", correspondence=CORRESPONDENCE, what=j["detail"], case=c, implementation=h, model=d), no_input=True)
    histprop.run(rep, me, tier, seed, proof_broken)


def replay(rep, payload):
    import vlib.props.C10 as me
    if "case" in payload:
        core.standard_replay(rep, Pure, payload)
    else:
        histprop.replay(rep, me, payload)
