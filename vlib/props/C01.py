"""C01 — every repository state rocfl can produce is a valid OCFL repository."""
from vlib import histprop, oracles, hist
from vlib.props import _hist_common as hc
from vlib.props._hist_common import TRUSTED_BASE, ASSUMPTIONS, CORRESPONDENCE, BUDGET

RULE = ("operation histories (new/cp/mv external+internal/rm/reset/commit/upgrade/purge over 1-2 objects, all layouts, both staging "
        "placements) generated interactively against the implementation so that sources, globs and destinations hit existing paths; "
        "distinct non-trivial = distinct (operation, outcome class) pairs observed")


def make_gen(rng, budget, live, case):
    return hc.make_gen(rng, budget, live, case)


def make_oracles(contents, gen):
    return [oracles.ValidRepo()]


def corpus_specs():
    return hc.corpus_specs("C01")


def known_match(f, sc):
    return None


class _Phys:
    """second phase: the real binary on ids that run through one another's directories (direct layouts) and on explicit
    object roots (no layout); the whole tree is validated after every operation, the refused ones included"""
    BUDGET = {"quick": dict(histories=30, ops=12, seconds=45), "thorough": dict(histories=400, ops=22, seconds=600)}
    CORRESPONDENCE = "n/a (oracle-only phase)"
    HISTORY_KW = dict(layouts=["0002-flat-direct-storage-layout", "0002-flat-direct-storage-layout", "none", "0006-flat-omit-prefix-storage-layout",
                               "0003-hash-and-id-n-tuple-storage-layout"],
                      ids=[["a", "a/b/c", "a/b", "z"], ["p", "p/v1/content/sub/q", "p/v1/x/y", "q"], ["coll/2024/rep1", "coll", "coll/2024/rep1/v1/content/deep/er"],
                           ["x1", "x2", "x3"], ["ns:one", "ns:one/two/three", "ns:two"]],
                      hostile_roots=["objects/a", "objects/a/b/c", "objects/a/v1/content/deep/x", "plain", "objects/b/extra/levels"],
                      weights=[30, 3, 6, 3, 4, 2, 1, 40, 6, 2], trace=False)

    @staticmethod
    def make_oracles():
        from vlib import physprop
        return [physprop.AllValid()]


def run(rep, tier, seed, proof_broken=False):
    import vlib.props.C01 as me
    histprop.run(rep, me, tier, seed, proof_broken)
    from vlib import physprop
    physprop.run(rep, _Phys, tier, seed + 11, proof_broken)


def replay(rep, payload):
    import vlib.props.C01 as me
    histprop.replay(rep, me, payload)
