"""C13 — operations on one object are mutually exclusive and the lock is always released."""
import hashlib, os, random, subprocess, time
from vlib import physprop, phys

TRUSTED_BASE = ["Lean 4.33 kernel", "axioms: propext, Classical.choice, Quot.sound",
                "model lean/RocflModel/Lock.lean (lock-file protocol + interleaving semantics) tied to src/ocfl/lock.rs / repo.rs by the trace oracle (lock creation first, removal last, every object mutation in between) and by runs with a pre-held lock and with racing processes",
                "the kernel's O_CREAT|O_EXCL atomicity and Rust's Drop on unwinding (panic=unwind) are assumed",
                "strace + vlib/phys.py", "the rocfl binary built from /repo"]
ASSUMPTIONS = ["serialisability of operations on different objects whose directory footprints share an ancestor that one of them may remove while empty is examined by racing runs only",
               "reset --all and purge take no lock (as the statement lists)"]
CORRESPONDENCE = "Lock.step/run (lean/RocflModel/Lock.lean) vs lock.rs acquire/Drop as observed in the strace of every locked operation"
BUDGET = {"quick": dict(histories=30, ops=12, seconds=150, races=10), "thorough": dict(histories=300, ops=22, seconds=1500, races=200)}
RULE = ("histories of real CLI invocations under strace (lock coverage of every mutating call), the same operations run while another holder owns the "
        "object's lock (must fail at once, change nothing), and races of 3 simultaneous processes on one object and on different objects; "
        "distinct non-trivial = distinct (operation, exit status, lock situation)")
HISTORY_KW = {}


def lock_path(sb, oid):
    return os.path.join(sb.staging, "extensions", "rocfl-locks", hashlib.sha256(oid.strip().encode()).hexdigest() + ".lock")


def hook(sb, op, g, rep):
    if op.kind not in physprop.LOCKED or not op.oid or g.rng.random() > 0.2:
        return None
    lp = lock_path(sb, op.oid)
    if not os.path.isdir(os.path.dirname(lp)):
        return None
    open(lp, "w").close()
    before = phys.tree(sb.dir, exclude=("home",))
    res = sb.run(op.args)
    after = phys.tree(sb.dir, exclude=("home",))
    still = os.path.exists(lp)
    if still:
        os.unlink(lp)
    fails = []
    rep.count("lock-held:%s:rc%d" % (op.kind, res["rc"]))
    rep.classes.add("held:%s:%d" % (op.kind, res["rc"]))
    if op.kind == "cpx" and not any(os.path.exists(a) for a in op.args if a.startswith(sb.src)):
        pass
    if res["rc"] == 0:
        fails.append("`%s` succeeded although the object's lock was held by someone else" % " ".join(op.args)[:120])
    elif "lock" not in res["err"].lower():
        # an error raised before the lock is taken (argument validation) is fine as long as nothing changed
        pass
    if before != after:
        d = sorted(set(before.items()) ^ set(after.items()))[:4]
        fails.append("`%s` ran while the lock was held and changed %s" % (" ".join(op.args)[:120], d))
    if not still:
        fails.append("`%s` removed a lock file it did not own" % " ".join(op.args)[:120])
    return fails


def make_oracles():
    return [physprop.LockDiscipline(), physprop.PrivateScratch()]


def race(rng, rep, same_object=True):
    """three processes at once; outcome must be a serial order of the ones that succeeded"""
    sb = phys.Sandbox()
    fails = []
    try:
        ids = ["obj"] if same_object else ["o1", "o2", "o3"]
        sb.run(["init"])
        for i in ids:
            sb.run(["new", i])
        names = []
        for k in range(3):
            p = os.path.join(sb.src, "big%d.bin" % k)
            open(p, "wb").write(os.urandom(6 * 1024 * 1024))
            names.append(p)
        procs = []
        for k in range(3):
            oid = ids[0] if same_object else ids[k]
            cmd = sb.base_args() + ["cp", oid, names[k], "--", "f%d.bin" % k]
            procs.append((oid, k, subprocess.Popen(cmd, stdout=subprocess.PIPE, stderr=subprocess.PIPE, env=sb.env(), cwd=sb.dir)))
        results = []
        for oid, k, p in procs:
            out, err = p.communicate(timeout=120)
            results.append((oid, k, p.returncode, err.decode("utf8", "replace")))
        rep.count("race:%s:%s" % ("same" if same_object else "different", "".join(str(min(r[2], 1)) for r in results)))
        rep.classes.add("race:%s:%s" % (same_object, "".join(str(min(r[2], 1)) for r in results)))
        for oid in ids:
            st = sb.run(["ls", "-S", oid])
            listed = set(st["out"].decode("utf8", "replace").split())
            want = {"f%d.bin" % k for (o, k, rc, _) in results if o == oid and rc == 0}
            got = {x for x in listed if x.endswith(".bin")}
            if got != want:
                fails.append("race on %s: processes %s reported success but the staged object holds %s" % (oid, sorted(want), sorted(got)))
            v = sb.run(["status", oid])
        for oid, k, rc, err in results:
            if rc != 0 and "lock" not in err.lower():
                fails.append("racing `cp %s` failed with something other than the lock error: %s" % (oid, err[:200]))
            if rc != 0 and not same_object:
                fails.append("operations on different objects interfered: `cp %s` failed: %s" % (oid, err[:200]))
        locks = os.listdir(os.path.join(sb.staging, "extensions", "rocfl-locks"))
        if locks:
            fails.append("lock files left after the race: %s" % locks)
    finally:
        sb.close()
    return fails


def run(rep, tier, seed, proof_broken=False):
    import vlib.props.C13 as me
    me.HISTORY_KW = dict(hook=hook)
    physprop.run(rep, me, tier, seed, proof_broken)
    rng = random.Random(seed + 1)
    n = BUDGET["thorough" if (tier == "thorough" or proof_broken) else "quick"]["races"]
    for i in range(n):
        rep.evaluations += 1
        for f in race(rng, rep, same_object=(i % 2 == 0)):
            rep.violation(dict(kind="oracle-failure", oracle="race", what=f))
            return
    interrupt_phase(rep, tier, seed)


def interrupt_phase(rep, tier, seed):
    """a stop request (SIGINT) while a locked operation is at work: the process ends and the object's lock is gone"""
    rng = random.Random(seed + 2)
    n = 3 if tier != "thorough" else 25
    for i in range(n):
        sb = phys.Sandbox(ext_staging=(i % 2 == 1))
        try:
            for k in range(30):
                open(os.path.join(sb.src, "f%02d.bin" % k), "wb").write(os.urandom(2000))
            sb.run(["init", "-l", "0004-hashed-n-tuple-storage-layout"])
            sb.run(["new", "obj"])
            sb.run(["cp", "obj", os.path.join(sb.src, "f00.bin"), "--", "first.bin"])
            sb.run(["commit", "obj"])
            op = rng.choice([["cp", "-r", "obj", sb.src, "--", "/"], ["cp", "obj"] + [os.path.join(sb.src, "f%02d.bin" % k) for k in range(30)] + ["--", "dst/"]])
            if i % 3 == 2:
                sb.run(op)
                op = ["commit", "obj"]
            base = sb.run(op, trace=True)
            calls = [c for c in base["calls"] if phys.mutating(c) and not c.err]
            lock = lock_path(sb, "obj")
            after_lock = [c for c in calls[1:] if not (c.paths and c.paths[0] == lock)]
            if not after_lock:
                continue
            # undo, then the same operation with SIGINT delivered at one of its calls
            sb.run(["reset", "obj"]) if op[0] != "commit" else None
            if op[0] == "commit":
                continue
            c = rng.choice(after_lock[: max(1, len(after_lock) * 2 // 3)])
            r = sb.run(op, inject="%s:signal=SIGINT:when=%d" % (c.name, c.nth))
            rep.evaluations += 1
            rep.classes.add("sigint|%s|rc%d" % (op[0], min(r["rc"], 3) if r["rc"] >= 0 else -1))
            rep.count("interrupt:%s:rc%d" % (op[0], r["rc"]))
            if os.path.exists(lock):
                rep.violation(dict(kind="oracle-failure", oracle="lock-released-after-interrupt",
                                   what="`%s` interrupted by SIGINT at %s#%d exits %d and leaves the object's lock file behind" % (" ".join(op[:3]), c.name, c.nth, r["rc"])))
                return
        finally:
            sb.close()


def replay(rep, payload):
    import vlib.props.C13 as me
    physprop.replay(rep, me, payload)
