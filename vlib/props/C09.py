"""C09 — the staged view equals the last version plus the staged operations."""
from vlib import histprop, oracles
from vlib.props import _hist_common as hc
from vlib.props._hist_common import TRUSTED_BASE, ASSUMPTIONS, CORRESPONDENCE, BUDGET

RULE = ("operation histories (new/cp/mv external+internal/rm/reset/commit/upgrade/purge over 1-2 objects, all layouts, both staging "
        "placements) generated interactively against the implementation so that sources, globs and destinations hit existing paths; "
        "distinct non-trivial = distinct (operation, outcome class) pairs observed")


def make_gen(rng, budget, live, case):
    return hc.make_gen(rng, budget, live, case)


def make_oracles(contents, gen):
    return [oracles.StagedView(contents)]


def corpus_specs():
    return hc.corpus_specs("C09")


def known_match(f, sc):
    return hc.known_failed_commit_dedup(f, sc)


def run(rep, tier, seed, proof_broken=False):
    import vlib.props.C09 as me
    histprop.run(rep, me, tier, seed, proof_broken)
    from vlib import stagefault
    stagefault.phase(rep, "C09", tier, seed, committed=False)


def replay(rep, payload):
    import vlib.props.C09 as me
    histprop.replay(rep, me, payload)
