"""C06 — validate reports every corruption of a stored object."""
import json, os, random, re, shutil, time
from vlib import core, valprop, corrupt
from vlib.core import hx

TRUSTED_BASE = ["Lean 4.33 kernel", "axioms: propext, Classical.choice, Quot.sound",
                "decision table lean/RocflModel/Validator.lean (which check of validate/mod.rs answers to which corruption, with and without fixity) tied to the code by comparing, for every corrupted object, the validator's error codes with the table",
                "digest injectivity (sha256/sha512 collision freeness) as hypothesis of C06_inventory_bytes",
                "Rust harness (validate_object_at), the rocfl binary (exit status), vlib/corrupt.py"]
ASSUMPTIONS = ["objects are written by the real binary (multi-version, deduplicated, sha256/sha512, padded versions, custom content directory, upgraded)",
               "a corruption is 'not compensated' by construction: exactly one of the listed edits is applied to a pristine copy; a sidecar edit always changes a hex digit's value (never only its case)",
               "in-file positions are sampled in the quick tier and enumerated for files up to 4 KiB in the thorough tier"]
CORRESPONDENCE = "Validator.expectedCodes (lean/RocflModel/Validator.lean) vs the error codes of validate_object_at on corrupted copies"
BUDGET = {"quick": dict(per_kind=40, seconds=170), "thorough": dict(per_kind=2500, seconds=1700, all_positions=True)}
RULE = ("objects written by rocfl x every file x each of the 21 corruption kinds (x byte / hex-digit positions), each applied alone to a pristine copy and validated "
        "through the library (with and without fixity) and through the CLI; distinct non-trivial = distinct (kind, object, error-code set)")


def known_match(kind, desc, obj_inv, detail):
    """C06-K1: a version directory without content of its own replaced by an empty directory"""
    if kind == "dir-to-emptydir":
        d = desc.split(" ")[-1]
        if "/" not in d:
            own = [p for ps in obj_inv["manifest"].values() for p in ps if p.startswith(d + "/")]
            if not own:
                return "C06-K1"
    if kind == "meta-to-emptydir" and re.search(r" v\d+/inventory\.json$", desc):
        return "C06-K2"
    return None


def run(rep, tier, seed, proof_broken=False):
    rng = random.Random(seed)
    vjobs = []
    budget = BUDGET["thorough" if (tier == "thorough" or proof_broken) else "quick"]
    t_end = time.time() + budget["seconds"]
    sb, objs = valprop.build_objects(rng, n=4 if tier == "quick" else 8)
    lab = valprop.Lab()
    rbin = core.build_rocfl_bin()
    fails, jobs = [], []
    try:
        # corpus: the recorded finding C06-K1 is replayed first, on the first object that has such a version
        for src in objs:
            inv = valprop.inv_of(src)
            vs = [v for v in inv["versions"] if not any(p.startswith(v + "/") for ps in inv["manifest"].values() for p in ps)]
            if not vs:
                continue
            name, d = lab.place(src)
            shutil.rmtree(os.path.join(d, vs[0]))
            os.mkdir(os.path.join(d, vs[0]))
            r = lab.validate(name, True)
            rc, out, err = valprop.cli_validate(rbin, lab.root, name, fixity=True)
            rep.evaluations += 1
            if r[0] == "ok" and not r[1] and rc == 0:
                rep.known("C06-K1", "version directory %s of %s (no content of its own) replaced by an empty directory: W010 only, exit 0" % (vs[0], os.path.basename(src)))
            else:
                rep.count("C06-K1-no-longer-reproduces")
            lab.remove(name)
            break
        # corpus: C06-K2, the inventory of a version directory replaced by an empty directory
        if objs:
            src = objs[0]
            inv = valprop.inv_of(src)
            name, d = lab.place(src)
            vp = os.path.join(d, sorted(inv["versions"])[0], "inventory.json")
            if os.path.isfile(vp):
                os.unlink(vp); os.mkdir(vp)
                r = lab.validate(name, True)
                rc, out, err = valprop.cli_validate(rbin, lab.root, name, fixity=True)
                rep.evaluations += 1
                if r[0] == "ok" and not r[1] and rc == 0:
                    rep.known("C06-K2", "%s/inventory.json of %s replaced by an empty directory: warnings only, exit 0" % (sorted(inv["versions"])[0], os.path.basename(src)))
                else:
                    rep.count("C06-K2-no-longer-reproduces")
            lab.remove(name)
        for kind in corrupt.KINDS:
            enumerated = budget.get("all_positions") and kind in ("root-inv-byte", "ver-inv-byte", "content-change", "root-sidecar-digest", "ver-sidecar-digest")
            n = budget["per_kind"] * (8 if enumerated else 1)
            positions = [None] * n
            for t in range(n):
                if time.time() > t_end:
                    break
                src = objs[t % len(objs)] if enumerated else rng.choice(objs)
                name, d = lab.place(src)
                inv = valprop.inv_of(src)
                pos = t // len(objs) if enumerated else None
                desc = corrupt.apply(d, kind, rng, pos)
                if desc is None:
                    lab.remove(name)
                    continue
                rep.evaluations += 1
                for fx in (True, False):
                    r = lab.validate(name, fx)
                    needs = fx or kind in corrupt.STRUCTURAL
                    codes = sorted(set(r[1])) if r[0] == "ok" else []
                    rep.count("verdict:%s:%s:%s" % (kind, "fixity" if fx else "nofixity", "errors" if codes else r[0] if r[0] != "ok" else "clean"))
                    rep.classes.add("%s|%s|%s" % (kind, os.path.basename(src), ",".join(codes)))
                    if r[0] == "panic":
                        fails.append((kind, "`%s` made validate panic: %s" % (desc, r[1][:100]), None))
                    elif needs and not codes and r[0] == "ok":
                        k = known_match(kind, desc, inv, None)
                        fails.append((kind, "`%s` on %s: validate%s reports no error" % (desc, os.path.basename(src), "" if fx else " --no-fixity-check"), k))
                    if r[0] == "ok":
                        jobs.append(("script-expected %s %d" % (kind, 1 if fx else 0), codes, kind, desc, needs))
                # the command line: exit status 2
                rc, out, err = valprop.cli_validate(rbin, lab.root, name, fixity=True)
                rep.count("cli-exit:%d" % rc)
                if rc != 2:
                    k = known_match(kind, desc, inv, None)
                    fails.append((kind, "`%s`: `rocfl validate` exits %d instead of 2" % (desc, rc), k))
                elif "[E" not in out:
                    fails.append((kind, "`%s`: `rocfl validate` exits 2 but prints no error for the object" % desc, None))
                # the report is an error report at every verbosity (-l) and with fixity checking off for structural damage
                lvl = rng.choice(["info", "warn", "error"])
                nofix = kind in corrupt.STRUCTURAL and rng.random() < 0.5
                rc2, out2, err2 = valprop.cli_validate(rbin, lab.root, name, fixity=not nofix, extra=("-l", lvl))
                rep.count("cli-level:%s:%s" % (lvl, "error-printed" if "[E" in out2 else "nothing"))
                # T: whether the object's result is printed at all, against the model of should_print on the library's result
                rl = lab.validate(name, not nofix)
                if rl[0] == "ok":
                    vjobs.append(("script-vprint %s %d %d" % (lvl, len(rl[1]), len(rl[2]) if len(rl) > 2 else 0), ("Object " in out2), "`%s`: validate -l %s%s" % (desc, lvl, " -n" if nofix else "")))
                if rc == 2 and (rc2 != 2 or "[E" not in out2):
                    k = known_match(kind, desc, inv, None)
                    if not k:
                        fails.append((kind, "`%s`: `rocfl validate -l %s%s` exits %d and prints %s" % (desc, lvl, " -n" if nofix else "", rc2, "no error" if "[E" not in out2 else "an error"), None))
                lab.remove(name)
                for ext in (".stash", ".dstash"):
                    p = d + ext
                    if os.path.isdir(p) and not os.path.islink(p):
                        shutil.rmtree(p)
                    elif os.path.lexists(p):
                        os.unlink(p)
    finally:
        lab.close()
        sb.close()
    dis = []
    if vjobs:
        res = core.run_lines(core.drv_path(), [j[0] for j in vjobs])
        for (line, printed, what), got in zip(vjobs, res):
            rep.count("lean-vprint:" + got)
            if got not in ("ok true", "ok false") or (got == "ok true") != printed:
                dis.append(dict(what=what, model=got, binary_printed=printed))
    if jobs:
        res = core.run_lines(core.drv_path(), [j[0] for j in jobs])
        for (line, codes, kind, desc, needs), got in zip(jobs, res):
            exp = set(got[3:].split(",")) if got.startswith("ok ") and got[3:] else set()
            rep.count("table-compared")
            if needs and codes and not (set(codes) & exp):
                dis.append(dict(corruption=desc, validator_codes=codes, table=sorted(exp)))
            if not needs and codes and not exp:
                pass
    rep.disagreements = len(dis)
    rep.sample(dict(request=jobs[0][0], validator_codes=jobs[0][1]) if jobs else {})
    seen = set()
    for kind, f, known in fails:
        if known:
            rep.known(known, f[:300])
            continue
        if kind in seen or len(seen) >= 3:
            continue
        seen.add(kind)
        rep.violation(dict(kind="oracle-failure", what=f, corruption_kind=kind))
    if dis and not [x for x in fails if not x[2]]:
        rep.violation(dict(kind="correspondence-broken", correspondence=CORRESPONDENCE, what=dis[0], disagreeing=len(dis)), no_input=True)


def replay(rep, payload):
    print(json.dumps(payload, indent=1)[:2000])
