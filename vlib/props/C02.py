"""C02 — committed versions return exactly the ingested bytes, forever."""
from vlib import histprop, oracles, hist
from vlib.props import _hist_common as hc
from vlib.props._hist_common import TRUSTED_BASE, ASSUMPTIONS, CORRESPONDENCE
# after every operation every file of every committed version is read back: the cost grows with the number of versions
BUDGET = {"quick": dict(hc.BUDGET["quick"], histories=400), "thorough": hc.BUDGET["thorough"]}

RULE = ("operation histories (new/cp/mv external+internal/rm/reset/commit/upgrade/purge over 1-2 objects, all layouts, both staging "
        "placements) generated interactively against the implementation so that sources, globs and destinations hit existing paths; "
        "distinct non-trivial = distinct (operation, outcome class) pairs observed")


def make_gen(rng, budget, live, case):
    return hc.make_gen(rng, budget, live, case)


def make_oracles(contents, gen):
    return [oracles.ReadForever(contents)]


def corpus_specs():
    return hc.corpus_specs("C02")


def known_match(f, sc):
    return None


def run(rep, tier, seed, proof_broken=False):
    import vlib.props.C02 as me
    histprop.run(rep, me, tier, seed, proof_broken)
    from vlib import stagefault
    stagefault.phase(rep, "C02", tier, seed, committed=True)


def replay(rep, payload):
    import vlib.props.C02 as me
    histprop.replay(rep, me, payload)
