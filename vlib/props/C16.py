"""C16 — S3 commits install the root inventory last and clean up after failures."""
import json, os, random, re, time
from vlib import core, s3prop
from vlib.core import hx

TRUSTED_BASE = ["Lean 4.33 kernel", "axioms: propext, Classical.choice, Quot.sound",
                "model lean/RocflModel/S3.lean (`script`, `exec`, `rollback`: the mutating requests of write_new_version and the effect of one failing request) tied to the code by comparing, for every commit, the observed request order and, for every failed request, the observed outcome class with the model's",
                "the S3 stand-in vlib/s3mock.py (fails the n-th request with HTTP 500 or by closing the connection without an answer; a dropped request has no effect on the bucket)",
                "Rust harness built with the s3 feature; vlib/s3prop.py (snapshots of bucket and staging area, oracle)"]
ASSUMPTIONS = ["one failing request per commit (single-fault sequences); requests issued by the rollback itself are not failed a second time",
               "a request failed by the stand-in is not applied (a dropped connection after the service applied a PUT is not simulated)",
               "the staged version is compared by its logical state: a failed commit leaves its metadata and a deduplicated manifest in the staged inventory (finding C09-K1)"]
CORRESPONDENCE = "S3.script / S3.exec (lean/RocflModel/S3.lean) vs the request log of commits against the S3 stand-in (src/ocfl/store/s3.rs write_new_object / write_new_version)"
BUDGET = {"quick": dict(commits=5, limit=14, seconds=170), "thorough": dict(commits=60, limit=None, seconds=1700)}
RULE = ("S3 commits (new object / new version / spec upgrade; with and without prefix; single and multipart uploads) replayed once per request of the commit with that request "
        "failing (HTTP 500, dropped connection), judged for: error reported, earlier versions + root inventory + sidecar intact and readable, nothing of the failed version left, "
        "staged version kept, retry succeeds; distinct non-trivial = distinct (commit kind, failed request kind, outcome)")


def classify(req, oroot, newv):
    kind, _, what = req[:3]
    rel = what[len(oroot) + 1:] if oroot and what.startswith(oroot + "/") else what
    if kind in ("PUT", "CREATE_MPU", "UPLOAD_PART", "COMPLETE_MPU"):
        if rel.startswith(newv + "/"):
            return "PUT-version-file", rel
        if rel == "inventory.json":
            return "PUT-root-inventory", rel
        if rel.startswith("inventory.json."):
            return "PUT-root-sidecar", rel
        if rel.startswith("0=ocfl_object_"):
            return "PUT-declaration", rel
    if kind == "DELETE" and rel.startswith("0=ocfl_object_"):
        return "DELETE-old-declaration", rel
    if kind == "LIST":
        m = re.match(r"prefix=(.*) delim=(.*)$", what)
        if m and oroot and m.group(1) == oroot + "/":
            return "LIST-root", ""
        return "LIST", rel
    return kind, rel


def run(rep, tier, seed, proof_broken=False):
    rng = random.Random(seed)
    budget = BUDGET["thorough" if (tier == "thorough" or proof_broken) else "quick"]
    t_end = time.time() + budget["seconds"]
    fails, dis = [], []
    n_commits = 0
    h = 0
    while n_commits < budget["commits"] and time.time() < t_end:
        h += 1
        prefix = rng.choice([None, "pre", "pre/fix/deep"])
        layout = rng.choice(s3prop.LAYOUTS[:4])
        d = s3prop.Dual(rng, prefix, rng.choice([2, 1000]), layout, "1.1")
        try:
            g = s3prop.LineGen(rng, d, layout, big=("multipart" if h % 2 == 0 else False))    # every second repository holds a file above the multipart threshold
            g.setup()
            o = g.ids[0]
            plan = []
            s3 = d.s3
            s3.ask("new %s %s %s %d %s" % (hx(o), rng.choice(["sha256", "sha512"]), hx(rng.choice(["content", "data"])), rng.choice([0, 3]), "1.0"))
            s3.ask("cpx %s 1 %s %s" % (hx(o), hx("/"), " ".join(hx(f) for f in g.files[:2] + (["big.bin"] if "big.bin" in g.files else []))))
            plan.append(("new-object", g.commit_line(o)))
            stage2 = "cpx %s 1 %s %s" % (hx(o), hx("x/"), hx(g.files[2]))
            for kind, line in plan + [("new-version", None), ("upgrade", None)]:
                if time.time() > t_end or n_commits >= budget["commits"]:
                    break
                if kind == "new-version":
                    s3.ask(stage2)
                    if rng.random() < 0.5:
                        s3.ask("rm %s 0 %s" % (hx(o), hx(g.files[0].rsplit("/", 1)[-1])))
                    line = g.commit_line(o)
                elif kind == "upgrade":
                    line = "upgrade %s 1.1 %s - %s %s 0" % (hx(o), hx("Me"), hx("upgrade"), s3prop.TS)
                n_commits += 1
                rep.evaluations += 1
                # the clean run's request log gives the script to compare
                obs_list = list(s3prop.commit_faults(d, o, line, limit=budget["limit"], rng=rng))
                if not obs_list:
                    rep.count("commit-did-not-succeed:" + kind); continue
                oroot = s3prop.object_prefix(d, o)
                inv = json.loads(d.server.state.dump(d.bucket)[oroot + "/inventory.json"])
                newv = inv["head"]
                # reconstruct the clean request sequence from the observations (request k of the clean run)
                seq = {ob["k"]: ob["request"] for ob in obs_list}
                for ob in obs_list:
                    cls_req, rel = classify(ob["request"], oroot, newv)
                    rep.count("fault:%s:%s:%s:%s" % (kind, cls_req, ob["mode"], ob["cls"] if not ob["fails"] else "FAIL"))
                    rep.classes.add("%s|%s|%s|%s" % (kind, cls_req, ob["mode"], ob["cls"]))
                    rep.count("failed-request-kind:%s" % ob["request"][0])
                    rep.evaluations += 1
                    for f in ob["fails"]:
                        fails.append(dict(what="%s commit: %s" % (kind, f), inject="request #%d %s (%s)" % (ob["k"], ob["request"], ob["mode"]), commit=s3prop.show(line), prefix=prefix, layout=layout[0]))
                if kind != "new-object" and budget["limit"] is None:
                    dis += model_check(rep, kind, obs_list, oroot, newv)
                elif kind != "new-object":
                    dis += model_check(rep, kind, obs_list, oroot, newv, partial=True)
        finally:
            d.close()
    rep.disagreements = len(dis)
    seen = set()
    for f in fails:
        key = re.sub(r"[0-9a-f]{8,}|\d+", "#", f["what"])[:80]
        if key in seen or len(seen) >= 4:
            continue
        seen.add(key)
        rep.violation(dict(kind="oracle-failure", **f))
    if dis and not fails:
        rep.violation(dict(kind="correspondence-broken", correspondence=CORRESPONDENCE, what=dis[0], disagreeing=len(dis)), no_input=True)


def model_check(rep, kind, obs_list, oroot, newv, partial=False):
    """request order of the install phase and the outcome class per failed request vs S3.script / S3.exec"""
    out = []
    reqs = sorted({ob["k"]: ob["request"] for ob in obs_list}.items())
    labelled = [(k, classify(r, oroot, newv)) for k, r in reqs]
    # the model's script starts at the first upload of the new version; files are the unit (multipart requests collapse)
    side = max([k for k, (c, _) in labelled if c == "PUT-root-sidecar"] or [10 ** 9])
    mut = [(k, c, rel) for k, (c, rel) in labelled if c.startswith(("PUT-", "DELETE-")) or (c == "LIST-root" and k > side)]
    files = []
    for k, c, rel in mut:
        if c == "PUT-version-file" and rel not in files:
            files.append(rel)
    up = 1 if kind == "upgrade" else 0
    got = core.run_lines(core.drv_path(), ["script-s3commit %d %d -" % (len(files), up)])[0]
    want_script = got.split(" ")[3].split(",") if got.startswith("ok ") else []
    if not partial:
        seen_script = []
        for k, c, rel in mut:
            if c == "PUT-version-file":
                if seen_script.count("PUT-version-file") < len(files) and (not seen_script or rel not in getattr(model_check, "_f", [])):
                    pass
        order = []
        fseen = []
        for k, c, rel in mut:
            if c == "PUT-version-file":
                if rel in fseen:
                    continue
                fseen.append(rel)
                order.append(c)
            elif c == "LIST-root" and order and order[-1] == "LIST-root":
                continue          # further pages of the same listing
            else:
                order.append(c)
        rep.count("script-compared")
        if order != want_script:
            out.append(dict(kind=kind, observed_order=order, model=want_script))
    # outcome per failed request
    jobs = []
    for ob in obs_list:
        c, rel = classify(ob["request"], oroot, newv)
        if c == "PUT-version-file":
            idx = files.index(rel)
        elif c in want_script and c not in ("PUT-version-file", "LIST-root"):
            idx = want_script.index(c)
        elif c == "LIST-root" and "LIST-root" in want_script and ob["k"] > side:
            idx = want_script.index("LIST-root")
        else:
            rep.count("unmodelled-request:" + c)
            continue
        jobs.append(("script-s3commit %d %d %d" % (len(files), up, idx), ob))
    if jobs:
        res = core.run_lines(core.drv_path(), [j[0] for j in jobs])
        for (line, ob), g in zip(jobs, res):
            rep.count("outcome-compared")
            t = g.split(" ")
            observed = ("new", "1") if ob["cls"] == "new" else (("old", "0") if not ob["fails"] else ("other", "0"))
            if len(t) < 3 or (t[1], t[2]) != observed:
                out.append(dict(request=ob["request"], mode=ob["mode"], observed=observed, model=g[:40], fails=ob["fails"][:2]))
    return out


def replay(rep, payload):
    print(json.dumps(payload, indent=1)[:3000])
