"""C03 — committed version directories are never modified (append-only storage)."""
from vlib import physprop

TRUSTED_BASE = ["Lean 4.33 kernel", "axioms: propext, Classical.choice, Quot.sound",
                "hand-written script model lean/RocflModel/Script.lean tied to src/ocfl/store/fs.rs by comparing the observed install-phase system calls of every successful commit with the model's script",
                "strace (-f -y) and vlib/phys.py (trace parser: dirfd resolution, folding of write/copy runs)", "the rocfl binary built from /repo's working tree",
                "compiled Lean driver running the `avoids` monitor on observed traces"]
ASSUMPTIONS = ["calls already made are observed in program order per process (single-threaded rocfl)",
               "the staging phases are judged by the monitor on observed traces, their call order is not modelled (hash-order dependent)"]
CORRESPONDENCE = "installNewVersion/installNewObject + avoids (lean/RocflModel/Script.lean) vs the strace of `rocfl commit|upgrade` (fs.rs write_new_version / write_new_object)"
BUDGET = {"quick": dict(histories=40, ops=12, seconds=150), "thorough": dict(histories=400, ops=22, seconds=1500)}
RULE = ("histories of real CLI invocations (init/new/cp/mv/rm/reset/commit/upgrade/purge, 1-3 objects, 4 layouts + none, both staging placements), "
        "every invocation under strace; each mutating system call is judged individually against the set of version directories committed before the "
        "operation; distinct non-trivial = distinct (operation, exit status)")


def make_oracles():
    return [physprop.AppendOnly()]


def run(rep, tier, seed, proof_broken=False):
    import vlib.props.C03 as me
    physprop.run(rep, me, tier, seed, proof_broken)


def replay(rep, payload):
    import vlib.props.C03 as me
    physprop.replay(rep, me, payload)
