"""C03 — committed version directories are never modified (append-only storage)."""
from vlib import physprop

TRUSTED_BASE = ["Lean 4.33 kernel", "axioms: propext, Classical.choice, Quot.sound",
                "hand-written script model lean/RocflModel/Script.lean tied to src/ocfl/store/fs.rs by comparing the observed install-phase system calls of every successful commit with the model's script",
                "strace (-f -y) and vlib/phys.py (trace parser: dirfd resolution, folding of write/copy runs)", "the rocfl binary built from /repo's working tree",
                "compiled Lean driver running the `avoids` monitor on observed traces"]
ASSUMPTIONS = ["calls already made are observed in program order per process (single-threaded rocfl)",
               "the staging phases are judged by the monitor on observed traces, their call order is not modelled (hash-order dependent)"]
CORRESPONDENCE = "installNewVersion/installNewObject + avoids (lean/RocflModel/Script.lean) vs the strace of `rocfl commit|upgrade` (fs.rs write_new_version / write_new_object)"
BUDGET = {"quick": dict(histories=40, ops=12, seconds=150), "thorough": dict(histories=400, ops=22, seconds=1500)}
RULE = ("histories of real CLI invocations (init/new/cp/mv/rm/reset/commit/upgrade/purge, 1-3 objects, 4 layouts + none, both staging placements), "
        "every invocation under strace; each mutating system call is judged individually against the set of version directories committed before the "
        "operation; plus commits replayed with every mutating call failing once and with SIGKILL before each call, judged the same way; distinct non-trivial = distinct (operation, exit status)")


# ordinary ids, and families in which one id runs through the inner directories of another object (direct layout)
HISTORY_KW = dict(ids=[["obj0", "obj1", "obj2"], ["obj0", "obj1", "obj2"], ["a", "a/v1/content/docs/x", "a/v2/y", "a/b"], ["p", "p/v1/content", "p/v1/x", "q"],
                       ["coll/2024/rep1", "coll/2024/rep2", "coll", "coll/2024"], ["grp/sub/b", "grp/sub/c", "grp"]],
                  # purges (of objects, of ids that are only prefixes of objects) more often than by default
                  weights=[30, 4, 6, 4, 4, 3, 1, 36, 9, 2])


def make_oracles():
    return [physprop.AppendOnly()]


def run(rep, tier, seed, proof_broken=False):
    import vlib.props.C03 as me
    physprop.run(rep, me, tier, seed, proof_broken)
    fault_phase(rep, tier, seed)


FAULT_BUDGET = {"quick": dict(commits=4, seconds=60), "thorough": dict(commits=40, seconds=900)}


def fault_phase(rep, tier, seed):
    """the same judgement on operations that fail or are killed: every commit is replayed with one system
    call failing (EIO) and with SIGKILL before each call; no call may touch, and no byte may change in,
    a version directory committed before"""
    import os, random, re, time
    from vlib import faultprop, phys
    rng = random.Random(seed + 3)
    budget = FAULT_BUDGET["thorough" if tier == "thorough" else "quick"]
    t_end = time.time() + budget["seconds"]
    fails = []
    for i in range(budget["commits"]):
        if time.time() > t_end:
            break
        sb = phys.Sandbox(ext_staging=rng.random() < 0.3)
        try:
            case = faultprop.prepare(random.Random(rng.getrandbits(48)), sb)
            rep.evaluations += 1
            for mode in ("err", "kill"):
                for c, obs in faultprop.enumerate_case(case, mode, ["EIO"], rep, "quick", rng):
                    oroot, v = obs["oroot"], obs["v"]
                    committed = sorted({k.split("/")[0] for k in obs["T_old"] if re.fullmatch(r"v\d+", k.split("/")[0]) and k.split("/")[0] != v})
                    what = "%s of a %s commit (`%s` at %s)" % ("single failure" if mode == "err" else "kill", case.kind, obs["inject"], obs["call"])
                    rep.evaluations += 1
                    for call in obs["calls"]:
                        if not phys.mutating(call):
                            continue
                        ps = call.paths[-1:] if call.kind == "copy" else call.paths
                        for p in ps:
                            for d in committed:
                                top = os.path.join(sb.root, oroot, d)
                                if p == top or p.startswith(top + "/"):
                                    fails.append(("%s: %s %s touches the committed version directory %s" % (what, call.name, sb.rel(p), d), obs["inject"], case))
                    for k, x in obs["T_old"].items():
                        if k.split("/")[0] in committed and obs["T"].get(k) != x:
                            fails.append(("%s: committed %s changed or vanished" % (what, k), obs["inject"], case))
        finally:
            sb.close()
    seen = set()
    for f, inj, case in fails:
        key = re.sub(r"#\d+|[0-9a-f]{8,}|when=\d+", "#", f)[:100]
        if key in seen or len(seen) >= 3:
            continue
        seen.add(key)
        rep.violation(dict(kind="oracle-failure", oracle="append-only-under-faults", what=f, replay=dict(kind=case.kind, args=case.args, inject=inj),
                           how="prepare the state with vlib/faultprop.prepare(seed) and run the commit under `strace -e inject=<inject>`"))


def replay(rep, payload):
    import vlib.props.C03 as me
    physprop.replay(rep, me, payload)
