"""C05 — a kill during commit loses nothing and never yields a silently wrong object."""
from vlib import faultprop

TRUSTED_BASE = ["Lean 4.33 kernel", "axioms: propext, Classical.choice, Quot.sound",
                "model lean/RocflModel/Commit.lean (install phase as a fault-aware state machine) tied to store/fs.rs write_new_version/write_new_object by comparing, for every injected fault, the model's verdict with the observed object state",
                "strace -e inject (error injection at a chosen invocation of a chosen system call; SIGINT for the stop request)", "vlib/phys.py trace parser",
                "vlib/ocflcheck.py (validity of the installed version)", "the rocfl binary built from /repo"]
ASSUMPTIONS = ["single-fault sequences: exactly one call fails, every other call (including those of the rollback) succeeds",
               "a failing call has no effect of its own (an open(O_TRUNC) that fails does not truncate)",
               "object states are compared semantically: inventories as JSON values, sidecars against the inventory they accompany, other files byte-wise"]
CORRESPONDENCE = "Commit.execKill (lean/RocflModel/Commit.lean) vs `rocfl commit|upgrade` under strace fault injection"
BUDGET = {"quick": dict(commits=26, seconds=200), "thorough": dict(commits=60, seconds=1700, all_calls=True)}
MODES = ["kill"]
RULE = ("commits (new object / new version / spec upgrade; duplicates and orphans to clean; three layouts; both staging placements) replayed once per mutating "
        "system call with SIGKILL delivered right before that call (thorough: before every individual write as well); "
        "distinct non-trivial = distinct (mode, commit kind, step, resulting state, exit status)")


def run(rep, tier, seed, proof_broken=False):
    import vlib.props.C05 as me
    faultprop.run(rep, me, tier, seed, proof_broken)


def replay(rep, payload):
    import json
    print(json.dumps(payload, indent=1)[:3000])
