"""shared pieces of the history-based property modules"""
import json, os
from vlib import core, hist, histprop

TRUSTED_BASE = ["Lean 4.33 kernel", "axioms: propext, Classical.choice, Quot.sound (as printed by #print axioms)",
                "hand-written model lean/RocflModel/{Inventory,Stage,Machine}.lean tied to src/ocfl/{repo,inventory,bimap,types}.rs and store/fs.rs by the differential history run",
                "Rust harness (public OcflRepo API, catch_unwind)", "Python oracles (hashlib, json, os.walk) and generators",
                "compiled Lean driver (definitions are the proved ones; compilation trusted)"]
ASSUMPTIONS = [
    "file content is identified with its digest (collision-freeness of sha256/sha512)",
    "hash-order dependent choices of the implementation (dedup survivor, content path among equals) are inputs of the model; histories whose result depends on HashMap iteration order of an internal multi-source cp/mv are compared up to that operation only",
    "globs are drawn from the modelled subset (literals, * and ?)",
    "the model abstracts the directory layout of an object to: root inventory + set of content files (path, digest); layout paths, sidecars and version-directory inventories are judged by the oracles on the real tree",
]
CORRESPONDENCE = "Rocfl.step (lean/RocflModel/Machine.lean over Stage.lean/Inventory.lean) vs OcflRepo operations (src/ocfl/repo.rs, store/fs.rs)"
BUDGET = {"quick": dict(histories=700, ops=16, seconds=150), "thorough": dict(histories=4000, ops=28, seconds=1500)}


def corpus_specs(pid):
    d = os.path.join(core.ROOT, "corpus", pid)
    out = []
    if os.path.isdir(d):
        for f in sorted(os.listdir(d)):
            if f.endswith(".json"):
                out.append(json.load(open(os.path.join(d, f))))
    return out


def make_gen(rng, budget, live, case, **kw):
    if case and "script" in case:
        return ScriptedGen(case["script"], live)
    return hist.Gen(rng, n_ops=budget["ops"], live=live, **kw)


class ScriptedGen:
    """replays a fixed list of protocol lines (corpus cases)"""

    def __init__(self, lines, live):
        self.sc = hist.Script()
        self.sc.live = live
        self.lines = lines
        self.ids = []

    def build(self):
        g = hist.Gen.__new__(hist.Gen)
        g.sc, g.ctx, g.oracles = self.sc, self.ctx, self.oracles
        hist.Gen.install_hooks(g)
        self.fails = g.fails
        from vlib.core import unhx
        import hashlib
        for l in self.lines:
            t = l.split(" ")
            op = t[0]
            kind = "setup" if op in ("reset", "init", "mkfile") else ("mut" if op in ("new", "cpx", "mvx", "cpi", "mvi", "rm", "resetp", "resetall", "commit", "upgrade", "purge") else "skip")
            meta = {}
            if kind == "mut":
                meta["id"] = unhx(t[1]).decode()
            if op == "mkfile":
                b = unhx(t[2])
                self.sc.contents[hashlib.sha256(b).hexdigest()] = b
                self.sc.add(op, l, "mkfile %s %s %s" % (t[1], hashlib.sha256(b).hexdigest(), hashlib.sha512(b).hexdigest()), kind=kind)
            elif op == "init":
                self.sc.add(op, l, "init %s" % t[3], kind=kind)
            elif kind == "mut" and op in ("commit", "upgrade"):
                # the model needs the observed dedup choice; corpus scripts stop the model comparison here
                self.sc.add(op, l, "stopcompare", kind=kind, **meta)
            else:
                self.sc.add(op, l, kind=kind, **meta)
        self.fails = g.fails
        return self.sc


def known_failed_commit_dedup(f, sc):
    """C09-K1: the failing observation follows a commit/upgrade that failed after `dedup_head` on a staged
    version that held duplicate new content"""
    if sc is None:
        return None
    steps = sc.steps if hasattr(sc, "steps") else sc
    idx = f[0] if isinstance(f[0], int) else len(steps)
    failed_after_dedup = set()
    for st in steps[: idx + 1]:
        t = st["h"].split(" ")
        r = st.get("hres", "")
        if t[0] in ("commit", "upgrade") and (r.startswith("err:illegalState") or r.startswith("err:notFound")):
            failed_after_dedup.add(t[1])
    if not failed_after_dedup:
        return None
    cur = steps[min(idx, len(steps) - 1)]["h"].split(" ")
    same_object = len(cur) > 1 and cur[1] in failed_after_dedup
    if same_object and ("not found in manifest" in f[2] or "not readable" in f[2] or "can no longer be opened" in f[2]):
        return "C09-K1"
    return None
