"""C07 — validate's verdict matches an independent reading of the OCFL specification."""
import json, os, random, shutil, time
from vlib import core, valprop, invgen, ocflcheck
from vlib.core import hx

TRUSTED_BASE = ["Lean 4.33 kernel", "axioms: propext, Classical.choice, Quot.sound",
                "model lean/RocflModel/InvCheck.lean (inventory-level rules of validate/serde.rs over a decoded inventory) tied to the code by comparing its verdict with validate_object_at on every generated inventory whose edit lies inside the modelled rules",
                "independent validator vlib/ocflcheck.py (written from the specification text; agrees with all 78 official fixture verdicts) as oracle for everything else",
                "Rust harness (validate_object_at), vlib/invgen.py (objects, edits, JSON spellings)"]
ASSUMPTIONS = ["the object directory is materialised consistently with the edited inventory (sidecars recomputed, head copy identical, content files present with the recorded content) so that exactly the edit decides the verdict",
               "JSON typing, key presence, dates, users, fixity blocks and all directory-structure rules are outside the Lean model and judged by the oracle validator only",
               "version names that denote the same number twice (v1 and v01) are not generated for the model comparison"]
CORRESPONDENCE = "InvCheck.check (lean/RocflModel/InvCheck.lean) vs has_errors of validate_object_at (validate/serde.rs + validate/mod.rs)"
BUDGET = {"quick": dict(bases=60, edits_per_base=45, spellings=3, seconds=120), "thorough": dict(bases=400, edits_per_base=60, spellings=6, seconds=1700)}
RULE = ("official fixtures + objects written by the rocfl binary + generated valid objects (plain and hostile strings) x one spec-relevant edit of the inventory "
        "(20 kinds inside the Lean model, 18 judged by the oracle only) x JSON re-spellings (escapes, key order, whitespace); distinct non-trivial = distinct (edit kind, rocfl code set, verdicts)")
FIXTURES = "/repo/resources/test/validate/official-1.0"


def oracle(dst):
    """problems found by the independent validator; a crash of the oracle is reported as such, never as a verdict"""
    try:
        return ocflcheck.check_object(dst, strict=False)
    except Exception as e:
        return ["ORACLE-CRASH %s: %s" % (type(e).__name__, e)]


def verdict(lab, name):
    r = lab.validate(name, True)
    if r[0] == "ok":
        return ("invalid" if r[1] else "valid"), sorted(set(r[1]))
    return r[0], [str(r[1])[:80]]


def run(rep, tier, seed, proof_broken=False):
    rng = random.Random(seed)
    budget = BUDGET["thorough" if (tier == "thorough" or proof_broken) else "quick"]
    t_end = time.time() + budget["seconds"]
    lab = valprop.Lab()
    impl_vs_oracle, jobs, spell_fail = [], [], []
    try:
        # 1. the official fixtures: rocfl, oracle and the expected verdict
        for grp in ("error", "valid", "warn"):
            d = os.path.join(FIXTURES, grp)
            for n in sorted(os.listdir(d)):
                name, dst = lab.place(os.path.join(d, n))
                v, codes = verdict(lab, name)
                o = "invalid" if oracle(dst) else "valid"
                exp = "invalid" if grp == "error" else "valid"
                rep.evaluations += 1
                rep.count("fixture:%s:%s" % (grp, v))
                rep.classes.add("fixture|%s|%s" % (n, ",".join(codes)))
                if not (v == o == exp):
                    impl_vs_oracle.append(dict(case="official fixture %s/%s" % (grp, n), rocfl=v, codes=codes, oracle=o, expected=exp))
                lab.remove(name)
        # 2. objects written by the real binary are valid for both
        sb, objs = valprop.build_objects(rng, n=4 if tier == "quick" else 12)
        try:
            for src in objs:
                name, dst = lab.place(src)
                v, codes = verdict(lab, name)
                o = oracle(dst)
                rep.evaluations += 1
                rep.count("rocfl-written:%s" % v)
                if v != "valid" or o:
                    impl_vs_oracle.append(dict(case="object written by rocfl " + os.path.basename(src), rocfl=v, codes=codes, oracle=o[:3]))
                lab.remove(name)
            # 2b. one edit of the directory structure (or of a file's bytes) of such an object: same verdict on both sides
            from vlib import corrupt
            skinds = [k for k in corrupt.KINDS if k not in ("root-inv-byte", "ver-inv-byte")]
            for src in objs:
                for kind in skinds:
                    for rep_i in range(2 if kind in ("stray-content", "root-sidecar-digest", "ver-sidecar-digest") else 1):
                        name, dst = lab.place(src)
                        desc = corrupt.apply(dst, kind, rng)
                        if desc is None:
                            lab.remove(name); continue
                        v, codes = verdict(lab, name)
                        o = oracle(dst)
                        ov = "invalid" if o else "valid"
                        rep.evaluations += 1
                        rep.count("structure:%s:%s" % (kind, v))
                        rep.classes.add("structure|%s|%s|%s" % (kind, ",".join(codes), ov))
                        if o and o[0].startswith("ORACLE-CRASH"):
                            rep.count("oracle-crash:" + kind)
                        elif v != ov:
                            impl_vs_oracle.append(dict(case="structure edit: " + desc, rocfl=v, codes=codes, oracle=o[:3]))
                        lab.remove(name)
        finally:
            sb.close()
        # 3. generated objects x edits x spellings
        kinds = invgen.MODELLED + invgen.ORACLE_ONLY
        for bi in range(budget["bases"]):
            if time.time() > t_end:
                break
            base = invgen.Base(rng, hostile=(bi % 2 == 1))
            for ei in range(budget["edits_per_base"]):
                kind = kinds[ei % len(kinds)] if ei < len(kinds) else rng.choice(kinds)
                inv, raw, desc = invgen.edit(rng, base, kind)
                if inv is None:
                    continue
                name = "g%d_%d" % (bi, ei)
                dst = os.path.join(lab.root, name)
                spec = base.spec if kind != "decl-other-version" else ("1.0" if base.spec == "1.1" else "1.1")
                invgen.materialise(dst, inv, base.pool, spec, raw=raw)
                v, codes = verdict(lab, name)
                o = oracle(dst)
                ov = "invalid" if o else "valid"
                if o and o[0].startswith("ORACLE-CRASH"):
                    rep.count("oracle-crash:" + kind)
                    rep.samples.append(dict(oracle_crash=o[0], case=desc)) if len(rep.samples) < 8 else None
                    lab.remove(name)
                    continue
                rep.evaluations += 1
                rep.count("edit:%s:%s" % (kind, v))
                rep.classes.add("%s|%s|%s" % (kind, ",".join(codes), ov))
                if v != ov:
                    impl_vs_oracle.append(dict(case=desc, rocfl=v, codes=codes, oracle=o[:3], inventory=inv if raw is None else raw.decode("utf-8", "replace")))
                if kind in invgen.MODELLED and raw is None:
                    line = invgen.lean_line(inv)
                    if line:
                        jobs.append((line, v, codes, desc, inv))
                # re-spellings of the same inventory: same verdict
                if raw is None and v in ("valid", "invalid"):
                    for si in range(budget["spellings"]):
                        mode = ["some", "all", "nonascii", "none"][si % 4]
                        b = invgen.spell(rng, inv, mode=mode, ws=(si % 2 == 0), shuffle=True)
                        try:
                            if json.loads(b.decode("utf-8")) != inv:
                                rep.count("spelling-generator-bug"); continue
                        except Exception:
                            rep.count("spelling-generator-bug"); continue
                        invgen.materialise(dst, inv, base.pool, spec, raw=b)
                        v2, codes2 = verdict(lab, name)
                        rep.evaluations += 1
                        rep.count("spelling:%s:%s" % (mode, "same" if v2 == v else "DIFFERENT"))
                        if v2 != v:
                            spell_fail.append(dict(case=desc + " re-spelled (%s escapes)" % mode, canonical=v, respelled=v2, codes=codes2,
                                                   inventory_text=b.decode("utf-8", "replace")[:1500]))
                lab.remove(name)
        # 4. inventories in the directories of earlier versions: consistent ones, and one edit of one of them
        for bi in range(budget["bases"]):
            if time.time() > t_end:
                break
            base = invgen.Base(rng, hostile=(bi % 3 == 1))
            for kind in invgen.CROSS:
                ce = invgen.cross_edit(rng, base, kind)
                if ce is None:
                    continue
                olds, side, desc = ce
                name = "x%d_%s" % (bi, kind)
                dst = os.path.join(lab.root, name)
                invgen.materialise(dst, base.inv, base.pool, base.spec)
                invgen.write_old_inventories(dst, olds, side, base.alg)
                v, codes = verdict(lab, name)
                o = oracle(dst)
                ov = "invalid" if o else "valid"
                rep.evaluations += 1
                rep.count("cross:%s:%s" % (kind, v))
                rep.classes.add("%s|%s|%s" % (kind, ",".join(codes), ov))
                if o and o[0].startswith("ORACLE-CRASH"):
                    rep.count("oracle-crash:" + kind)
                elif v != ov:
                    impl_vs_oracle.append(dict(case=desc, rocfl=v, codes=codes, oracle=o[:3], inventory=base.inv, earlier=olds))
                lab.remove(name)
    finally:
        lab.close()
    # T: the Lean model's verdict on the modelled edits
    dis = []
    if jobs:
        res = core.run_lines(core.drv_path(), [j[0] for j in jobs])
        for (line, v, codes, desc, inv), got in zip(jobs, res):
            rep.count("lean:" + got.split(" ")[1] if got.startswith("ok ") else "lean:" + got)
            if not got.startswith("ok "):
                dis.append(dict(case=desc, model=got, rocfl=v)); continue
            mv = got.split(" ")[1]
            if mv != v:
                dis.append(dict(case=desc, model=got[3:], rocfl=v, codes=codes, inventory=inv, request=line[:400]))
        rep.sample(dict(request=jobs[0][0][:300], model=res[0], rocfl=jobs[0][1]))
    rep.disagreements = len(dis)
    seen = set()
    for f in impl_vs_oracle + spell_fail:
        key = f["case"].split(" ")[0] + str(f.get("codes"))
        if key in seen or len(seen) >= 4:
            continue
        seen.add(key)
        rep.violation(dict(kind="oracle-failure", what="rocfl's verdict differs from the independent validator" if "oracle" in f else "the verdict depends on the JSON spelling", **f))
    if dis and not (impl_vs_oracle or spell_fail):
        rep.violation(dict(kind="correspondence-broken", correspondence=CORRESPONDENCE, what=dis[0], disagreeing=len(dis)), no_input=True)
    elif dis:
        rep.count("model-disagreements-alongside-oracle-failures:%d" % len(dis))


def replay(rep, payload):
    print(json.dumps(payload, indent=1)[:3000])
