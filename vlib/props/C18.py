"""C18 — diff, log and ls -l tell the true history of an object."""
from vlib import histprop, oracles
from vlib.props import _hist_common as hc
from vlib.props._hist_common import TRUSTED_BASE, ASSUMPTIONS, CORRESPONDENCE
from vlib.props import _hist_common as _hc0
# history observations (log, file log, diffs of version pairs) make every step several times as expensive
BUDGET = {"quick": dict(_hc0.BUDGET["quick"], histories=220), "thorough": _hc0.BUDGET["thorough"]}

RULE = ("operation histories (new/cp/mv external+internal/rm/reset/commit/upgrade/purge over 1-2 objects, all layouts, both staging "
        "placements) generated interactively against the implementation so that sources, globs and destinations hit existing paths; "
        "distinct non-trivial = distinct (operation, outcome class) pairs observed")


def make_gen(rng, budget, live, case):
    return hc.make_gen(rng, budget, live, case, weights=[30, 6, 18, 22, 12, 4, 1, 30, 0, 1, 0], observe_history=True)


def make_oracles(contents, gen):
    return [oracles.TrueHistory()]


def corpus_specs():
    return hc.corpus_specs("C18")


def known_match(f, sc):
    return None


def run(rep, tier, seed, proof_broken=False):
    import vlib.props.C18 as me
    histprop.run(rep, me, tier, seed, proof_broken)


def replay(rep, payload):
    import vlib.props.C18 as me
    histprop.replay(rep, me, payload)
