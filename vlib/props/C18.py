"""C18 — diff, log and ls -l tell the true history of an object."""
from vlib import histprop, oracles
from vlib.props import _hist_common as hc
from vlib.props._hist_common import TRUSTED_BASE, ASSUMPTIONS, CORRESPONDENCE
from vlib.props import _hist_common as _hc0
# history observations (log, file log, diffs of version pairs) make every step several times as expensive
BUDGET = {"quick": dict(_hc0.BUDGET["quick"], histories=220), "thorough": _hc0.BUDGET["thorough"]}

RULE = ("operation histories (new/cp/mv external+internal/rm/reset/commit/upgrade/purge over 1-2 objects, all layouts, both staging "
        "placements) generated interactively against the implementation so that sources, globs and destinations hit existing paths; "
        "distinct non-trivial = distinct (operation, outcome class) pairs observed")


def make_gen(rng, budget, live, case):
    return hc.make_gen(rng, budget, live, case, weights=[30, 6, 18, 22, 12, 4, 1, 30, 0, 1, 0], observe_history=True)


def make_oracles(contents, gen):
    return [oracles.TrueHistory()]


def corpus_specs():
    return hc.corpus_specs("C18")


def known_match(f, sc):
    return None


def spec_diff(left, right):
    """the set-based reading of the statement on two version states (path -> digest): (operation, text) pairs as the
    command prints them"""
    out = []
    for p in sorted(set(left) & set(right)):
        if left[p] != right[p]:
            out.append(("M", p))
    lonly, ronly = {}, {}
    for p in sorted(set(left) - set(right)):
        lonly.setdefault(left[p], []).append(p)
    for p in sorted(set(right) - set(left)):
        ronly.setdefault(right[p], []).append(p)
    for d in sorted(set(lonly) | set(ronly)):
        if d in lonly and d in ronly:
            out.append(("R", "%s -> %s" % (", ".join(lonly[d]), ", ".join(ronly[d]))))
        else:
            out += [("D", p) for p in lonly.get(d, [])] + [("A", p) for p in ronly.get(d, [])]
    return sorted(out)


CLI_BUDGET = {"quick": dict(objects=4, seconds=40), "thorough": dict(objects=60, seconds=600)}


def cli_phase(rep, tier, seed):
    """`rocfl diff`, `show` and `log <file>` of the binary on rename-heavy histories (one-to-one, many-to-one, one-to-many,
    swaps, copies, modifications), judged against the set-based specification computed from the inventory itself"""
    import json, os, random, re, time
    from vlib import phys, faultprop
    rng = random.Random(seed + 21)
    budget = CLI_BUDGET["thorough" if tier == "thorough" else "quick"]
    t_end = time.time() + budget["seconds"]
    fails = []
    for i in range(budget["objects"]):
        if time.time() > t_end:
            break
        sb = phys.Sandbox()
        try:
            contents = {"X": b"same content", "K": b"keep", "M1": b"first", "M2": b"second", "N": b"new"}
            for k, b in contents.items():
                open(os.path.join(sb.src, k), "wb").write(b)
            sb.run(["init", "-l", "0004-hashed-n-tuple-storage-layout"])
            oid = "obj"
            sb.run(["new", oid])
            for name, k in (("a.txt", "X"), ("b.txt", "X"), ("k.txt", "K"), ("m.txt", "M1"), ("d/x.txt", "X"), ("d/y.txt", "N")):
                sb.run(["cp", oid, os.path.join(sb.src, k), "--", name])
            sb.run(["commit", "-c", faultprop.TS, oid])
            paths = ["a.txt", "b.txt", "k.txt", "m.txt", "d/x.txt", "d/y.txt"]
            for v in range(rng.randint(2, 4)):
                for _ in range(rng.randint(1, 4)):
                    live = sorted(paths)
                    op = rng.choice(["mv", "mv", "rm", "cpi", "modify", "many-to-one", "one-to-many", "dir-to-file", "file-to-dir"])
                    if not live:
                        break
                    p = rng.choice(live)
                    q = "r%d_%d.txt" % (v, rng.randint(0, 99))
                    if op == "mv":
                        if sb.run(["mv", "-i", oid, p, "--", q])["rc"] == 0:
                            paths.remove(p); paths.append(q)
                    elif op == "rm":
                        if sb.run(["rm", oid, p])["rc"] == 0:
                            paths.remove(p)
                    elif op == "cpi":
                        if sb.run(["cp", "-i", oid, p, "--", q])["rc"] == 0:
                            paths.append(q)
                    elif op == "modify":
                        sb.run(["cp", oid, os.path.join(sb.src, rng.choice(["M2", "N", "K"])), "--", p])
                    elif op == "dir-to-file":
                        # a directory is removed and a file takes its name (with new or with one of the removed contents)
                        dirs = sorted({x.split("/")[0] for x in live if "/" in x})
                        if dirs:
                            dd = rng.choice(dirs)
                            if sb.run(["rm", "-r", oid, dd])["rc"] == 0:
                                paths[:] = [x for x in paths if not x.startswith(dd + "/")]
                                if sb.run(["cp", oid, os.path.join(sb.src, rng.choice(["N", "X", "M2"])), "--", dd])["rc"] == 0:
                                    paths.append(dd)
                    elif op == "file-to-dir":
                        if "/" not in p and sb.run(["rm", oid, p])["rc"] == 0:
                            paths.remove(p)
                            if sb.run(["cp", oid, os.path.join(sb.src, rng.choice(["N", "X"])), "--", p + "/inner.txt"])["rc"] == 0:
                                paths.append(p + "/inner.txt")
                    elif op == "many-to-one":
                        same = [x for x in live if x in ("a.txt", "b.txt", "d/x.txt")]
                        if len(same) >= 2:
                            if sb.run(["mv", "-i", oid, same[0], "--", q])["rc"] == 0:
                                paths.remove(same[0]); paths.append(q)
                            if sb.run(["rm", oid, same[1]])["rc"] == 0:
                                paths.remove(same[1])
                    else:
                        q2 = q.replace(".txt", "b.txt")
                        if sb.run(["cp", "-i", oid, p, "--", q])["rc"] == 0:
                            paths.append(q)
                        if sb.run(["mv", "-i", oid, p, "--", q2])["rc"] == 0:
                            paths.remove(p); paths.append(q2)
                sb.run(["commit", "-c", faultprop.TS, oid])
            oroot = faultprop.object_root(sb, oid)
            inv = json.load(open(os.path.join(sb.root, oroot, "inventory.json")))
            names = sorted(inv["versions"], key=lambda x: int(x[1:]))
            states = {n: {p: d for d, ps in inv["versions"][n]["state"].items() for p in ps} for n in names}

            def parse(text):
                out = []
                for l in text.split("\n"):
                    m = re.match(r"^(Added|Modified|Deleted|Renamed)\s+(.*?)\s*$", l)
                    if m:
                        out.append((m.group(1)[0], m.group(2)))
                return sorted(out)
            pairs = [(a, b) for a in names for b in names if a != b]
            for a, b in (pairs if tier == "thorough" else rng.sample(pairs, min(len(pairs), 6))):
                r = sb.run(["diff", oid, a, b])
                rep.evaluations += 1
                rep.classes.add("cli-diff|rc%d" % r["rc"])
                want = spec_diff(states[a], states[b])
                got = parse(r["out"].decode("utf-8", "replace"))
                if r["rc"] != 0 or got != want:
                    fails.append("`rocfl diff obj %s %s` (exit %d) prints %r, the states differ by %r" % (a, b, r["rc"], got, want))
            for k, n in enumerate(names):
                r = sb.run(["show", "-m", oid, n])
                want = spec_diff(states[names[k - 1]] if k else {}, states[n])
                got = parse(r["out"].decode("utf-8", "replace"))
                rep.evaluations += 1
                if r["rc"] != 0 or got != want:
                    fails.append("`rocfl show -m obj %s` (exit %d) prints %r, the version differs from the one before by %r" % (n, r["rc"], got, want))
            for p in sorted({q for st in states.values() for q in st})[:6]:
                r = sb.run(["log", "-c", "-t", oid, p])
                got = [l.split("\t")[0].strip() for l in r["out"].decode("utf-8", "replace").split("\n") if l.strip()]
                want = [n for k, n in enumerate(names) if states[n].get(p) != (states[names[k - 1]].get(p) if k else None)]
                rep.evaluations += 1
                if got != want:
                    fails.append("`rocfl log obj %s` lists %r, its content changes in %r" % (p, got, want))
        finally:
            sb.close()
    seen = set()
    for f in fails:
        key = re.sub(r"v\d+|r\d+_\d+b?", "#", f)[:50]
        if key in seen or len(seen) >= 3:
            continue
        seen.add(key)
        rep.violation(dict(kind="oracle-failure", oracle="true-history (command line)", what=f))
    rep.extra["cli_history_failures"] = len(fails)


def run(rep, tier, seed, proof_broken=False):
    import vlib.props.C18 as me
    histprop.run(rep, me, tier, seed, proof_broken)
    cli_phase(rep, tier, seed)


def replay(rep, payload):
    import vlib.props.C18 as me
    histprop.replay(rep, me, payload)
