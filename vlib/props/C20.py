"""C20 — the command line does what the library does and its exit status is truthful."""
import hashlib, json, os, random, re, shutil, time
from vlib import core, phys, histprop, faultprop
from vlib.core import hx, unhx

TRUSTED_BASE = ["Lean 4.33 kernel", "axioms: propext, Classical.choice, Quot.sound",
                "model lean/RocflModel/Cli.lean: `translate` (argument vector -> library call: option table of opts.rs composed with cmds.rs) and the exit-status functions of rocfl.rs / validate.rs / list.rs, tied to the binary on every run: the binary runs the argument vector, the library (Rust harness, in-process) runs the model's translation, results, repository trees, cat output and exit status are compared",
                "clap's tokenizer (one token per flag/value is generated; bundling and --long=value are not exercised)",
                "Rust harness, the rocfl binary built from /repo, vlib/props/C20.py (generator, tree canonicalisation)"]
ASSUMPTIONS = ["which of several identical staged files survives deduplication or a move onto one target is not determined inside the library (hash-map order): committed content files are compared by version directory and content hash, staged objects by logical state and digest set only",
               "commit and upgrade always pass --created so that inventories are comparable byte for byte; author name/address come from the command line, not from a config file",
               "purge is driven with --force (the interactive prompt is not exercised)"]
CORRESPONDENCE = "Cli.translate / Cli.*Exit (lean/RocflModel/Cli.lean) vs the rocfl binary (src/bin/rocfl.rs, src/cmd/*.rs)"
BUDGET = {"quick": dict(histories=110, ops=16, vcases=14, seconds=170), "thorough": dict(histories=300, ops=30, vcases=300, seconds=1700)}
RULE = ("operation histories (new/cp/mv/rm/reset/commit/upgrade/purge/cat with their semantic options, binary file contents, partial failures, usage errors) run through the binary and, "
        "via the model's translation, through the library, compared step by step (status, cat bytes, listings, trees); plus validate invocations (-p -n -l -e -w, object and repository mode) on "
        "repositories with injected object and storage problems; distinct non-trivial = distinct (sub-command, options, exit status)")
TS = "2022-03-04T05:06:07+00:00"
NAMES = ["a.txt", "b.bin", "dir/c.txt", "dir/sub/d.bin", "e", "sp ace.txt", "uni-é.txt"]
LAYOUTS = ["0002-flat-direct-storage-layout", "0003-hash-and-id-n-tuple-storage-layout", "0004-hashed-n-tuple-storage-layout"]


def canon_tree(top):
    """tree snapshot insensitive to the deduplication choice: content files keyed by (version dir, hash)"""
    out = {}
    for d, dirs, files in os.walk(top):
        rel = os.path.relpath(d, top)
        parts = [] if rel == "." else rel.split("/")
        vi = next((i for i, p in enumerate(parts) if re.fullmatch(r"v\d+", p)), None)
        in_content = vi is not None and len(parts) >= vi + 2
        if rel != "." and not (in_content and (len(parts) > vi + 2 or "rocfl-staging" in parts)) and "rocfl-locks" not in parts:
            out[rel] = "d"
        for f in files:
            fp = os.path.join(d, f)
            if f.endswith(".lock"):
                continue
            if in_content and "rocfl-staging" in parts:
                continue
            if in_content:
                k = "/".join(parts[:vi + 2]) + "/#" + faultprop.canon_file(fp)
                out[k] = out.get(k, 0) + 1
            elif f == "inventory.json" and "rocfl-staging" in parts:
                out[os.path.normpath(os.path.join(rel, f))] = canon_staged_inventory(fp)
            else:
                out[os.path.normpath(os.path.join(rel, f))] = faultprop.canon_file(fp)
    return out


def canon_staged_inventory(fp):
    """a staged inventory carries the wall-clock time of staging as `created` of its head version
    (replaced by --created at commit): compared without it"""
    try:
        j = json.load(open(fp))
        j["versions"][j["head"]].pop("created", None)
        # whether a staged duplicate of already stored content is kept depends on hash-map order
        # inside the library (colliding move targets, deduplication): the staged manifest is compared
        # by its digests only; the main repository is compared strictly once committed
        j["manifest"] = sorted(j.get("manifest", {}))
        for b in j["versions"].values():
            b["state"] = {k: sorted(v) for k, v in b.get("state", {}).items()}
        return "sinv:" + hashlib.sha256(json.dumps(j, sort_keys=True).encode()).hexdigest()[:16]
    except Exception:
        return faultprop.canon_file(fp)


class Pair:
    """the same repository driven through the library (harness) and through the binary"""

    def __init__(self, rng):
        self.rng = rng
        self.live = histprop.LiveH(core.build_harness())
        self.live.ask("reset")
        self.hdir = os.path.join(self.live.base, "r1")
        self.sb = phys.Sandbox()
        self.k = 0

    def close(self):
        self.live.close()
        self.sb.close()

    def mkfile(self, rel, content):
        p = os.path.join(self.sb.src, rel)
        os.makedirs(os.path.dirname(p), exist_ok=True)
        open(p, "wb").write(content)
        assert self.live.ask("mkfile %s %s" % (hx(rel), hx(content))) == "ok"

    def trees(self):
        return canon_tree(os.path.join(self.hdir, "root")), canon_tree(self.sb.root)


def gen_op(rng, ids, files, known=None):
    """an argument vector; external sources are ('SRC', rel) pairs.  `known(oid)` lists logical paths
    that currently exist (so that most internal operations and reads hit something)"""
    oid = rng.choice(ids)
    have = (known(oid) if known else []) or []
    kind = rng.choices(["new", "cpx", "mvx", "cpi", "mvi", "rm", "reset", "commit", "upgrade", "purge", "cat", "usage"],
                       [6, 22, 6, 10, 8, 8, 6, 20, 3, 2, 12, 3])[0]
    def lp():
        if have and rng.random() < 0.7:
            p = rng.choice(have)
            return p if rng.random() < 0.65 or "/" not in p else p.rsplit("/", 1)[0]
        return rng.choice(["a.txt", "b.bin", "dir", "dir/c.txt", "x/y.txt", "new.txt", "e", "*", "dir/*", "missing"])
    if kind == "new":
        a = ["new"]
        if rng.random() < 0.5: a += ["-d", rng.choice(["sha256", "sha512"])]
        if rng.random() < 0.3: a += ["-c", rng.choice(["data", "content"])]
        if rng.random() < 0.3: a += ["-z", rng.choice(["0", "3", "5"])]
        if rng.random() < 0.2: a += ["-v", rng.choice(["1.0", "1.1"])]
        return kind, a + [oid]
    if kind == "cpx":
        srcs = [("SRC", f) for f in rng.sample(files + ["dir", "missing-src"], rng.choice([1, 1, 2, 3]))]
        return kind, ["cp"] + (["-r"] if rng.random() < 0.6 else []) + [oid] + srcs + ["--", rng.choice(["/", "a.txt", "dst/", "dir", "x/y.txt"])]
    if kind == "mvx":
        return kind, ["mv", oid, ("SRC", rng.choice(files + ["missing-src"])), "--", rng.choice(["/", "moved/", "m.txt"])]
    # several sources into one file name: which source wins depends on hash-map order inside the
    # library itself (flagged as non-deterministic by the C09 model) - not a CLI matter, not generated
    def no_clash(srcs):
        """sources matched by a glob (or directories) whose files share a base name would land on one target: which one
        wins depends on hash order inside the library; such sources are replaced by one literal path"""
        if any(c in x for x in srcs for c in "*?") or len(srcs) > 1:
            names = [h.rsplit("/", 1)[-1] for h in have]
            if len(names) != len(set(names)) or len(srcs) > 1 and len({x.rsplit("/", 1)[-1] for x in srcs}) < len(srcs):
                return [rng.choice(have)] if have else ["a.txt"]
        return srcs
    if kind == "cpi":
        srcs = no_clash([lp() for _ in range(rng.choice([1, 1, 2]))])
        return kind, ["cp", "-i"] + (["-r"] if rng.random() < 0.5 else []) + (["-v", rng.choice(["v1", "v2"])] if rng.random() < 0.3 else []) + \
            [oid] + srcs + ["--", rng.choice(["/", "copy.txt", "d3/", "dir"] if len(srcs) == 1 and not any(c in srcs[0] for c in "*?") else ["/", "d3/"])]
    if kind == "mvi":
        srcs = no_clash([lp() for _ in range(rng.choice([1, 2]))])
        return kind, ["mv", "-i", oid] + srcs + ["--", rng.choice(["/", "ren.txt", "d4/"] if len(srcs) == 1 and not any(c in srcs[0] for c in "*?") else ["/", "d4/"])]
    if kind == "rm":
        return kind, ["rm"] + (["-r"] if rng.random() < 0.5 else []) + [oid] + [lp() for _ in range(rng.choice([1, 2]))]
    if kind == "reset":
        return kind, ["reset"] + (["-r"] if rng.random() < 0.5 else []) + [oid] + [lp() for _ in range(rng.choice([0, 0, 1, 2]))]
    if kind == "commit":
        a = ["commit", "-c", TS]
        if rng.random() < 0.6: a += ["-n", rng.choice(["Me", "N \"q\""])]
        if rng.random() < 0.4: a += ["-a", "mailto:me@example.org"]
        if rng.random() < 0.6: a += ["-m", rng.choice(["msg", "multi word message", "üñí"])]
        if rng.random() < 0.3: a += ["-p"]
        return kind, a + [oid]
    if kind == "upgrade":
        return kind, ["upgrade", "-c", TS, "-v", "1.1"] + (["-n", "Me"] if rng.random() < 0.5 else []) + ([oid] if rng.random() < 0.8 else [])
    if kind == "purge":
        return kind, ["purge", "-f", oid]
    if kind == "cat":
        return kind, ["cat"] + rng.choice([[], [], ["-S"], ["-v", "v1"], ["-v", "v2"]]) + [oid, lp()]
    return kind, rng.choice([["cp", "-v", "v1", oid, "a.txt", "--", "b.txt"], ["cat", "-S", "-v", "v1", oid, "a.txt"], ["mv", oid, "--", "x"],
                             ["cp", "-x", oid, "a", "--", "b"], ["commit"], ["rm", oid], ["new", "-z"], ["commit", "-n", oid, "extra", "more"]])


def render(pair, argv, for_cli):
    out = []
    for t in argv:
        if isinstance(t, tuple):
            out.append(os.path.join(pair.sb.src, t[1]) if for_cli else t[1])
        else:
            out.append(t)
    return out


def history(rng, rep, budget, fails, jobs):
    pair = Pair(rng)
    try:
        files = rng.sample(NAMES, rng.randint(3, len(NAMES)))
        for i, f in enumerate(files):
            pair.mkfile(f, bytes([i]) + rng.randbytes(rng.choice([0, 1, 20, 3000])) + bytes(rng.choice([[0], [255, 254], [10], [13, 10]])))
        layout, spec = rng.choice(LAYOUTS), rng.choice(["1.0", "1.1"])
        r1 = pair.live.ask("init %s - %s default" % (layout, spec))
        r2 = pair.sb.run(["init", "-v", spec, "-l", layout])
        if r1 != "ok" or r2["rc"] != 0:
            fails.append(dict(what="init disagrees", lib=r1, cli=r2["err"])); return
        ids = ["obj-%d" % k for k in range(rng.randint(1, 3))]
        hist = []
        warmup = []
        for o in ids:
            warmup += [("new", ["new", o]), ("cpx", ["cp", "-r", o, ("SRC", files[0]), ("SRC", files[1]), "--", "/"]),
                       ("commit", ["commit", "-c", TS, "-n", "Me", o])]
        for step in range(budget["ops"] + len(warmup)):
            def known(o):
                out = []
                for q in ("staged %s" % hx(o), "ver %s -" % hx(o)):
                    r = pair.live.ask(q)
                    if r.startswith("ok "):
                        out += list(json.loads(r[3:])["state"])
                return sorted(set(out))
            kind, argv = warmup[step] if step < len(warmup) else gen_op(rng, ids, files, known)
            rel = render(pair, argv, False)
            tr = core.run_lines(core.drv_path(), ["script-translate " + " ".join(hx(t) for t in rel)])[0]
            cli = pair.sb.run(render(pair, argv, True))
            rc = cli["rc"]
            hist.append("%s -> rc=%d" % (" ".join(rel), rc))
            rep.evaluations += 1
            opts = ",".join(sorted(t for t in rel if t.startswith("-") and t != "--"))
            rep.classes.add("%s|%s|rc%d" % (argv[0], opts, rc))
            if tr == "ok usage":
                rep.count("usage-error:rc%d" % rc)
                if rc != 2:
                    jobs.append(dict(kind="translate", what="the model rejects the argument vector as a usage error but the binary exits %d" % rc, history=list(hist)))
                continue
            if not tr.startswith("ok "):
                fails.append(dict(what="driver: " + tr, history=list(hist))); continue
            if rc == 2 and argv[0] != "validate":
                jobs.append(dict(kind="translate", what="the binary reports a usage error (exit 2) for an argument vector the model translates to `%s`" % tr[3:60], history=list(hist)))
                continue
            line = tr[3:].replace("~", "-")
            lib = pair.live.ask(line)
            ok = lib.startswith("ok")
            rep.count("%s:%s" % (kind, "ok" if ok else lib.split(" ")[0]))
            # exit status: the model's mainExit on the library's outcome
            if (0 if ok else 1) != rc:
                fails.append(dict(what="`%s` exits %d but the library call `%s` %s" % (" ".join(rel), rc, line.split(" ")[0], "succeeded" if ok else "failed: " + lib[:80]),
                                  history=list(hist), stderr=cli["err"][-300:]))
            if argv[0] == "cat":
                got = "%s:%d" % (hashlib.sha256(cli["out"]).hexdigest(), len(cli["out"]))
                if ok and lib[3:] != got:
                    fails.append(dict(what="`cat` wrote %d bytes (sha256 %s…) to standard output, the library returns %s" % (len(cli["out"]), got[:12], lib[3:]), history=list(hist)))
                if not ok and cli["out"]:
                    fails.append(dict(what="a failing `cat` wrote %d bytes to standard output" % len(cli["out"]), history=list(hist)))
            else:
                ta, tb = pair.trees()
                if ta != tb:
                    diff = sorted(set(ta.items()) ^ set(tb.items()))[:6]
                    fails.append(dict(what="after `%s` the repository written through the binary differs from the library's: %s" % (" ".join(rel), diff), history=list(hist)))
                    return
        # listings: one line per result
        lib = pair.live.ask("ls -")
        cli = pair.sb.run(["ls"])
        if lib.startswith("ok "):
            n = len(json.loads(lib[3:])["objects"])
            lines = [l for l in cli["out"].decode("utf-8", "replace").split("\n") if l.strip()]
            rep.count("ls:%d" % n)
            if len(lines) != n or cli["rc"] != 0:
                fails.append(dict(what="`ls` printed %d lines (exit %d) for %d objects" % (len(lines), cli["rc"], n), history=hist))
            # `ls -o <pattern>`: exactly the objects whose id the pattern matches, also for patterns made of alternatives only
            for g in ["obj-*", "{obj-0,obj-1}", "obj-{0,1,7}", "obj-[01]", "*0", "obj-0", "nope", "{obj-0,nope}", "obj-\\0", "{x"]:
                for staged_l in (False, True):
                    lg = pair.live.ask(("lsstaged %s" if staged_l else "ls %s") % hx(g))
                    cg = pair.sb.run(["ls", "-o"] + (["-S"] if staged_l else []) + [g])
                    rep.evaluations += 1
                    rep.classes.add("ls-o|%s|%s|rc%d" % (g, "S" if staged_l else "", cg["rc"]))
                    if lg.startswith("ok "):
                        want_ids = sorted(o_[0] for o_ in json.loads(lg[3:])["objects"])
                        got_ids = sorted(l.strip() for l in cg["out"].decode("utf-8", "replace").split("\n") if l.strip())
                        if cg["rc"] != 0 or got_ids != want_ids:
                            fails.append(dict(what="`ls -o%s %s` (exit %d) lists %r, the library selects %r" % (" -S" if staged_l else "", g, cg["rc"], got_ids, want_ids), history=hist[-6:]))
                    elif cg["rc"] == 0:
                        fails.append(dict(what="`ls -o%s %s` exits 0, the library rejects the pattern: %s" % (" -S" if staged_l else "", g, lg[:60]), history=hist[-6:]))
            for o, _v in json.loads(lib[3:])["objects"]:
                st = pair.live.ask("ver %s -" % hx(o))
                c2 = pair.sb.run(["ls", o])
                if st.startswith("ok "):
                    m = len(json.loads(st[3:])["state"])
                    l2 = [l for l in c2["out"].decode("utf-8", "replace").split("\n") if l.strip()]
                    if len(l2) != m or c2["rc"] != 0:
                        fails.append(dict(what="`ls %s` printed %d lines (exit %d) for %d files" % (o, len(l2), c2["rc"], m), history=hist))
                    # history commands: one line per version in compact form
                    lg = pair.live.ask("log %s" % hx(o))
                    c3 = pair.sb.run(["log", "-c", o])
                    if lg.startswith("ok "):
                        nv = len(json.loads(lg[3:]))
                        l3 = [l for l in c3["out"].decode("utf-8", "replace").split("\n") if l.strip()]
                        rep.count("log:%d" % nv)
                        rep.evaluations += 1
                        if len(l3) != nv or c3["rc"] != 0:
                            fails.append(dict(what="`log -c %s` printed %d lines (exit %d) for %d versions: %s" % (o, len(l3), c3["rc"], nv, c3["err"][:200]), history=hist))
                        # order and limit: -r shows the newest first, -n N the first N of what is shown
                        vers = [e["v"] for e in json.loads(lg[3:])]
                        for extra in ([], ["-r"], ["-n", "1"], ["-n", "2"], ["-r", "-n", "1"], ["-r", "-n", "2"], ["-n", str(nv + 3)]):
                            cx = pair.sb.run(["log", "-c", "-t"] + extra + [o])
                            got = [l.split("\t")[0].strip() for l in cx["out"].decode("utf-8", "replace").split("\n") if l.strip()]
                            want = list(reversed(vers)) if "-r" in extra else list(vers)
                            if "-n" in extra:
                                want = want[:int(extra[extra.index("-n") + 1])]
                            rep.evaluations += 1
                            rep.classes.add("log|%s|rc%d" % (",".join(x for x in extra if x.startswith("-")), cx["rc"]))
                            if cx["rc"] != 0 or got != want:
                                fails.append(dict(what="`log -c -t %s %s` (exit %d) lists %r, the library's versions in that order are %r" % (" ".join(extra), o, cx["rc"], got, want), history=hist[-6:]))
                    paths = sorted(json.loads(st[3:])["state"])
                    for pth in paths[:2]:
                        fl = pair.live.ask("flog %s %s" % (hx(o), hx(pth)))
                        c4 = pair.sb.run(["log", "-c", o, pth])
                        if fl.startswith("ok "):
                            nf = len(json.loads(fl[3:]))
                            l4 = [l for l in c4["out"].decode("utf-8", "replace").split("\n") if l.strip()]
                            rep.evaluations += 1
                            if len(l4) != nf or c4["rc"] != 0:
                                fails.append(dict(what="`log -c %s %s` printed %d lines (exit %d), the library lists %d versions" % (o, pth, len(l4), c4["rc"], nf), history=hist))
                    inf = pair.live.ask("info %s" % hx(o))
                    c5 = pair.sb.run(["info", o])
                    if inf.startswith("ok "):
                        J5 = json.loads(inf[3:])
                        t5 = c5["out"].decode("utf-8", "replace")
                        rep.evaluations += 1
                        if c5["rc"] != 0 or str(J5["spec"]) not in t5 or str(J5["alg"]) not in t5:
                            fails.append(dict(what="`info %s` (exit %d) does not show the library's answer %s: %s" % (o, c5["rc"], J5, t5[:200]), history=hist))
        content_listings(rng, rep, pair, fails, hist, ids, jobs)
        diff_renderings(rng, rep, pair, fails, hist, ids)
        # validate: object and repository mode under options, after identical damage on both sides
        validate_cases(rng, rep, pair, budget, fails, jobs, hist)
        # listings over objects that cannot be read: the listing goes on, the exit status is 1 — for every
        # rendering (streamed, table, physical paths, sorted) and for the staged listings (`status`, `ls -S`)
        if rng.random() < 0.6:
            everything = rng.random() < 0.5
            for top in (os.path.join(pair.hdir, "root"), pair.sb.root):
                objs = sorted(d for d, _, fs in os.walk(top) if any(f.startswith("0=ocfl_object") for f in fs))
                main = [d for d in objs if "rocfl-staging" not in d]
                staged = [d for d in objs if "rocfl-staging" in d]
                for group in (main, staged):
                    for d in (group if everything else group[:1]):
                        open(os.path.join(d, "inventory.json"), "w").write("{ not json")
            for staged_listing, variants in ((False, [["ls"], ["ls", "-l"], ["ls", "-p"], ["ls", "-s", "version"], ["ls", "-l", "-r"], ["ls", "-o"]]),
                                             (True, [["ls", "-S"], ["ls", "-S", "-l"], ["status"], ["ls", "-S", "-s", "name"]])):
                lib = pair.live.ask("lsstaged -" if staged_listing else "ls -")
                if not lib.startswith("ok "):
                    continue
                J = json.loads(lib[3:])
                want = 0 if J["errors"] == 0 else 1
                for a in variants:
                    cli = pair.sb.run(a)
                    text = cli["out"].decode("utf-8", "replace")
                    lines = [l for l in text.split("\n") if l.strip()]
                    rep.evaluations += 1
                    rep.count("listing-with-unreadable:%s:%s:rc%d" % ("staged" if staged_listing else "main", "all" if (J["errors"] and not J["objects"]) else ("some" if J["errors"] else "none"), cli["rc"]))
                    rep.classes.add("%s|unreadable%d|readable%d|rc%d" % (" ".join(a), min(J["errors"], 1), min(len(J["objects"]), 1), cli["rc"]))
                    if cli["rc"] != want:
                        jobs.append(dict(kind="exit", what="`%s` with %d unreadable and %d readable object(s) exits %d (model: %d)" % (" ".join(a), J["errors"], len(J["objects"]), cli["rc"], want), history=hist[-4:]))
                    # one entry per readable object (tables may add a header line)
                    if a in (["ls"], ["ls", "-S"], ["ls", "-p"], ["ls", "-o"]) and len(lines) != len(J["objects"]):
                        jobs.append(dict(kind="exit", what="`%s` printed %d lines for %d readable objects" % (" ".join(a), len(lines), len(J["objects"])), history=hist[-4:]))
    finally:
        pair.close()


def _simple_glob(g, literal_separator):
    """literals, * and ? only (what this phase generates); bytes, as globset matches"""
    out = b""
    for ch in g.encode("utf-8"):
        c = bytes([ch])
        if c == b"*":
            out += b"[^/]*" if literal_separator else b".*"
        elif c == b"?":
            out += b"[^/]" if literal_separator else b"."
        else:
            out += re.escape(c)
    rx = re.compile(b"^" + out + b"$", re.S)
    return lambda x: rx.match(x.encode("utf-8")) is not None


def expected_listing(state, glob, dirs_mode):
    """what `ls [-D] <object> [<path>]` has to print, from the help text of the command: without -D every logical
    path the glob matches (`*` crosses '/'); with -D the query is read like `ls` on a file system - the files and
    directories the glob names, and if that is exactly one directory (and no file), its direct children"""
    g = (glob or "*").lstrip("/") or "*"
    files = sorted(state)
    if not dirs_mode:
        m = _simple_glob(g, False)
        return sorted(p for p in files if m(p))
    dirs = sorted({"/".join(p.split("/")[:i]) for p in files for i in range(1, p.count("/") + 1)})
    m = _simple_glob(g, True)
    trailing = g.endswith("/")
    F = [p for p in files if m(p)]
    DM = [d for d in dirs if m(d + "/" if trailing else d)]
    if not F and len(DM) == 1 and g != "*":
        m2 = _simple_glob(g + ("*" if trailing else "/*"), True)
        return sorted([p for p in files if m2(p)] + [d + "/" for d in dirs if d not in DM and m2(d)])
    return sorted(F + [d + "/" for d in DM])


def content_listings(rng, rep, pair, fails, hist, ids, jobs):
    """`ls` of object contents: every rendering option and path query, on committed versions and on the staged
    version; names, the version each file is attributed to, digests and physical paths against the library's answer;
    the printed names also against the Lean model of the filter (ListView.listContents)"""
    pending = []
    for o in ids:
        for staged in (False, True):
            st = pair.live.ask(("staged %s" % hx(o)) if staged else ("ver %s -" % hx(o)))
            if not st.startswith("ok "):
                continue
            J = json.loads(st[3:])
            state = J["state"]
            paths = sorted(state)
            if not paths:
                continue
            dirs = sorted({"/".join(p.split("/")[:i]) for p in paths for i in range(1, p.count("/") + 1)})
            queries = [None, "*", rng.choice(paths), "missing-path", "*.txt", "?.*"]
            if dirs:
                d = rng.choice(dirs)
                queries += [d, d + "/", d + "/*", d[:1] + "*", "*/" + paths[0].split("/")[-1]]
            for q in rng.sample(queries, min(len(queries), 5)):
                D = rng.random() < 0.55
                opts = ["-t"] + (["-D"] if D else []) + (["-S"] if staged else [])
                cols = ["name"]
                if rng.random() < 0.5:
                    opts.append("-l"); cols = ["version", "updated", "name"]
                if rng.random() < 0.3:
                    opts.append("-p"); cols.append("physical")
                if rng.random() < 0.4:
                    opts.append("-d"); cols.append("digest")
                if rng.random() < 0.4:
                    opts += ["-s", rng.choice(["name", "version", "updated", "physical", "digest", "none"])]
                if rng.random() < 0.3:
                    opts.append("-r")
                argv = ["ls"] + opts + [o] + ([q] if q is not None else [])
                cli = pair.sb.run(argv)
                rep.evaluations += 1
                want = expected_listing(state, q, D)
                rows = [l.split("\t") for l in cli["out"].decode("utf-8", "replace").split("\n") if l.strip()]
                what = "`%s`" % " ".join(argv)
                rep.classes.add("lsc|%s|%s|rc%d" % (",".join(sorted(x for x in opts if x.startswith("-") and len(x) == 2)), "hit" if want else "empty", cli["rc"]))
                rep.count("content-listing:%s" % ("some" if want else "none"))
                if cli["rc"] != 0:
                    fails.append(dict(what="%s exits %d: %s" % (what, cli["rc"], cli["err"][-200:]), history=hist[-6:])); continue
                if any(len(r) != len(cols) for r in rows):
                    fails.append(dict(what="%s: a line does not have the %d columns the options ask for: %r" % (what, len(cols), rows[:2]), history=hist[-6:])); continue
                # cells are padded to the column width even with tab separation; the generated names do not end in blanks
                rows = [[c.rstrip(" ") for c in r] for r in rows]
                got = sorted(r[cols.index("name")] for r in rows)
                pending.append(("script-lscontents %d %s %s" % (1 if D else 0, hx(q) if q is not None else "-", " ".join(hx(p_) for p_ in paths)), got, what))
                if got != want:
                    fails.append(dict(what="%s prints %r, the object holds %r: expected %r" % (what, got[:8], paths[:8], want[:8]), history=hist[-6:])); continue
                for r in rows:
                    name = r[cols.index("name")]
                    if name.endswith("/") or name not in state:
                        continue
                    dg, cpath, upd, phys_path = state[name]
                    if "version" in cols and r[cols.index("version")].strip() != upd:
                        fails.append(dict(what="%s attributes %r to %s, the library to %s" % (what, name, r[cols.index("version")].strip(), upd), history=hist[-6:])); break
                    if "digest" in cols and r[cols.index("digest")].strip() != "%s:%s" % (J["alg"], dg):
                        fails.append(dict(what="%s shows digest %s for %r, the library %s:%s" % (what, r[cols.index("digest")][:30], name, J["alg"], dg[:16]), history=hist[-6:])); break
                    if "physical" in cols:
                        # several content files may carry the digest (which one is shown depends on hash order): the path
                        # shown must be a file inside the repository with exactly those bytes
                        pp = r[cols.index("physical")].strip()
                        full = pp if os.path.isabs(pp) else os.path.join(pair.sb.dir, pp)
                        inside = os.path.realpath(full).startswith(os.path.realpath(pair.sb.root) + "/") or os.path.realpath(full).startswith(os.path.realpath(pair.sb.staging) + "/")
                        if not inside or not os.path.isfile(full) or hashlib.new(J["alg"], open(full, "rb").read()).hexdigest() != dg:
                            fails.append(dict(what="%s shows physical path %s for %r: not a file in the repository with the listed digest" % (what, pp, name), history=hist[-6:])); break
    _model_listings(rep, pending, jobs, hist)


def _model_listings(rep, pending, jobs, hist):
    if not pending:
        return
    res = core.run_lines(core.drv_path(), [p[0] for p in pending])
    for (line, got, what), r in zip(pending, res):
        rep.count("lean-listing:" + ("ok" if r.startswith("ok") else r[:20]))
        if not r.startswith("ok") or r == "ok bad-glob":
            jobs.append(dict(kind="listing", what="%s: the model answers %s" % (what, r[:60]), history=hist[-4:])); continue
        model = sorted(unhx(x).decode("utf-8") for x in r.split(" ")[1:] if x)
        if model != got:
            jobs.append(dict(kind="listing", what="%s prints %r, the model of the filter yields %r" % (what, got[:8], model[:8]), history=hist[-4:]))


def _diff_lines(text):
    out = []
    for l in text.split("\n"):
        m = re.match(r"^(Added|Modified|Deleted|Renamed)\s+(.*?)\s*$", l)
        if m:
            out.append((m.group(1)[0], m.group(2)))
    return sorted(out)


def _lib_diff(ans):
    out = []
    for d in json.loads(ans[3:]):
        if d[0] == "R":
            out.append(("R", "%s -> %s" % (", ".join(d[1]), ", ".join(d[2]))))
        else:
            out.append((d[0], d[1]))
    return sorted(out)


def diff_renderings(rng, rep, pair, fails, hist, ids):
    """`diff`, `show` and `show -S`: one line per change, operation and path(s) as the library reports them"""
    for o in ids:
        hd = pair.live.ask("heads %s" % hx(o))
        m = re.search(r"main=v0*(\d+) staged=(\S+)", hd)
        if not m:
            continue
        head = int(m.group(1))
        cases = []
        if head >= 2:
            a, b = sorted(rng.sample(range(1, head + 1), 2))
            if rng.random() < 0.3:
                a, b = b, a
            cases.append((["diff", o, "v%d" % a, "v%d" % b], "diff %s v%d v%d" % (hx(o), a, b)))
        k = rng.randint(1, head)
        cases.append((["show", "-m", o, "v%d" % k], "diff %s - v%d" % (hx(o), k)))
        cases.append((["show", "-m", o], "diff %s - v%d" % (hx(o), head)))
        if m.group(2) != "-":
            cases.append((["show", "-S", "-m", o], "diffstaged %s" % hx(o)))
        for argv, line in cases:
            lib = pair.live.ask(line)
            cli = pair.sb.run(argv)
            rep.evaluations += 1
            rep.classes.add("diffr|%s|%s|rc%d" % (argv[0], "-S" if "-S" in argv else "", cli["rc"]))
            if lib.startswith("ok ") != (cli["rc"] == 0):
                fails.append(dict(what="`%s` exits %d, the library call %s" % (" ".join(argv), cli["rc"], "succeeds" if lib.startswith("ok") else "fails: " + lib[:60]), history=hist[-6:]))
                continue
            if not lib.startswith("ok "):
                continue
            got, want = _diff_lines(cli["out"].decode("utf-8", "replace")), _lib_diff(lib)
            rep.count("diff-rendering:%d" % min(len(want), 3))
            if got != want:
                fails.append(dict(what="`%s` prints %r, the library reports %r" % (" ".join(argv), got[:6], want[:6]), history=hist[-6:]))


DAMAGE = ["none", "stray-in-object", "delete-content", "stray-in-hierarchy", "empty-dir-in-hierarchy", "root-extra-spec", "corrupt-content"]


def damage(rng, pair, kind):
    """apply the same damage to both repositories; returns a description"""
    done = []
    for top in (os.path.join(pair.hdir, "root"), pair.sb.root):
        objs = sorted(d for d, _, fs in os.walk(top) if any(f.startswith("0=ocfl_object") for f in fs) and "rocfl-staging" not in d)
        r2 = random.Random(kind)          # same choice on both sides
        if kind == "stray-in-object" and objs:
            open(os.path.join(r2.choice(objs), "stray.txt"), "w").write("x")
        elif kind in ("delete-content", "corrupt-content") and objs:
            o = r2.choice(objs)
            cands = sorted(os.path.join(d, f) for d, _, fs in os.walk(o) for f in fs if re.search(r"/v\d+/[^/]+/", d + "/") and not f.startswith("inventory"))
            if cands:
                # deduplication may have kept differently named files: pick by content hash
                byhash = sorted(cands, key=lambda p: hashlib.sha256(open(p, "rb").read()).hexdigest())
                p = byhash[0]
                if kind == "delete-content":
                    os.unlink(p)
                else:
                    open(p, "ab").write(b"!")
        elif kind == "stray-in-hierarchy":
            d = os.path.join(top, "zz-stray-dir"); os.makedirs(d, exist_ok=True); open(os.path.join(d, "file.txt"), "w").write("x")
        elif kind == "empty-dir-in-hierarchy":
            os.makedirs(os.path.join(top, "zz-empty"), exist_ok=True)
        elif kind == "root-extra-spec":
            for f in os.listdir(top):
                if f.startswith("0=ocfl_"):
                    open(os.path.join(top, f), "w").write("not the declaration\n")
        done.append(kind)
    return kind


def validate_cases(rng, rep, pair, budget, fails, jobs, hist):
    dmg = [damage(rng, pair, k) for k in rng.sample(DAMAGE, rng.randint(0, 3))]
    lib_repo = pair.live.ask("validaterepo 1")
    if not lib_repo.startswith("ok "):
        return
    R = json.loads(lib_repo[3:])
    all_codes = sorted({c for o in R["objects"] for c in o[2]} | set(R["root"]) | set(R["hierarchy"]))
    ids = [o[0] for o in R["objects"] if o[0]]
    for _ in range(3):
        se = sorted(rng.sample(all_codes, rng.randint(0, len(all_codes)))) if all_codes and rng.random() < 0.7 else []
        nofix = rng.random() < 0.4
        level = rng.choice([None, "Error", "Warn", "Info"])
        a = ["validate"] + (["-n"] if nofix else []) + (["-l", level] if level else [])
        for c in se:
            a += ["-e", c]
        if rng.random() < 0.3:
            a += ["-w", "W004", "-w", "W007"]
        mode = rng.choice(["repo", "objects", "objects", "paths"]) if ids else "repo"
        if mode == "repo":
            lr = pair.live.ask("validaterepo %d" % (0 if nofix else 1))
            if not lr.startswith("ok "):
                continue
            J = json.loads(lr[3:])
            enc = lambda codes: ",".join(codes) if codes else "-"
            line = "script-vexit repo %s %s %s %s" % (enc(se), enc(J["root"]), enc(J["hierarchy"]), " ".join(enc(o[2]) for o in J["objects"]) + (" !" * J["failed"]))
            cli = pair.sb.run(a)
        elif mode == "paths":
            # -p: the arguments are object root paths; the library call is validate_object_at
            roots = [o[1] for o in R["objects"] if o[1]]
            chosen = rng.sample(roots, rng.randint(1, len(roots)))
            res = []
            for pth in chosen:
                lr = pair.live.ask("validateat %s %d" % (hx(pth), 0 if nofix else 1))
                res.append(",".join(json.loads(lr[3:])["errors"]) or "-" if lr.startswith("ok ") else "!")
            line = "script-vexit objects %s %s" % (",".join(se) if se else "-", " ".join(res))
            cli = pair.sb.run(a + ["-p"] + chosen)
        else:
            chosen = rng.sample(ids, rng.randint(1, len(ids))) + (["no-such-object"] if rng.random() < 0.3 else [])
            res = []
            for i in chosen:
                lr = pair.live.ask("validate %s %d" % (hx(i), 0 if nofix else 1))
                res.append(",".join(json.loads(lr[3:])["errors"]) or "-" if lr.startswith("ok ") else "!")
            line = "script-vexit objects %s %s" % (",".join(se) if se else "-", " ".join(res))
            cli = pair.sb.run(a + chosen)
        want = core.run_lines(core.drv_path(), [line.strip()])[0]
        rep.evaluations += 1
        rep.count("validate:%s:%s:rc%d" % (mode, "suppress" if se else "plain", cli["rc"]))
        rep.classes.add("validate|%s|%s|%s|rc%d" % (mode, "n" if nofix else "", "e" if se else "", cli["rc"]))
        if want != "ok %d" % cli["rc"]:
            jobs.append(dict(kind="exit", what="`%s` exits %d; the exit-status model on the library's results says %s" % (" ".join(a), cli["rc"], want),
                             request=line, damage=dmg, history=hist[-6:], stdout=cli["out"].decode("utf-8", "replace")[-600:]))


def run(rep, tier, seed, proof_broken=False):
    rng = random.Random(seed)
    budget = BUDGET["thorough" if (tier == "thorough" or proof_broken) else "quick"]
    t_end = time.time() + budget["seconds"]
    core.build_rocfl_bin()
    fails, jobs = [], []
    for h in range(budget["histories"]):
        if time.time() > t_end:
            break
        history(random.Random(rng.getrandbits(48)), rep, budget, fails, jobs)
    rep.disagreements = len(jobs)
    seen = set()
    for f in fails:
        key = re.sub(r"[0-9a-f]{8,}|\d+", "#", f["what"])[:60]
        if key in seen or len(seen) >= 3:
            continue
        seen.add(key)
        rep.violation(dict(kind="oracle-failure", **f))
    # a disagreement between the exit-status / translation model and the binary: the property itself
    # speaks about these, so the disagreeing invocation is the failing input
    for j in jobs:
        key = j["kind"] + re.sub(r"[0-9a-f]{8,}|\d+", "#", j["what"])[:50]
        if key in seen or len(seen) >= 5:
            continue
        seen.add(key)
        rep.violation(dict(j, kind="model-vs-binary:" + j["kind"], correspondence=CORRESPONDENCE))


def replay(rep, payload):
    print(json.dumps(payload, indent=1)[:3000])
