"""C08 — staged changes and other objects never touch committed data."""
from vlib import histprop, oracles, hist
from vlib.props import _hist_common as hc
from vlib.props._hist_common import TRUSTED_BASE, ASSUMPTIONS, CORRESPONDENCE, BUDGET

RULE = ("operation histories (new/cp/mv external+internal/rm/reset/commit/upgrade/purge over 1-2 objects, all layouts, both staging "
        "placements, three objects) generated interactively against the implementation so that sources, globs and destinations hit existing paths; "
        "distinct non-trivial = distinct (operation, outcome class) pairs observed")


def make_gen(rng, budget, live, case):
    return hc.make_gen(rng, budget, live, case, n_objects=3)


def make_oracles(contents, gen):
    return [oracles.Isolation(gen.staging == 'ext' if gen is not None and hasattr(gen, 'staging') else False)]


def corpus_specs():
    return hc.corpus_specs("C08")


def known_match(f, sc):
    return None


def run(rep, tier, seed, proof_broken=False):
    import vlib.props.C08 as me
    histprop.run(rep, me, tier, seed, proof_broken)


def replay(rep, payload):
    import vlib.props.C08 as me
    histprop.replay(rep, me, payload)
