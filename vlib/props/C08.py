"""C08 — staged changes and other objects never touch committed data."""
from vlib import histprop, oracles, hist
from vlib.props import _hist_common as hc
from vlib.props._hist_common import TRUSTED_BASE, ASSUMPTIONS, CORRESPONDENCE
BUDGET = {"quick": dict(hc.BUDGET["quick"], histories=350), "thorough": hc.BUDGET["thorough"]}

RULE = ("operation histories (new/cp/mv external+internal/rm/reset/commit/upgrade/purge over 1-2 objects, all layouts, both staging "
        "placements, three objects) generated interactively against the implementation so that sources, globs and destinations hit existing paths; "
        "distinct non-trivial = distinct (operation, outcome class) pairs observed")


def make_gen(rng, budget, live, case):
    return hc.make_gen(rng, budget, live, case, n_objects=3)


def make_oracles(contents, gen):
    return [oracles.Isolation(gen.staging == 'ext' if gen is not None and hasattr(gen, 'staging') else False)]


def corpus_specs():
    return hc.corpus_specs("C08")


def known_match(f, sc):
    return None


class _Phys:
    """second phase: the real binary on ids that are path prefixes of one another (direct layout) and ordinary ids
    (hashed layouts); every operation judged for 'no other object changes, purge removes exactly the named object'"""
    BUDGET = {"quick": dict(histories=40, ops=12, seconds=60), "thorough": dict(histories=400, ops=22, seconds=600)}
    CORRESPONDENCE = "n/a (oracle-only phase)"
    HISTORY_KW = dict(layouts=["0002-flat-direct-storage-layout", "0002-flat-direct-storage-layout", "0004-hashed-n-tuple-storage-layout",
                               "0006-flat-omit-prefix-storage-layout", "0007-n-tuple-omit-prefix-storage-layout"],
                      # ids that are path prefixes of one another (direct layout) and ids that the omit-prefix layouts map to one path
                      ids=[["coll/2024/rep1", "coll/2024/rep2", "coll", "coll/2024"], ["a", "a/b/c", "a/b", "z"], ["x1", "x2", "x3"], ["deep/er/id", "deep", "other"],
                           ["a:obj1", "b:obj1", "a:obj2", "c:obj1"], ["ns:one", "other:one", "ns:two"],
                           # ids that run through the inner directories of another object
                           ["p", "p/v1/content", "p/v1/content/x", "q"], ["obj", "obj/v1", "obj/v1/content/z/w", "obj/extensions/e"]],
                      weights=[30, 3, 6, 3, 4, 2, 1, 38, 12, 1], trace=False)

    @staticmethod
    def make_oracles():
        from vlib import physprop
        return [physprop.OthersUntouched()]


def run(rep, tier, seed, proof_broken=False):
    import vlib.props.C08 as me
    histprop.run(rep, me, tier, seed, proof_broken)
    from vlib import physprop
    physprop.run(rep, _Phys, tier, seed + 8, proof_broken)


def replay(rep, payload):
    import vlib.props.C08 as me
    histprop.replay(rep, me, payload)
