"""C08 — staged changes and other objects never touch committed data."""
from vlib import histprop, oracles, hist
from vlib.props import _hist_common as hc
from vlib.props._hist_common import TRUSTED_BASE, ASSUMPTIONS, CORRESPONDENCE
BUDGET = {"quick": dict(hc.BUDGET["quick"], histories=350), "thorough": hc.BUDGET["thorough"]}

RULE = ("operation histories (new/cp/mv external+internal/rm/reset/commit/upgrade/purge over 1-2 objects, all layouts, both staging "
        "placements, three objects) generated interactively against the implementation so that sources, globs and destinations hit existing paths; "
        "distinct non-trivial = distinct (operation, outcome class) pairs observed")


def make_gen(rng, budget, live, case):
    return hc.make_gen(rng, budget, live, case, n_objects=3)


def make_oracles(contents, gen):
    return [oracles.Isolation(gen.staging == 'ext' if gen is not None and hasattr(gen, 'staging') else False)]


def corpus_specs():
    return hc.corpus_specs("C08")


def known_match(f, sc):
    return None


class _Phys:
    """second phase: the real binary on ids that are path prefixes of one another (direct layout) and ordinary ids
    (hashed layouts); every operation judged for 'no other object changes, purge removes exactly the named object'"""
    BUDGET = {"quick": dict(histories=60, ops=12, seconds=80), "thorough": dict(histories=400, ops=22, seconds=600)}
    CORRESPONDENCE = "n/a (oracle-only phase)"
    HISTORY_KW = dict(layouts=["0002-flat-direct-storage-layout", "0002-flat-direct-storage-layout", "0004-hashed-n-tuple-storage-layout",
                               "0006-flat-omit-prefix-storage-layout", "0007-n-tuple-omit-prefix-storage-layout"],
                      # ids that are path prefixes of one another (direct layout) and ids that the omit-prefix layouts map to one path
                      ids=[["coll/2024/rep1", "coll/2024/rep2", "coll", "coll/2024"], ["a", "a/b/c", "a/b", "z"], ["x1", "x2", "x3"], ["deep/er/id", "deep", "other"],
                           ["a:obj1", "b:obj1", "a:obj2", "c:obj1"], ["ns:one", "other:one", "ns:two"],
                           # ids that run through the inner directories of another object
                           ["p", "p/v1/content", "p/v1/content/x", "q"], ["obj", "obj/v1", "obj/v1/content/z/w", "obj/extensions/e"],
                           ["p", "p/v1/content", "p/v1/content/x", "q"], ["obj", "obj/v1/content", "obj/v1", "other"]],
                      weights=[30, 3, 6, 3, 4, 2, 1, 38, 12, 1], trace=False)

    @staticmethod
    def make_oracles():
        from vlib import physprop
        return [physprop.OthersUntouched()]


def init_layout(sb, layout):
    """`rocfl init` with the configuration the omit-prefix layouts need (delimiter ':')"""
    import json, os
    a = ["init", "-l", layout]
    if layout.startswith(("0006", "0007")):
        cfg = {"extensionName": layout, "delimiter": ":"}
        if layout.startswith("0007"):
            cfg.update(tupleSize=2, numberOfTuples=2)
        p = os.path.join(sb.dir, "layout-config.json")
        json.dump(cfg, open(p, "w"))
        a += ["-c", p]
    r = sb.run(a)
    os.path.exists(os.path.join(sb.dir, "layout-config.json")) and os.unlink(os.path.join(sb.dir, "layout-config.json"))
    return r


def inner_ids_phase(rep, tier, seed):
    """ids that map into the directories of a committed object (its version, content and extensions directories, one or
    several levels down): creating, committing and purging them leaves that object byte for byte as it was"""
    import os, random, re
    from vlib import phys, faultprop
    rng = random.Random(seed + 15)
    fails = []
    for i in range(3 if tier != "thorough" else 24):
        sb = phys.Sandbox(ext_staging=(i % 2 == 1))
        try:
            for n, c in {"a.txt": b"alpha", "d/b.txt": b"beta"}.items():
                fp = os.path.join(sb.src, n)
                os.makedirs(os.path.dirname(fp), exist_ok=True)
                open(fp, "wb").write(c)
            layout, pre = rng.choice([("0002-flat-direct-storage-layout", ""), ("0006-flat-omit-prefix-storage-layout", "urn:a:")])
            init_layout(sb, layout)
            # the committed object sits one, two or three levels below the storage root
            base = rng.choice(["p", "coll/item", "a/b/c"])
            outer = pre + base
            sb.run(["new", outer]); sb.run(["cp", "-r", outer, os.path.join(sb.src, "a.txt"), os.path.join(sb.src, "d"), "--", "/"])
            sb.run(["commit", "-c", faultprop.TS, outer])
            root_p = os.path.join(sb.root, base)
            if not os.path.isdir(root_p):
                continue
            before = phys.tree(root_p)
            inner = [pre + base + "/" + x for x in rng.sample(["v1/content", "v1/content/x", "v1/content/d", "v1/content/d/deeper/still", "v1", "extensions/e", "v1/content/a.txt/z", "part1", "part1/deeper"], 5)]
            for oid in inner:
                for args in (["new", oid], ["cp", oid, os.path.join(sb.src, "a.txt"), "--", "/"], ["commit", "-c", faultprop.TS, oid], ["purge", "-f", oid]):
                    r = sb.run(args)
                    rep.evaluations += 1
                    rep.classes.add("inner|%s|%s|rc%d" % (layout[:4], args[0], min(r["rc"], 3)))
                    after = phys.tree(root_p)
                    if after != before:
                        fails.append("`%s %s` (exit %d) changed the committed object `%s`: %s" % (args[0], oid, r["rc"], outer, sorted(set(before.items()) ^ set(after.items()))[:3]))
                        before = after
        finally:
            sb.close()
    # ids that the omit-prefix layouts map to one and the same object root: operations on the id that is not stored
    # there leave the stored object alone
    for i, layout in enumerate(["0006-flat-omit-prefix-storage-layout", "0007-n-tuple-omit-prefix-storage-layout"] * (1 if tier != "thorough" else 4)):
        sb = phys.Sandbox(ext_staging=(i % 2 == 1))
        try:
            open(os.path.join(sb.src, "a.txt"), "wb").write(b"alpha")
            init_layout(sb, layout)
            sb.run(["new", "urn:a:obj1"]); sb.run(["cp", "urn:a:obj1", os.path.join(sb.src, "a.txt"), "--", "/"])
            r0 = sb.run(["commit", "-c", faultprop.TS, "urn:a:obj1"])
            if r0["rc"] != 0:
                continue
            before = phys.tree(sb.root, exclude=("extensions/rocfl-staging",))
            for args in (["purge", "-f", "urn:b:obj1"], ["new", "urn:b:obj1"], ["cp", "urn:b:obj1", os.path.join(sb.src, "a.txt"), "--", "/"],
                         ["commit", "-c", faultprop.TS, "urn:b:obj1"], ["purge", "-f", "urn:b:obj1"]):
                r = sb.run(args)
                rep.evaluations += 1
                rep.classes.add("collide|%s|%s|rc%d" % (layout[:4], args[0], min(r["rc"], 3)))
                after = phys.tree(sb.root, exclude=("extensions/rocfl-staging",))
                if after != before:
                    fails.append("`%s urn:b:obj1` (exit %d, layout %s) changed the repository that holds `urn:a:obj1` at the same object root: %s" % (args[0], r["rc"], layout[:4], sorted(set(before.items()) ^ set(after.items()))[:3]))
                    before = after
        finally:
            sb.close()
    seen = set()
    for f in fails:
        key = f.split("`")[1].split(" ")[0]
        if key in seen or len(seen) >= 3:
            continue
        seen.add(key)
        rep.violation(dict(kind="oracle-failure", oracle="others-untouched (ids inside another object)", what=f))


def run(rep, tier, seed, proof_broken=False):
    import vlib.props.C08 as me
    histprop.run(rep, me, tier, seed, proof_broken)
    from vlib import physprop
    physprop.run(rep, _Phys, tier, seed + 8, proof_broken)
    inner_ids_phase(rep, tier, seed)


def replay(rep, payload):
    import vlib.props.C08 as me
    histprop.replay(rep, me, payload)
