"""C14 — versions advance one at a time and a stale commit is refused."""
from vlib import histprop, oracles, hist
from vlib.props import _hist_common as hc
from vlib.props._hist_common import TRUSTED_BASE, ASSUMPTIONS, CORRESPONDENCE, BUDGET

RULE = ("operation histories (new/cp/mv external+internal/rm/reset/commit/upgrade/purge over 1-2 objects, all layouts, both staging "
        "placements, two clients with separate staging roots on one storage root, padding widths 0-5 up to the width's maximum) generated interactively against the implementation so that sources, globs and destinations hit existing paths; "
        "distinct non-trivial = distinct (operation, outcome class) pairs observed")


def make_gen(rng, budget, live, case):
    return hc.make_gen(rng, budget, live, case, two_clients=(rng.random() < 0.6))


def make_oracles(contents, gen):
    return [oracles.VersionAdvance()]


def corpus_specs():
    return hc.corpus_specs("C14")


def known_match(f, sc):
    return None


def run(rep, tier, seed, proof_broken=False):
    import vlib.props.C14 as me
    histprop.run(rep, me, tier, seed, proof_broken)


def replay(rep, payload):
    import vlib.props.C14 as me
    histprop.replay(rep, me, payload)
