"""C15 — an S3 repository behaves exactly like a filesystem repository."""
import json, os, random, re, time
from vlib import core, s3prop
from vlib.core import hx, unhx

TRUSTED_BASE = ["Lean 4.33 kernel", "axioms: propext, Classical.choice, Quot.sound",
                "model lean/RocflModel/S3.lean (key arithmetic, ListObjectsV2 paging loop, upload splitting) tied to the code by comparing keys, the number of listing requests and upload body sizes observed at the S3 stand-in with the model's",
                "the S3 stand-in vlib/s3mock.py: my reading of the S3 API reference (path-style, ListObjectsV2 with delimiter / continuation / server-side page size, multipart with the 5 MiB minimum part size), reached over TLS with a throw-away CA",
                "rusoto's request signing and XML (exercised, not modelled); Rust harness built with the s3 feature; vlib/s3prop.py (history generator, normalisation, tree comparison)"]
ASSUMPTIONS = ["histories avoid two sources landing on one target (the outcome then depends on hash-map order inside the library, on either back end)",
               "answers are compared without storage locations, without the wall-clock time of staging, and without the choice among several content paths of one digest",
               "the filesystem repository keeps its staging area under extensions/rocfl-staging; that directory is excluded from the tree comparison and from `info`"]
CORRESPONDENCE = "S3.keyOf/relativize/listAll/chunks (lean/RocflModel/S3.lean) vs the requests rocfl's S3 store makes (src/ocfl/store/s3.rs)"
BUDGET = {"quick": dict(histories=8, ops=12, seconds=170), "thorough": dict(histories=150, ops=28, seconds=1700)}
RULE = ("operation histories (new/cp/mv/rm/reset/commit/upgrade/purge + ls/cat/log/diff/info/validate) sent line by line to a filesystem repository and to an S3 repository "
        "(bucket root / one-level / nested / slash-terminated prefix; page sizes 1,2,3,7,1000; with and without layout; files on both sides of 5 MiB), every answer and the final key set compared; "
        "distinct non-trivial = distinct (operation, outcome, prefix kind, page size)")


def run(rep, tier, seed, proof_broken=False):
    rng = random.Random(seed)
    budget = BUDGET["thorough" if (tier == "thorough" or proof_broken) else "quick"]
    t_end = time.time() + budget["seconds"]
    fails, dis = [], []
    for h in range(budget["histories"]):
        if time.time() > t_end:
            break
        prefix = [None, "pre", "pre/fix/deep", "pre/", "ünï/p"][h % 5] if h < 5 else rng.choice([None, "pre", "pre/fix/deep", "pre/", "ünï/p"])
        ps = [1, 2, 3, 7, 1000][(h // 2) % 5] if h < 10 else rng.choice([1, 2, 3, 7, 1000])
        layout = s3prop.LAYOUTS[2] if h % 4 == 2 else rng.choice(s3prop.LAYOUTS)      # every fourth history: direct layout with path-like ids
        spec = rng.choice(["1.0", "1.1"])
        big = (h % 4 == 1)
        d = s3prop.Dual(rng, prefix, ps, layout, spec)
        pk = "root" if not prefix else ("slash" if prefix.endswith("/") else ("nested" if "/" in prefix else "one"))
        try:
            rep.evaluations += 1
            if not d.init_ok:
                fails.append(dict(what="init disagrees", detail=d.diffs[:1], prefix=prefix)); continue
            g = s3prop.LineGen(rng, d, layout, big=big, path_ids=(True if h % 4 == 2 else None))
            g.setup()
            lines = g.warmup()
            for i in range(len(lines) + budget["ops"]):
                line = lines[i] if i < len(lines) else g.next()
                a, b = d.both(line)
                rep.evaluations += 1
                rep.classes.add("%s|%s|%s|ps%d" % (line.split(" ")[0], a.split(" ")[0], pk, ps))
                rep.count("%s:%s" % (line.split(" ")[0], a.split(" ")[0]))
            # upload sizes seen by the service vs the model's split
            for e in d.server.state.take_log():
                pass
            d.server.state.take_log()
            for line in g.observations():
                a, b = d.both(line)
                rep.evaluations += 1
                rep.classes.add("%s|%s|%s|ps%d" % (line.split(" ")[0], a.split(" ")[0], pk, ps))
            log = d.server.state.take_log()
            probs = d.compare_trees()
            for x in list(d.diffs):
                # C09-K1 seen through the two back ends: after a commit that failed once the duplicates had been
                # removed, which duplicate survived depends on hash order, so removing a path breaks the staged
                # object on one side only
                k = known_c09k1(x, d.hist)
                if k:
                    rep.known("C09-K1", "`%s`: one back end answers '%s' after a failed commit of that object (which duplicate the failed commit kept differs by hash order)" % (x["line"], "Digest ... not found in manifest"))
                    d.diffs.remove(x)
            for x in d.diffs[:3]:
                fails.append(dict(what="`%s` answers differently on S3 (prefix %r, page size %d, layout %s)" % (x["line"], prefix, ps, layout[0]), fs=x["fs"], s3=x["s3"], history=d.hist[-25:], full_history=list(d.hist)))
            for p in probs[:2]:
                fails.append(dict(what=p + " (prefix %r, page size %d)" % (prefix, ps), history=d.hist[-25:], full_history=list(d.hist)))
            # T: listing requests of the read-only phase vs the model's page count; keys vs keyOf
            dis += listing_check(rep, d, log, ps)
            dis += key_check(rep, d, prefix)
        finally:
            d.close()
    dis += chunk_check(rep, rng)
    rep.disagreements = len(dis)
    seen = set()
    for f in fails:
        key = re.sub(r"[0-9a-f]{8,}|\d+", "#", f["what"])[:70]
        if key in seen or len(seen) >= 4:
            continue
        seen.add(key)
        rep.violation(dict(kind="oracle-failure", **f))
    if dis and not fails:
        rep.violation(dict(kind="correspondence-broken", correspondence=CORRESPONDENCE, what=dis[0], disagreeing=len(dis)), no_input=True)


# the harness cuts long error messages: the beginning of "Object … is corrupt: Digest … not found in manifest" is what is left
NOT_IN_MANIFEST = " is corrupt: Digest ".encode().hex()


def known_c09k1(x, hist):
    """the differing answer is 'Digest … not found in manifest' on one side for an object whose commit failed
    earlier in this history with IllegalState / NotFound (i.e. after the duplicates were removed)"""
    if (NOT_IN_MANIFEST in x["fs"]) == (NOT_IN_MANIFEST in x["s3"]):
        return False
    m = re.match(r"\w+ ('(?:[^'\\]|\\.)*')", x["line"])
    if not m:
        return False
    oid = m.group(1)
    for h in hist:
        if (h.startswith("commit %s " % oid) or h.startswith("upgrade %s " % oid)) and ("-> fs:err:illegalState" in h or "-> fs:err:notFound" in h):
            return True
    return False


def listing_check(rep, d, log, ps):
    """consecutive LIST requests for one prefix are the pages of one `list_prefix` call"""
    out, jobs = [], []
    keys = sorted(d.server.state.dump(d.bucket), key=lambda k: k.encode("utf-8"))
    i = 0
    groups = []
    while i < len(log):
        if log[i][0] == "LIST":
            j = i
            while j + 1 < len(log) and log[j + 1][0] == "LIST" and log[j + 1][2] == log[i][2]:
                j += 1
            groups.append((log[i][2], j - i + 1))
            i = j + 1
        else:
            i += 1
    for what, n in groups[:60]:
        m = re.match(r"prefix=(.*) delim=(.*)$", what)
        pfx, delim = m.group(1), m.group(2)
        jobs.append(("script-s3pages %d %s %d %s" % (ps, hx(pfx), 1 if delim else 0, " ".join(hx(k) for k in keys)), n, what))
    if jobs:
        res = core.run_lines(core.drv_path(), [j[0] for j in jobs])
        for (line, n, what), got in zip(jobs, res):
            rep.count("listing-compared")
            m = re.match(r"ok requests=(\d+)", got)
            # identical consecutive listings (two calls for one prefix) show up as a multiple
            if not m or n % int(m.group(1)) != 0:
                out.append(dict(listing=what, observed_requests=n, model=got[:80], page_size=ps))
    return out


def key_check(rep, d, prefix):
    """every key in the bucket is keyOf(prefix, relative path) for the file at that relative path in the FS repository"""
    out = []
    keys, outside = d.key_tree()
    jobs = [("script-s3key %s %s" % (hx(prefix) if prefix else "-", hx(rel)), rel) for rel in sorted(keys)[:40]]
    if jobs:
        res = core.run_lines(core.drv_path(), [j[0] for j in jobs])
        bucket = d.server.state.dump(d.bucket)
        for (line, rel), got in zip(jobs, res):
            rep.count("key-compared")
            t = got.split(" ")
            if len(t) != 3 or unhx(t[1]).decode("utf-8") not in bucket or t[2] == "panic" or unhx(t[2]).decode("utf-8") != rel:
                out.append(dict(relative=rel, model=got, prefix=prefix))
    return out


def chunk_check(rep, rng):
    """upload body sizes for files around the part size"""
    out = []
    d = s3prop.Dual(rng, "mp", 1000, s3prop.LAYOUTS[2], "1.1")
    try:
        sizes = [5 * 1024 * 1024 - 1, 5 * 1024 * 1024, 5 * 1024 * 1024 + 1, 10 * 1024 * 1024, 10 * 1024 * 1024 + 5, 3]
        d.s3.ask("new %s sha256 %s 0 -" % (hx("o"), hx("content")))
        for i, n in enumerate(sizes):
            d.s3.ask("mkfile %s gen:%d:%d" % (hx("f%d" % i), n, i + 1))
            d.s3.ask("cpx %s 0 %s %s" % (hx("o"), hx("/"), hx("f%d" % i)))
        d.server.state.take_log()
        r = d.s3.ask("commit %s - %s - %s %s 0" % (hx("o"), hx("Me"), hx("m"), s3prop.TS))
        log = d.server.state.take_log()
        res = core.run_lines(core.drv_path(), ["script-s3chunks %d" % n for n in sizes])
        for i, (n, got) in enumerate(zip(sizes, res)):
            name = "/f%d" % i
            parts = [e[4] for e in log if e[0] == "UPLOAD_PART" and e[2].endswith(name)]
            puts = [e[4] for e in log if e[0] == "PUT" and e[2].endswith(name)]
            if puts:
                seen = "single %d" % puts[0]
            else:
                full = [p for p in parts if p == 5 * 1024 * 1024]
                rest = [p for p in parts if p != 5 * 1024 * 1024]
                seen = "multipart %dx%d" % (len(full), 5 * 1024 * 1024) + ("+%d" % rest[0] if rest else "")
                if len(rest) > 1 or (rest and parts[-1] != rest[0]):
                    seen += " (short part not last)"
            rep.count("upload-compared")
            rep.evaluations += 1
            rep.classes.add("upload|" + seen.split(" ")[0] + "|" + str(n))
            if got != "ok " + seen or not r.startswith("ok"):
                out.append(dict(file_size=n, observed=seen, model=got, commit=r[:80]))
    finally:
        d.close()
    return out


def replay(rep, payload):
    print(json.dumps(payload, indent=1)[:3000])
