"""C17 — validate always terminates with a verdict, whatever is on disk."""
import subprocess
import hashlib, json, os, random, resource, select, shutil, subprocess, time
from vlib import core, valprop, histprop
from vlib.core import hx, unhx

TRUSTED_BASE = ["Lean 4.33 kernel", "axioms: propext, Classical.choice, Quot.sound",
                "model lean/RocflModel/ValidateNums.lean (the version-number check with a work counter) tied to validate/serde.rs by comparing the number of E010 results on generated version-key sets",
                "Rust harness (validate_object_at under catch_unwind, wall-clock and address-space limits)", "Python mutation generators"]
ASSUMPTIONS = ["time and memory are judged through proxies: wall clock per object (limit 10 s for inputs <= 2 MiB), number of results, RLIMIT_AS 4 GiB on the harness process",
               "only the version-number loop is modelled with a cost counter; every other loop of the validator iterates over parsed input or directory listings and is exercised by the mutation run"]
CORRESPONDENCE = "ValidateNums.run (lean/RocflModel/ValidateNums.lean) vs validate_version_nums (src/ocfl/validate/serde.rs) via the E010 count"
BUDGET = {"quick": dict(mutants=1500, vsets=300, seconds=170), "thorough": dict(mutants=30000, vsets=20000, seconds=1700)}
RULE = ("single-edit and multi-edit mutants of inventories written by rocfl (types, absent keys, absurd version numbers, ids, paths, digests, dates, deep nesting, "
        "duplicate keys), raw byte mutations, sidecar and declaration garbage, odd directory structures (files for directories, symlink loops, FIFOs); every mutant "
        "validated in-process with and without fixity; distinct non-trivial = distinct (mutation kind, outcome class, error-code set)")


class Guarded:
    """harness with a wall-clock limit per request and an address-space limit"""

    def __init__(self):
        self.hbin = core.build_harness()
        self.start()

    def start(self):
        import tempfile
        self.base = tempfile.mkdtemp(prefix="rocfl-verif-h.", dir="/dev/shm" if os.path.isdir("/dev/shm") else None)
        env = dict(os.environ, VERIF_SCRATCH=self.base)

        def lim():
            resource.setrlimit(resource.RLIMIT_AS, (4 << 30, 4 << 30))
        self.p = subprocess.Popen([self.hbin], stdin=subprocess.PIPE, stdout=subprocess.PIPE, stderr=subprocess.DEVNULL, env=env, preexec_fn=lim)
        assert self.ask("reset")[0] == "ok"
        assert self.ask("init 0002-flat-direct-storage-layout - 1.1 default")[0] == "ok"
        self.root = os.path.join(self.base, "r1", "root")

    def ask(self, line, timeout=10.0):
        """-> (response | 'TIMEOUT' | 'ABORT', seconds)"""
        t0 = time.time()
        try:
            self.p.stdin.write((line + "\n").encode())
            self.p.stdin.flush()
        except BrokenPipeError:
            return "ABORT", 0.0
        buf = b""
        while True:
            left = timeout - (time.time() - t0)
            if left <= 0:
                self.p.kill()
                return "TIMEOUT", time.time() - t0
            r, _, _ = select.select([self.p.stdout], [], [], left)
            if not r:
                continue
            chunk = os.read(self.p.stdout.fileno(), 1 << 16)
            if not chunk:
                return "ABORT", time.time() - t0
            buf += chunk
            if buf.endswith(b"\n"):
                return buf.decode("utf8", "replace").rstrip("\n"), time.time() - t0

    def restart(self):
        try:
            self.p.kill()
        except Exception:
            pass
        shutil.rmtree(self.base, ignore_errors=True)
        self.start()

    def close(self):
        try:
            self.p.stdin.close()
            self.p.wait(timeout=10)
        except Exception:
            self.p.kill()
        shutil.rmtree(self.base, ignore_errors=True)


VERS = ["v0", "v", "v00", "v01", "v4294967295", "v4294967296", "v99999999999999999999", "vv1", "1", "v-1", "V1", "v30000000", "v1.0", "v 1", "", "v٣"]
STR = ["", " ", "a" * 5000, "a\"b", "\u0000", "../x", "/abs", "a//b", ".", "..", "a/./b", "é🙂"]
# strings that exercise the URI parser behind the id (W005) and user address (W009) checks
URIS = ["0ailto:me@example.org", "1:", ":", ":x", "a b:c", "%zz:", "http://[::1", "//", "?#", "http://a b/", "urn:", "a:b:c", "http://[v1.x]/", "\u00e9:x",
        "mailto:", "x://%", "http://h:99999999999/", "-:x", "+a:x", "a+.-:x", "http://@/", "//[", "a:/\\", "#", "?", "http://a/%"]


def weird(rng):
    return rng.choice([None, 0, -1, 1.5, True, [], {}, [[]], {"a": {}}, "", "x", 10 ** 30] + STR)


def mutate_inventory(inv, rng):
    """returns (description, new JSON value or raw bytes)"""
    inv = json.loads(json.dumps(inv))
    k = rng.choice(["id", "type", "alg", "head", "verkey", "verkeys", "state", "manifest", "created", "user", "message", "fixity", "cdir",
                    "delkey", "unknown", "nest", "dupkey", "raw", "trunc", "empty", "big", "notjson", "manyver", "padgap", "padgap"])
    vs = list(inv["versions"])
    if k == "id":
        inv["id"] = rng.choice(URIS) if rng.random() < 0.5 else weird(rng)
    elif k == "type":
        inv["type"] = rng.choice(["https://ocfl.io/2.0/spec/#inventory", "x", None, 3])
    elif k == "alg":
        inv["digestAlgorithm"] = rng.choice(["md5", "sha1", "blake2b-512", "bogus", 5, None, "SHA512"])
    elif k == "head":
        inv["head"] = rng.choice(VERS + [None, 1, [], vs[0]])
    elif k == "verkey":
        old = rng.choice(vs)
        new = rng.choice(VERS)
        inv["versions"][new] = inv["versions"].pop(old)
        if rng.random() < 0.5:
            inv["head"] = new
    elif k == "verkeys":
        for v in vs:
            inv["versions"][rng.choice(VERS) + str(rng.randint(0, 9))] = inv["versions"].pop(v)
    elif k == "padgap":
        # zero-padded version names with gaps, up to and beyond the largest number the padding allows
        w = rng.choice([2, 3, 4, 5])
        lim = 10 ** (w - 1) - 1
        blk = inv["versions"][vs[-1]]
        nums = sorted(set([1, rng.randint(2, max(2, lim)), max(1, lim - rng.choice([0, 1, 49, 50, 150])), lim, lim + 1, lim + rng.choice([2, 50, 99, 101])]))
        nums = [n for n in nums if rng.random() < 0.8] or [1, lim + 1]
        inv["versions"] = {"v" + str(n).zfill(w): blk for n in nums}
        inv["head"] = "v" + str(rng.choice(nums)).zfill(w)
    elif k == "manyver":
        blk = inv["versions"][vs[-1]]
        for i in range(rng.choice([50, 400])):
            inv["versions"]["v%d" % (i * rng.choice([1, 2, 1000]) + 10)] = blk
    elif k == "state":
        v = rng.choice(vs)
        inv["versions"][v]["state"] = rng.choice([weird(rng), {"abc": ["x"]}, {d: weird(rng) for d in list(inv["manifest"])[:1]},
                                                 {d: [rng.choice(STR)] for d in list(inv["manifest"])[:2]}])
    elif k == "manifest":
        m = inv["manifest"]
        choice = rng.randint(0, 5)
        if choice == 0:
            inv["manifest"] = weird(rng)
        elif choice == 1 and m:
            d = rng.choice(list(m)); m[d.upper()] = m.pop(d)
        elif choice == 2 and m:
            d = rng.choice(list(m)); m[d[:-1]] = m.pop(d)
        elif choice == 3 and m:
            d = rng.choice(list(m)); m[d] = [rng.choice(STR + ["v1/content/../x", "v9/content/a", "v1", "content/a"])]
        elif choice == 4 and m:
            d = rng.choice(list(m)); m[d] = weird(rng)
        else:
            for i in range(3000):
                m[hashlib.sha512(str(i).encode()).hexdigest()] = ["v1/content/gen/%d" % i]
    elif k == "created":
        inv["versions"][rng.choice(vs)]["created"] = rng.choice(["yesterday", "2020-01-01", "2020-01-01T00:00:00", 5, None, "9999-99-99T99:99:99Z"])
    elif k == "user":
        inv["versions"][rng.choice(vs)]["user"] = rng.choice([weird(rng), {"name": weird(rng)}, {"address": "x"}, {"name": "n", "address": weird(rng)},
                                                              {"name": "n", "address": rng.choice(URIS)}, {"name": "n", "address": rng.choice(URIS)}])
    elif k == "message":
        inv["versions"][rng.choice(vs)]["message"] = weird(rng)
    elif k == "fixity":
        inv["fixity"] = rng.choice([weird(rng), {"md5": weird(rng)}, {"md5": {"zz": ["v1/content/a"]}}, {"bogus": {"00": ["x"]}},
                                    {"md5": {"d41d8cd98f00b204e9800998ecf8427e": [rng.choice(STR)]}}, {"blake2b-512": {"00": [1]}}])
    elif k == "cdir":
        inv["contentDirectory"] = rng.choice(["", ".", "..", "a/b", "x" * 300, 5, None])
    elif k == "delkey":
        tgt = rng.choice([inv, inv["versions"][rng.choice(vs)]])
        if tgt:
            tgt.pop(rng.choice(list(tgt)))
    elif k == "unknown":
        inv[rng.choice(["extra", "Id", ""])] = weird(rng)
    elif k == "nest":
        depth = rng.choice([50, 200, 5000])
        return k, (b'{"id":' + b"[" * depth + b"]" * depth + b"}")
    elif k == "dupkey":
        raw = json.dumps(inv)
        return k, raw.replace('{"id"', '{"id": "dup", "id"', 1).encode() if raw.startswith('{"id"') else (raw[:-1] + ', "head": "v1"}').encode()
    elif k == "raw":
        b = bytearray(json.dumps(inv).encode())
        for _ in range(rng.choice([1, 1, 3, 20])):
            b[rng.randrange(len(b))] = rng.randrange(256)
        return k, bytes(b)
    elif k == "trunc":
        b = json.dumps(inv).encode()
        return k, b[: rng.randrange(len(b))]
    elif k == "empty":
        return k, rng.choice([b"", b" ", b"null", b"[]", b"\xef\xbb\xbf{}", b"{}"])
    elif k == "big":
        return k, b'{"id": "' + b"a" * rng.choice([100000, 1500000]) + b'"}'
    elif k == "notjson":
        return k, rng.choice([b"\x00" * 100, b"\xff\xfe\x00", os.urandom(200), b"{" * 1000])
    return k, inv


def mutate_structure(obj, rng):
    """odd directory structures; returns description"""
    k = rng.choice(["inv-dir", "ver-file", "content-file", "symloop", "fifo-content", "fifo-inv", "sidecar", "namaste", "deep", "manyfiles", "symlink-root-inv",
                    "inv-transplant", "inv-transplant", "inv-mutant-in-version", "inv-other-algorithm", "inv-other-algorithm"])
    inv = valprop.inv_of(obj)
    head = inv["head"]
    cdir = inv.get("contentDirectory", "content")
    alg = inv["digestAlgorithm"]
    if k == "inv-dir":
        os.unlink(os.path.join(obj, "inventory.json")); os.mkdir(os.path.join(obj, "inventory.json"))
    elif k == "ver-file":
        shutil.rmtree(os.path.join(obj, head)); open(os.path.join(obj, head), "w").write("x")
    elif k == "content-file":
        p = os.path.join(obj, head, cdir)
        if os.path.isdir(p):
            shutil.rmtree(p)
        open(p, "w").write("x")
    elif k == "symloop":
        p = os.path.join(obj, head, cdir)
        os.makedirs(p, exist_ok=True)
        os.symlink(p, os.path.join(p, "loop"))
        os.symlink("self", os.path.join(p, "self"))
    elif k == "fifo-content":
        p = os.path.join(obj, head, cdir)
        os.makedirs(p, exist_ok=True)
        os.mkfifo(os.path.join(p, "fifo"))
    elif k == "fifo-inv":
        p = os.path.join(obj, rng.choice(["inventory.json", "inventory.json." + alg, os.path.join(head, "inventory.json")]))
        os.unlink(p); os.mkfifo(p)
    elif k == "sidecar":
        open(os.path.join(obj, "inventory.json." + alg), "wb").write(rng.choice([b"", b"abc", b"abc  inventory.json", b"\t \t", b"a b c d", os.urandom(64), b"x" * 1000000,
                                                                              b"  inventory.json\n", b"00\tinventory.json\n"]))
    elif k == "namaste":
        for f in os.listdir(obj):
            if f.startswith("0="):
                os.unlink(os.path.join(obj, f))
        c = rng.randint(0, 3)
        if c == 0:
            os.mkdir(os.path.join(obj, "0=ocfl_object_1.1"))
        elif c == 1:
            open(os.path.join(obj, "0=ocfl_object_1.1"), "w").write("garbage"); open(os.path.join(obj, "0=ocfl_object_1.0"), "w").write("ocfl_object_1.0\n")
        elif c == 2:
            open(os.path.join(obj, "0=ocfl_object_9.9"), "w").write("ocfl_object_9.9\n")
    elif k == "deep":
        p = os.path.join(obj, head, cdir)
        for i in range(60):
            p = os.path.join(p, "d")
        os.makedirs(p, exist_ok=True)
        open(os.path.join(p, "leaf"), "w").write("x")
    elif k == "manyfiles":
        p = os.path.join(obj, head, cdir, "many")
        os.makedirs(p, exist_ok=True)
        for i in range(2000):
            open(os.path.join(p, "f%d" % i), "w").close()
    elif k == "inv-transplant":
        # an inventory (with its sidecar) of one place copied over another: versions swapped, the root's into an
        # old version, an old version's into the root
        places = [""] + sorted(v for v in inv["versions"] if os.path.isfile(os.path.join(obj, v, "inventory.json")))
        if len(places) >= 2:
            a, b = rng.sample(places, 2)
            vs_only = places[1:]
            if len(vs_only) >= 2 and rng.random() < 0.6:
                # an older version's inventory in a later version directory (its head is lower than the directory)
                i = rng.randrange(len(vs_only) - 1)
                a, b = vs_only[i], vs_only[rng.randrange(i + 1, len(vs_only))]
            for f in ("inventory.json", "inventory.json." + alg):
                if os.path.isfile(os.path.join(obj, a, f)):
                    shutil.copy(os.path.join(obj, a, f), os.path.join(obj, b, f))
            k += ":%s->%s" % (a or "root", b or "root")
    elif k == "inv-mutant-in-version":
        # the inventory mutations above, applied to the inventory of a version directory (sidecar recomputed)
        vs = sorted(v for v in inv["versions"] if os.path.isfile(os.path.join(obj, v, "inventory.json")))
        if vs:
            v = rng.choice(vs)
            vinv = json.load(open(os.path.join(obj, v, "inventory.json")))
            what, val = mutate_inventory(vinv, rng)
            if isinstance(val, (bytes, bytearray)):
                valprop.rewrite_inventory(os.path.join(obj, v), None, alg=alg, raw=bytes(val))
            else:
                valprop.rewrite_inventory(os.path.join(obj, v), val, alg=alg)
            k += ":%s:%s" % (v, what)
    elif k == "inv-other-algorithm":
        # an earlier version's inventory re-written under the other digest algorithm (digests recomputed from the content
        # files), optionally with one of the inventory mutations on top: the cross-algorithm comparison paths of the validator
        vs = sorted(v for v in inv["versions"] if v != head and os.path.isfile(os.path.join(obj, v, "inventory.json")))
        if vs:
            import hashlib
            v = rng.choice(vs)
            vinv = json.load(open(os.path.join(obj, v, "inventory.json")))
            other = "sha256" if vinv.get("digestAlgorithm") == "sha512" else "sha512"
            conv = {}
            for d, ps in vinv.get("manifest", {}).items():
                fp = os.path.join(obj, ps[0]) if ps else None
                conv[d] = hashlib.new(other, open(fp, "rb").read()).hexdigest() if fp and os.path.isfile(fp) else hashlib.new(other, d.encode()).hexdigest()
            vinv["digestAlgorithm"] = other
            vinv["manifest"] = {conv[d]: ps for d, ps in vinv["manifest"].items()}
            for blk in vinv["versions"].values():
                blk["state"] = {conv.get(d, d): ps for d, ps in blk["state"].items()}
            vinv.pop("fixity", None)
            what = "plain"
            c = rng.random()
            if c < 0.3 and vinv["manifest"]:
                vinv["manifest"][rng.choice(sorted(vinv["manifest"]))] = []; what = "empty-manifest-entry"
            elif c < 0.6:
                what, val = mutate_inventory(vinv, rng)
                if not isinstance(val, (bytes, bytearray)):
                    vinv = val
                else:
                    what = "plain"
            for f in os.listdir(os.path.join(obj, v)):
                if f.startswith("inventory.json."):
                    os.unlink(os.path.join(obj, v, f))
            valprop.rewrite_inventory(os.path.join(obj, v), vinv, alg=other)
            k += ":%s:%s" % (v, what)
    elif k == "symlink-root-inv":
        os.unlink(os.path.join(obj, "inventory.json")); os.symlink("/dev/zero" if rng.random() < 0.3 else "nonexistent", os.path.join(obj, "inventory.json"))
    return k


def size_of(obj):
    n = 0
    for d, dirs, files in os.walk(obj):
        n += len(dirs) + len(files)
        for f in files:
            p = os.path.join(d, f)
            if os.path.isfile(p) and not os.path.islink(p) and f.startswith("inventory"):
                n += os.path.getsize(p) // 16
    return n


def run(rep, tier, seed, proof_broken=False):
    rng = random.Random(seed)
    budget = BUDGET["thorough" if (tier == "thorough" or proof_broken) else "quick"]
    t_end = time.time() + budget["seconds"]
    sb, objs = valprop.build_objects(rng, n=6, max_extra=4)
    g = Guarded()
    fails, dis = [], []
    try:
        # ---- T: the version-number check, model vs implementation
        base_inv = valprop.inv_of(objs[0])
        blk = base_inv["versions"][base_inv["head"]]
        jobs = []
        for i in range(budget["vsets"]):
            if time.time() > t_end - budget["seconds"] * 0.6:
                break
            n = rng.choice([1, 2, 3, 5, 8])
            nums = sorted(set(rng.choice([rng.randint(1, 12), rng.randint(1, 400), rng.choice([2 ** 31, 30000000, 4294967294, 4294967295, 101, 102, 103])]) for _ in range(n)))
            inv = dict(base_inv)
            inv["versions"] = {"v%d" % k: blk for k in nums}
            inv["head"] = "v%d" % nums[-1]
            name = "vn%d" % i
            d = os.path.join(g.root, name)
            shutil.copytree(objs[0], d)
            valprop.rewrite_inventory(d, inv)
            r, secs = g.ask("validateat %s 0" % hx(name))
            shutil.rmtree(d, ignore_errors=True)
            rep.evaluations += 1
            if r in ("TIMEOUT", "ABORT") or r.startswith("panic"):
                fails.append(("validate of an inventory with version keys %s: %s after %.1fs" % (nums, r[:60], secs), dict(versions=nums)))
                g.restart()
                continue
            if r.startswith("ok "):
                e010 = json.loads(r[3:])["errors"].count("E010")
                jobs.append(("script-vnums " + " ".join(map(str, nums)), e010, nums))
        if jobs:
            res = core.run_lines(core.drv_path(), [j[0] for j in jobs])
            for (line, e010, nums), got in zip(jobs, res):
                rep.count("vnums-compared")
                # the parser reports further E010 for a missing head / version dirs; the loop's share is a lower bound
                m = int(got.split("=")[1])
                if e010 < m or e010 > m + 2 * len(nums) + 2:
                    dis.append(dict(versions=nums, model_e010=m, implementation_e010=e010))
        # ---- O: mutants
        for i in range(budget["mutants"]):
            if time.time() > t_end:
                break
            src = rng.choice(objs)
            name = "m%d" % i
            d = os.path.join(g.root, name)
            shutil.copytree(src, d, symlinks=True)
            inv = valprop.inv_of(d)
            try:
                if rng.random() < 0.7:
                    where = rng.choice([d, d, os.path.join(d, rng.choice(list(inv["versions"])))])
                    kind, val = mutate_inventory(valprop.inv_of(where) if os.path.exists(os.path.join(where, "inventory.json")) else inv, rng)
                    valprop.rewrite_inventory(where, val if not isinstance(val, bytes) else None, alg=inv["digestAlgorithm"], raw=val if isinstance(val, bytes) else None)
                    if where == d and rng.random() < 0.7 and os.path.isdir(os.path.join(d, inv["head"])):
                        for f in ("inventory.json", "inventory.json." + inv["digestAlgorithm"]):
                            if os.path.exists(os.path.join(d, f)):
                                shutil.copy(os.path.join(d, f), os.path.join(d, inv["head"], f))
                    desc = "inventory:" + kind
                else:
                    desc = "structure:" + mutate_structure(d, rng)
            except Exception as e:
                shutil.rmtree(d, ignore_errors=True)
                continue
            sz = size_of(d)
            for fixity in (1, 0):
                r, secs = g.ask("validateat %s %d" % (hx(name), fixity))
                rep.evaluations += 1
                cls = r.split(" ")[0] if not r.startswith("ok ") else "verdict"
                codes = ""
                if r.startswith("ok "):
                    j = json.loads(r[3:])
                    codes = ",".join(sorted(set(j["errors"])))[:60]
                    if len(j["errors"]) > 300 + 40 * sz:
                        fails.append(("%s: %d results for an input of size %d" % (desc, len(j["errors"]), sz), dict(mutation=desc)))
                rep.count("outcome:%s:%s" % (desc.split(":")[0], cls))
                rep.classes.add("%s|%s|%s" % (desc, cls, codes))
                if r in ("TIMEOUT", "ABORT") or r.startswith("panic"):
                    msg = unhx(r.split(" ")[1]).decode("utf8", "replace") if r.startswith("panic ") and len(r.split(" ")) > 1 else ""
                    keep = os.path.join(core.OUT, "c17-case-%d" % i)
                    shutil.rmtree(keep, ignore_errors=True)
                    os.makedirs(core.OUT, exist_ok=True)
                    try:
                        shutil.copytree(d, keep, symlinks=True)
                    except Exception:
                        pass
                    fails.append(("%s (fixity=%d): validate did not return a verdict: %s %s after %.1fs" % (desc, fixity, r.split(" ")[0], msg[:120], secs),
                                  dict(mutation=desc, object_copy=keep)))
                    g.restart()
                    break
                if secs > 8:
                    fails.append(("%s: validate took %.1fs for an input of size %d" % (desc, secs, sz), dict(mutation=desc)))
            shutil.rmtree(os.path.join(g.root, name), ignore_errors=True)
        # ---- the repository validator carries on after a broken object
        for k, src in enumerate(objs[:3]):
            shutil.copytree(src, os.path.join(g.root, "good%d" % k), symlinks=True)
        bad = os.path.join(g.root, "broken")
        shutil.copytree(objs[0], bad)
        open(os.path.join(bad, "inventory.json"), "wb").write(b"{\"id\": ")
        r, secs = g.ask("validaterepo 0", timeout=30)
        if not r.startswith("ok "):
            fails.append(("repository validation with one broken object did not complete: %s" % r[:100], {}))
        else:
            j = json.loads(r[3:])
            seen = {o[1] for o in j["objects"]}
            if not {"good0", "good1", "good2"} <= seen:
                fails.append(("repository validation stopped at the broken object: validated only %s" % sorted(seen), {}))
        # ---- the command line too: several objects named by path or by id, one in the middle cannot be validated at all
        # (empty directory, no such object): the others still get their verdict
        from vlib import core as _core
        rbin = _core.build_rocfl_bin()
        os.makedirs(os.path.join(g.root, "hollow"), exist_ok=True)
        env = dict(os.environ, HOME=g.root + ".home", NO_COLOR="1")
        os.makedirs(env["HOME"], exist_ok=True)
        for mode, args in (("paths", ["-p", "good0", "hollow", "good1", "no-such-dir", "good2"]), ("paths-n", ["-n", "-p", "good0", "hollow", "good2"])):
            p = subprocess.run([rbin, "-r", g.root, "-S", "validate"] + args, stdout=subprocess.PIPE, stderr=subprocess.PIPE, env=env, timeout=120)
            out = p.stdout.decode("utf8", "replace")
            rep.evaluations += 1
            rep.classes.add("cli-multi|%s|rc%d" % (mode, p.returncode))
            ids_last = valprop.inv_of(os.path.join(g.root, "good2"))["id"]
            if p.returncode not in (1, 2) or ("Object %s is" % ids_last) not in out:
                fails.append(("`rocfl validate %s` (exit %d) gives no verdict for the object after the one that cannot be validated: %s" % (" ".join(args), p.returncode, out[-200:].replace("\n", " | ")), {}))
    finally:
        g.close()
        sb.close()
    rep.disagreements = len(dis)
    rep.sample(dict(example_mutations=sorted(rep.classes)[:6]))
    seen = set()
    for f, info in fails:
        k = known_match(f)
        if k:
            rep.known(k, f[:300])
            continue
        key = f.split(":")[0] + f.split(":")[1][:30] if ":" in f else f[:40]
        if key in seen or len(seen) >= 3:
            continue
        seen.add(key)
        rep.violation(dict(kind="oracle-failure", what=f, replay=info))
    if dis and not fails:
        rep.violation(dict(kind="correspondence-broken", correspondence=CORRESPONDENCE, what=dis[0], disagreeing=len(dis)), no_input=True)


def known_match(f):
    return None


def replay(rep, payload):
    print(json.dumps(payload, indent=1)[:2000])
