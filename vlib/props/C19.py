"""C19 — every committed object is found, exactly once, under any layout."""
from vlib import histprop, oracles
from vlib.props import _hist_common as hc
from vlib.props._hist_common import TRUSTED_BASE, ASSUMPTIONS, CORRESPONDENCE
# every step is followed by several listings (plain, globs with classes / alternatives / escapes, malformed patterns)
BUDGET = {"quick": dict(hc.BUDGET["quick"], histories=150), "thorough": hc.BUDGET["thorough"]}

RULE = ("operation histories (new/cp/mv external+internal/rm/reset/commit/upgrade/purge over up to 5 objects, all layouts and none, hostile ids, both staging "
        "placements; listings with literal, *, ?, [..], [!..], {a,b}, \\x and malformed globs after every step) generated interactively against the implementation so that sources, globs and destinations hit existing paths; "
        "distinct non-trivial = distinct (operation, outcome class) pairs observed")


def make_gen(rng, budget, live, case):
    return hc.make_gen(rng, budget, live, case, n_objects=5, observe_ls=True, two_clients=(rng.random() < 0.25), hostile_ids=(rng.random() < 0.5), weights=[25, 4, 6, 6, 6, 3, 6, 30, 10, 2, 6])


def make_oracles(contents, gen):
    return [oracles.Listing()]


def corpus_specs():
    return hc.corpus_specs("C19")


def known_match(f, sc):
    """C19-K1: the object concerned was committed under a root path with an `extensions` component"""
    from vlib.core import unhx
    if sc is None:
        return None
    steps = sc.steps if hasattr(sc, "steps") else sc
    for st in steps:
        t = st["h"].split(" ")
        if t[0] == "commit" and t[2] != "-" and "extensions" in unhx(t[2]).decode("utf8", "replace").split("/"):
            oid = unhx(t[1]).decode("utf8", "replace")
            if repr(oid) in f[2] or ("'%s'" % oid) in f[2] or ("lists" in f[2] and oid in f[2]):
                return "C19-K1"
    return None


def run(rep, tier, seed, proof_broken=False):
    import vlib.props.C19 as me
    histprop.run(rep, me, tier, seed, proof_broken)


def replay(rep, payload):
    import vlib.props.C19 as me
    histprop.replay(rep, me, payload)
