"""C12 — writes stay inside the repository and never land in another object's root."""
from vlib import physprop

TRUSTED_BASE = ["Lean 4.33 kernel", "axioms: propext, Classical.choice, Quot.sound",
                "model lean/RocflModel/Script.lean (safeRel, resolveJoin, notInsideObject, installNewObject, confined) tied to fs.rs by the guard-decision comparison and the `confined` monitor on observed traces",
                "strace + vlib/phys.py", "the rocfl binary built from /repo", "vlib/ocflcheck.py for 'existing objects stay valid'"]
ASSUMPTIONS = ["lexical path resolution: no symbolic links inside the storage root (rocfl creates none)",
               "hashed layouts (0003/0004) and the staging area derive paths from hex digests only (C11)"]
CORRESPONDENCE = "safeRel/notInsideObject/confined (lean/RocflModel/Script.lean) vs `rocfl commit` of new objects and the strace of every operation"
BUDGET = {"quick": dict(histories=100, ops=14, seconds=150), "thorough": dict(histories=500, ops=24, seconds=1500)}
RULE = ("histories of real CLI invocations with hostile object ids ('..', '/', absolute, ids that are prefixes of one another) under the flat-direct layout "
        "and hostile --object-root values without layout, in repositories already holding objects; every mutating system call judged against "
        "{storage root, staging root}; distinct non-trivial = distinct (operation, exit status, guard verdict)")
IDS = [["a", "a/b", "../x", "a/../../y", "ok-id"], ["/abs/p", "b//c", "c/.", "b", "c"], ["obj", "obj/v1", "obj/v1/content/z", "obj/extensions/e"],
       ["obj", "obj/v1/content/a.txt/x", "obj/v1/content/d1", "obj/v2"], ["deep/er/id", "deep", "deep/er", "d/", ".."], ["x/../../../z", "x", "x/y", "ok-id"],
       ["p", "p/v1/content", "p/v1/content/sub/q", "p/inventory.json"],
       ["../outside-empty/deep/obj", "../outside-empty/deep/a/b", "ok-id", "../outside-empty"]]
ROOTS = ["objects/a", "objects/a/b", "../out", "/abs/root", "o//p", "objects/./q", "objects", "x/../../y", "plain"]
HISTORY_KW = dict(layouts=["0002-flat-direct-storage-layout", "0002-flat-direct-storage-layout", "none"], ids=IDS, hostile_roots=ROOTS,
                  weights=[30, 3, 3, 3, 3, 2, 1, 40, 4, 1])
_layout = {}


def make_oracles():
    def layout_of(s):
        # the layout is visible in the tree: ocfl_layout.json
        import json, os
        p = os.path.join(s.sb.root, "ocfl_layout.json")
        if os.path.exists(p):
            return json.load(open(p)).get("extension")
        return "none"
    return [physprop.Confined(), physprop.NewObjectGuard(layout_of), physprop.OthersStayValid()]


HOSTILE_CDIRS = ["../" * 8 + "victim", "content/" + "../" * 9 + "escaped/deep", "../" * 7 + "v", "../outside", "a/b", "..", ".", "x/../../..", "c/./d"]
TAMPER_BUDGET = {"quick": dict(cases=5, seconds=40), "thorough": dict(cases=80, seconds=600)}


def tamper_phase(rep, tier, seed):
    """content-directory names that did not come through `rocfl new`: the stored inventory of a committed object
    is rewritten (sidecars kept consistent) to declare a content directory with '..', '/' or '.' parts; every
    later operation on the object runs under strace and is judged by the same `confined` monitor"""
    import hashlib, json, os, random, re, time
    from vlib import phys, physgen, faultprop
    rng = random.Random(seed + 9)
    budget = TAMPER_BUDGET["thorough" if tier == "thorough" else "quick"]
    t_end = time.time() + budget["seconds"]
    fails = []
    mon = physprop.Confined()
    for i in range(budget["cases"]):
        if time.time() > t_end:
            break
        sb = phys.Sandbox(ext_staging=(i % 2 == 1))
        try:
            for n, c in {"a.txt": b"alpha", "b.txt": b"beta", "n.txt": b"new", "m.txt": b"moved"}.items():
                open(os.path.join(sb.src, n), "wb").write(c)
            layout = rng.choice(["0004-hashed-n-tuple-storage-layout", "0002-flat-direct-storage-layout", "0003-hash-and-id-n-tuple-storage-layout"])
            sb.run(["init", "-l", layout])
            oid = "obj"
            sb.run(["new", oid])
            sb.run(["cp", oid, os.path.join(sb.src, "a.txt"), os.path.join(sb.src, "b.txt"), "--", "/"])
            sb.run(["commit", "-c", faultprop.TS, oid])
            oroot = faultprop.object_root(sb, oid)
            if oroot is None:
                continue
            cdir = HOSTILE_CDIRS[i % len(HOSTILE_CDIRS)] if i < len(HOSTILE_CDIRS) else rng.choice(HOSTILE_CDIRS)
            for d in ("", "v1"):
                ip = os.path.join(sb.root, oroot, d, "inventory.json")
                inv = json.load(open(ip))
                inv["contentDirectory"] = cdir
                raw = json.dumps(inv).encode()
                open(ip, "wb").write(raw)
                alg = inv["digestAlgorithm"]
                open(ip + "." + alg, "w").write("%s  inventory.json\n" % hashlib.new(alg, raw).hexdigest())
            src = lambda n: os.path.join(sb.src, n)
            ops = [("cpx", ["cp", oid, src("n.txt"), "--", "n.txt"]), ("mvx", ["mv", oid, src("m.txt"), "--", "m.txt"]),
                   ("cpi", ["cp", "-i", oid, "a.txt", "--", "c.txt"]), ("rm", ["rm", oid, "a.txt"]), ("commit", ["commit", "-c", faultprop.TS, oid])]
            for kind, args in ops:
                def outside():
                    t = dict(phys.tree(sb.dir, exclude=("root", "staging", "src", "home") + tuple(f for f in os.listdir(sb.dir) if f.startswith("trace."))))
                    t.update({"TOP/" + k: v for k, v in phys.tree(sb.top, exclude=("j1/j2/j3/j4/w",)).items()})
                    return t
                pre = outside()
                res = sb.run(args, trace=True)
                post = outside()
                rep.evaluations += 1
                rep.classes.add("tamper|%s|rc%d" % (kind, min(res["rc"], 3)))
                rep.count("tamper:%s:%s" % (kind, "ok" if res["rc"] == 0 else "refused"))
                st = physprop.Step(sb, physgen.Op(kind, args, oid), res, {}, {}, {}, {}, pre, post)
                for f in mon.check(st):
                    fails.append("stored contentDirectory %r: %s" % (cdir, f))
        finally:
            sb.close()
    seen = set()
    for f in fails:
        key = re.sub(r"[0-9a-f]{8,}|\d+", "#", f)[:70]
        if key in seen or len(seen) >= 3:
            continue
        seen.add(key)
        rep.violation(dict(kind="oracle-failure", oracle="confined (tampered content directory)", what=f))
    rep.extra["tamper_failures"] = len(fails)


def run(rep, tier, seed, proof_broken=False):
    import vlib.props.C12 as me
    physprop.run(rep, me, tier, seed, proof_broken)
    tamper_phase(rep, tier, seed)


def replay(rep, payload):
    import vlib.props.C12 as me
    physprop.replay(rep, me, payload)
