"""C12 — writes stay inside the repository and never land in another object's root."""
from vlib import physprop

TRUSTED_BASE = ["Lean 4.33 kernel", "axioms: propext, Classical.choice, Quot.sound",
                "model lean/RocflModel/Script.lean (safeRel, resolveJoin, notInsideObject, installNewObject, confined) tied to fs.rs by the guard-decision comparison and the `confined` monitor on observed traces",
                "strace + vlib/phys.py", "the rocfl binary built from /repo", "vlib/ocflcheck.py for 'existing objects stay valid'"]
ASSUMPTIONS = ["lexical path resolution: no symbolic links inside the storage root (rocfl creates none)",
               "hashed layouts (0003/0004) and the staging area derive paths from hex digests only (C11)"]
CORRESPONDENCE = "safeRel/notInsideObject/confined (lean/RocflModel/Script.lean) vs `rocfl commit` of new objects and the strace of every operation"
BUDGET = {"quick": dict(histories=100, ops=14, seconds=150), "thorough": dict(histories=500, ops=24, seconds=1500)}
RULE = ("histories of real CLI invocations with hostile object ids ('..', '/', absolute, ids that are prefixes of one another) under the flat-direct layout "
        "and hostile --object-root values without layout, in repositories already holding objects; every mutating system call judged against "
        "{storage root, staging root}; distinct non-trivial = distinct (operation, exit status, guard verdict)")
IDS = [["a", "a/b", "../x", "a/../../y", "ok-id"], ["/abs/p", "b//c", "c/.", "b", "c"], ["obj", "obj/v1", "obj/v1/content/z", "obj/extensions/e"],
       ["obj", "obj/v1/content/a.txt/x", "obj/v1/content/d1", "obj/v2"], ["deep/er/id", "deep", "deep/er", "d/", ".."], ["x/../../../z", "x", "x/y", "ok-id"],
       ["p", "p/v1/content", "p/v1/content/sub/q", "p/inventory.json"],
       ["../outside-empty/deep/obj", "../outside-empty/deep/a/b", "ok-id", "../outside-empty"],
       ["coll/item", "coll/item/part1", "coll/item/v1/x", "coll"], ["a/b/c", "a/b/c/d/e", "a/b", "a/b/c/v1/content/q"]]
ROOTS = ["objects/a", "objects/a/b", "../out", "/abs/root", "o//p", "objects/./q", "objects", "x/../../y", "plain"]
HISTORY_KW = dict(layouts=["0002-flat-direct-storage-layout", "0002-flat-direct-storage-layout", "none"], ids=IDS, hostile_roots=ROOTS,
                  weights=[30, 3, 3, 3, 3, 2, 1, 40, 4, 1])
_layout = {}


def make_oracles():
    def layout_of(s):
        # the layout is visible in the tree: ocfl_layout.json
        import json, os
        p = os.path.join(s.sb.root, "ocfl_layout.json")
        if os.path.exists(p):
            return json.load(open(p)).get("extension")
        return "none"
    return [physprop.Confined(), physprop.NewObjectGuard(layout_of), physprop.OthersStayValid()]


HOSTILE_CDIRS = ["../" * 8 + "victim", "content/" + "../" * 9 + "escaped/deep", "../" * 7 + "v", "../outside", "a/b", "..", ".", "x/../../..", "c/./d"]
TAMPER_BUDGET = {"quick": dict(cases=5, seconds=40), "thorough": dict(cases=80, seconds=600)}


def tamper_phase(rep, tier, seed):
    """content-directory names that did not come through `rocfl new`: the stored inventory of a committed object
    is rewritten (sidecars kept consistent) to declare a content directory with '..', '/' or '.' parts; every
    later operation on the object runs under strace and is judged by the same `confined` monitor"""
    import hashlib, json, os, random, re, time
    from vlib import phys, physgen, faultprop
    rng = random.Random(seed + 9)
    budget = TAMPER_BUDGET["thorough" if tier == "thorough" else "quick"]
    t_end = time.time() + budget["seconds"]
    fails = []
    mon = physprop.Confined()
    for i in range(budget["cases"]):
        if time.time() > t_end:
            break
        sb = phys.Sandbox(ext_staging=(i % 2 == 1))
        try:
            for n, c in {"a.txt": b"alpha", "b.txt": b"beta", "n.txt": b"new", "m.txt": b"moved"}.items():
                open(os.path.join(sb.src, n), "wb").write(c)
            layout = rng.choice(["0004-hashed-n-tuple-storage-layout", "0002-flat-direct-storage-layout", "0003-hash-and-id-n-tuple-storage-layout"])
            sb.run(["init", "-l", layout])
            oid = "obj"
            sb.run(["new", oid])
            sb.run(["cp", oid, os.path.join(sb.src, "a.txt"), os.path.join(sb.src, "b.txt"), "--", "/"])
            sb.run(["commit", "-c", faultprop.TS, oid])
            oroot = faultprop.object_root(sb, oid)
            if oroot is None:
                continue
            cdir = HOSTILE_CDIRS[i % len(HOSTILE_CDIRS)] if i < len(HOSTILE_CDIRS) else rng.choice(HOSTILE_CDIRS)
            for d in ("", "v1"):
                ip = os.path.join(sb.root, oroot, d, "inventory.json")
                inv = json.load(open(ip))
                inv["contentDirectory"] = cdir
                raw = json.dumps(inv).encode()
                open(ip, "wb").write(raw)
                alg = inv["digestAlgorithm"]
                open(ip + "." + alg, "w").write("%s  inventory.json\n" % hashlib.new(alg, raw).hexdigest())
            src = lambda n: os.path.join(sb.src, n)
            ops = [("cpx", ["cp", oid, src("n.txt"), "--", "n.txt"]), ("mvx", ["mv", oid, src("m.txt"), "--", "m.txt"]),
                   ("cpi", ["cp", "-i", oid, "a.txt", "--", "c.txt"]), ("rm", ["rm", oid, "a.txt"]), ("commit", ["commit", "-c", faultprop.TS, oid])]
            for kind, args in ops:
                def outside():
                    t = dict(phys.tree(sb.dir, exclude=("root", "staging", "src", "home") + tuple(f for f in os.listdir(sb.dir) if f.startswith("trace."))))
                    t.update({"TOP/" + k: v for k, v in phys.tree(sb.top, exclude=("j1/j2/j3/j4/w",)).items()})
                    return t
                pre = outside()
                res = sb.run(args, trace=True)
                post = outside()
                rep.evaluations += 1
                rep.classes.add("tamper|%s|rc%d" % (kind, min(res["rc"], 3)))
                rep.count("tamper:%s:%s" % (kind, "ok" if res["rc"] == 0 else "refused"))
                st = physprop.Step(sb, physgen.Op(kind, args, oid), res, {}, {}, {}, {}, pre, post)
                for f in mon.check(st):
                    fails.append("stored contentDirectory %r: %s" % (cdir, f))
        finally:
            sb.close()
    seen = set()
    for f in fails:
        key = re.sub(r"[0-9a-f]{8,}|\d+", "#", f)[:70]
        if key in seen or len(seen) >= 3:
            continue
        seen.add(key)
        rep.violation(dict(kind="oracle-failure", oracle="confined (tampered content directory)", what=f))
    rep.extra["tamper_failures"] = len(fails)


def foreign_object_phase(rep, tier, seed):
    """objects that rocfl did not write itself and cannot update - declared under an OCFL version it does not know - are
    still objects: a new object must not be committed beneath (or a purge reach into) their roots"""
    import os, random, re
    from vlib import phys, faultprop
    rng = random.Random(seed + 13)
    fails = []
    for i in range(3 if tier != "thorough" else 20):
        sb = phys.Sandbox(ext_staging=(i % 2 == 1))
        try:
            open(os.path.join(sb.src, "a.txt"), "wb").write(b"alpha")
            layout = rng.choice(["0002-flat-direct-storage-layout", "none"])
            sb.run(["init", "-l", layout])
            sb.run(["new", "a"]); sb.run(["cp", "a", os.path.join(sb.src, "a.txt"), "--", "/"])
            sb.run(["commit", "-c", faultprop.TS, "a"] + (["-r", "a"] if layout == "none" else []))
            root_a = os.path.join(sb.root, "a")
            decl = [f for f in os.listdir(root_a) if f.startswith("0=ocfl_object_")]
            if not decl:
                continue
            ver = rng.choice(["1.2", "2.0", "9.9"])
            os.rename(os.path.join(root_a, decl[0]), os.path.join(root_a, "0=ocfl_object_" + ver))
            open(os.path.join(root_a, "0=ocfl_object_" + ver), "w").write("ocfl_object_%s\n" % ver)
            before = phys.tree(root_a)
            nested = rng.choice(["a/b", "a/v1/x", "a/b/c"])
            sb.run(["new", nested]); sb.run(["cp", nested, os.path.join(sb.src, "a.txt"), "--", "/"])
            r = sb.run(["commit", "-c", faultprop.TS, nested] + (["-r", nested] if layout == "none" else []))
            rep.evaluations += 1
            rep.classes.add("foreign|%s|%s|rc%d" % (layout.split("-")[0], nested, min(r["rc"], 3)))
            after = phys.tree(root_a)
            if r["rc"] == 0 or after != before:
                fails.append("an object declared as OCFL %s sits at `a`; committing `%s` (exit %d) %s" % (ver, nested, r["rc"], "wrote beneath its root: %s" % sorted(set(after) - set(before))[:3] if after != before else "succeeded"))
            r = sb.run(["purge", "-f", "a/v1"])
            if phys.tree(root_a) != after:
                fails.append("an object declared as OCFL %s sits at `a`; `purge a/v1` (exit %d) removed parts of it" % (ver, r["rc"]))
        finally:
            sb.close()
    seen = set()
    for f in fails:
        key = re.sub(r"\d", "#", f)[:60]
        if key in seen or len(seen) >= 2:
            continue
        seen.add(key)
        rep.violation(dict(kind="oracle-failure", oracle="new-object-guard (foreign declaration)", what=f))


def run(rep, tier, seed, proof_broken=False):
    import vlib.props.C12 as me
    physprop.run(rep, me, tier, seed, proof_broken)
    tamper_phase(rep, tier, seed)
    foreign_object_phase(rep, tier, seed)


def replay(rep, payload):
    import vlib.props.C12 as me
    physprop.replay(rep, me, payload)
