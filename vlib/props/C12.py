"""C12 — writes stay inside the repository and never land in another object's root."""
from vlib import physprop

TRUSTED_BASE = ["Lean 4.33 kernel", "axioms: propext, Classical.choice, Quot.sound",
                "model lean/RocflModel/Script.lean (safeRel, resolveJoin, notInsideObject, installNewObject, confined) tied to fs.rs by the guard-decision comparison and the `confined` monitor on observed traces",
                "strace + vlib/phys.py", "the rocfl binary built from /repo", "vlib/ocflcheck.py for 'existing objects stay valid'"]
ASSUMPTIONS = ["lexical path resolution: no symbolic links inside the storage root (rocfl creates none)",
               "hashed layouts (0003/0004) and the staging area derive paths from hex digests only (C11)"]
CORRESPONDENCE = "safeRel/notInsideObject/confined (lean/RocflModel/Script.lean) vs `rocfl commit` of new objects and the strace of every operation"
BUDGET = {"quick": dict(histories=100, ops=14, seconds=150), "thorough": dict(histories=500, ops=24, seconds=1500)}
RULE = ("histories of real CLI invocations with hostile object ids ('..', '/', absolute, ids that are prefixes of one another) under the flat-direct layout "
        "and hostile --object-root values without layout, in repositories already holding objects; every mutating system call judged against "
        "{storage root, staging root}; distinct non-trivial = distinct (operation, exit status, guard verdict)")
IDS = [["a", "a/b", "../x", "a/../../y", "ok-id"], ["/abs/p", "b//c", "c/.", "b", "c"], ["obj", "obj/v1", "obj/v1/content/z", "obj/extensions/e"],
       ["obj", "obj/v1/content/a.txt/x", "obj/v1/content/d1", "obj/v2"], ["deep/er/id", "deep", "deep/er", "d/", ".."], ["x/../../../z", "x", "x/y", "ok-id"],
       ["p", "p/v1/content", "p/v1/content/sub/q", "p/inventory.json"]]
ROOTS = ["objects/a", "objects/a/b", "../out", "/abs/root", "o//p", "objects/./q", "objects", "x/../../y", "plain"]
HISTORY_KW = dict(layouts=["0002-flat-direct-storage-layout", "0002-flat-direct-storage-layout", "none"], ids=IDS, hostile_roots=ROOTS,
                  weights=[30, 3, 3, 3, 3, 2, 1, 40, 4, 1])
_layout = {}


def make_oracles():
    def layout_of(s):
        # the layout is visible in the tree: ocfl_layout.json
        import json, os
        p = os.path.join(s.sb.root, "ocfl_layout.json")
        if os.path.exists(p):
            return json.load(open(p)).get("extension")
        return "none"
    return [physprop.Confined(), physprop.NewObjectGuard(layout_of), physprop.OthersStayValid()]


def run(rep, tier, seed, proof_broken=False):
    import vlib.props.C12 as me
    physprop.run(rep, me, tier, seed, proof_broken)


def replay(rep, payload):
    import vlib.props.C12 as me
    physprop.replay(rep, me, payload)
