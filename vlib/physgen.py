"""Operation histories for the physical-layer checks: CLI argument vectors for the real `rocfl` binary."""
import json, os, random

CONTENTS = [b"", b"hello", b"world", b"hello", b"x" * 100, b"\x00\x01\xfe\xff bin\n", b"same", b"same"]
FILES = ["a.txt", "b.txt", "c.dat", "d1/x.txt", "d1/y.txt", "d1/sub/z.txt", "d2/x.txt", "e"]
LAYOUTS = ["0004-hashed-n-tuple-storage-layout", "0004-hashed-n-tuple-storage-layout", "0003-hash-and-id-n-tuple-storage-layout",
           "0002-flat-direct-storage-layout", "none"]


class Op:
    def __init__(self, kind, args, oid=None, **meta):
        self.kind, self.args, self.oid, self.meta = kind, args, oid, meta

    def __repr__(self):
        return "%s %s" % (self.kind, " ".join(self.args))


class PhysGen:
    def __init__(self, rng, sb, n_ops=10, layouts=None, ids=None, hostile=False, hostile_roots=None, weights=None):
        self.rng, self.sb, self.n_ops = rng, sb, n_ops
        self.layout = rng.choice(layouts or LAYOUTS)
        self.spec = rng.choice(["1.0", "1.1"])
        self.ids = []
        # a list of lists is a list of id families: one family per history, so that related ids (an object and ids
        # that run through its inner directories) meet in one repository
        if ids and isinstance(ids[0], (list, tuple)):
            ids = list(rng.choice(ids))
        self.id_pool = ids
        if ids and any("/" in i and not i.startswith(("/", ".")) and ".." not in i for i in ids) and rng.random() < 0.8 \
                and (not layouts or "0002-flat-direct-storage-layout" in layouts):
            # ids that are paths only nest under the direct layout
            self.layout = "0002-flat-direct-storage-layout"
        self.hostile_roots = hostile_roots
        self.weights = weights or [30, 6, 10, 10, 8, 5, 2, 24, 3, 3]
        self.paths = {}
        self.max_objects = len(ids) if ids else 3
        self.k = 0

    def setup_files(self):
        for f in FILES:
            p = os.path.join(self.sb.src, f)
            os.makedirs(os.path.dirname(p), exist_ok=True)
            open(p, "wb").write(self.rng.choice(CONTENTS))

    def init_op(self):
        a = ["init", "-v", self.spec, "-l", self.layout]
        cfg = None
        if self.layout.startswith("0006"):
            cfg = {"extensionName": self.layout, "delimiter": ":"}
        elif self.layout.startswith("0007"):
            cfg = {"extensionName": self.layout, "delimiter": ":", "tupleSize": 2, "numberOfTuples": 2, "zeroPadding": "left", "reverseObjectRoot": False}
        if cfg:
            p = os.path.join(self.sb.dir, "layout-config.json")
            json.dump(cfg, open(p, "w"))
            a += ["-c", p]
        return Op("init", a)

    def src(self, f):
        return os.path.join(self.sb.src, f)

    def new_op(self):
        rng = self.rng
        oid = (self.rng.choice([i for i in self.id_pool if i not in self.ids] or self.id_pool) if self.id_pool else "obj%d" % len(self.ids))
        self.ids.append(oid)
        a = ["new", "-d", rng.choice(["sha256", "sha512"]), "-z", str(rng.choice([0, 0, 3]))]
        if rng.random() < 0.3:
            a += ["-c", rng.choice(["data", "content"])]
        if rng.random() < 0.2:
            a += ["-v", rng.choice(["1.0", "1.1"])]
        return Op("new", a + ["--", oid], oid)

    def next_op(self):
        rng = self.rng
        if not self.ids or (len(self.ids) < self.max_objects and rng.random() < 0.25):
            return self.new_op()
        oid = rng.choice(self.ids)
        kind = rng.choices(["cpx", "mvx", "cpi", "mvi", "rm", "reset", "resetall", "commit", "purge", "upgrade"],
                           self.weights)[0]
        pool = ["a.txt", "b.txt", "x.txt", "d1", "d1/x.txt", "sub", "new/p", "e", "z.txt", "*", "d1/*", "*.txt"]
        if kind == "cpx":
            srcs = [self.src(f) for f in rng.sample(FILES + ["d1", "d2", "missing"], rng.choice([1, 1, 2, 3]))]
            dst = rng.choice(["/", "a.txt", "n.txt", "d1", "d1/", "dir/", "x/y", "e"])
            return Op(kind, ["cp"] + (["-r"] if rng.random() < 0.6 else []) + [oid] + srcs + ["--", dst], oid)
        if kind == "mvx":
            self.k += 1
            rel = "mv%d/m.txt" % self.k
            p = self.src(rel)
            os.makedirs(os.path.dirname(p), exist_ok=True)
            open(p, "wb").write(rng.choice(CONTENTS))
            return Op(kind, ["mv", oid, rng.choice([p, os.path.dirname(p)]), "--", rng.choice(["/", "moved/", "m2.txt"])], oid)
        if kind in ("cpi", "mvi"):
            srcs = [rng.choice(pool) for _ in range(rng.choice([1, 1, 2]))]
            dst = rng.choice(["/", "copy.txt", "d3/", "d1", "a.txt", "deep/er"])
            if kind == "cpi":
                extra = (["-r"] if rng.random() < 0.5 else []) + (["-v", rng.choice(["1", "2"])] if rng.random() < 0.3 else [])
                return Op(kind, ["cp", "-i"] + extra + [oid] + srcs + ["--", dst], oid)
            return Op(kind, ["mv", "-i", oid] + srcs + ["--", dst], oid)
        if kind in ("rm", "reset"):
            ps = [rng.choice(pool) for _ in range(rng.choice([1, 2]))]
            if rng.random() < 0.15:
                ps = [rng.choice(["/", "//", ""])]      # the object root as the path to remove / reset
            return Op(kind, [kind] + (["-r"] if rng.random() < 0.5 else []) + [oid] + ps, oid)
        if kind == "resetall":
            return Op(kind, ["reset", oid], oid)
        if kind == "commit":
            a = ["commit"]
            if self.layout == "none":
                if self.hostile_roots:
                    a += ["-r", rng.choice(self.hostile_roots)]
                else:
                    a += ["-r", "objects/o%d" % self.ids.index(oid)]
            if rng.random() < 0.5:
                a += ["-n", "me", "-m", "msg %d" % self.k]
            if rng.random() < 0.3:
                a += ["-p"]
            return Op(kind, a + [oid], oid)
        if kind == "purge":
            return Op(kind, ["purge", "-f", oid], oid)
        return Op(kind, ["upgrade", "-v", "1.1", oid], oid)
