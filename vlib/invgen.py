"""Inventories for property C07: valid base objects, single spec-relevant edits of the inventory (classified as
covered by the Lean model `InvCheck.check` or judged by the oracle only), JSON re-spellings, and the
materialisation of an inventory as an object directory with matching sidecars and content files."""
import copy, hashlib, json, os, random, shutil
from vlib.core import hx

TS = ["2021-03-04T05:06:07Z", "2022-02-02T02:02:02.123+01:00", "2020-12-31T23:59:59-05:00"]
NAMES = ["a.txt", "b.txt", "dir/c.txt", "dir/sub/d.bin", "e", "uni-é.txt", "sp ace.txt"]
HOSTILE_NAMES = ['q"uote.txt', "back\\slash.txt", "tab\there", "nl\nname", "emoji-\U0001F600.bin", "ctl-\x01", "sl-\u2215-x", "del-\x7f", "bom-\ufeff"]
CONTENTS = [b"hello", b"world", b"", b"x" * 200, b"\x00\xff", b"same", b"other"]


def dg(alg, b):
    return hashlib.new(alg, b).hexdigest()


class Base:
    """a valid object: inventory value + the content pool its digests refer to"""

    def __init__(self, rng, hostile=False):
        self.alg = rng.choice(["sha512", "sha256"])
        self.spec = rng.choice(["1.0", "1.1"])
        n = rng.randint(1, 4)
        width = rng.choice([0, 0, 3])
        self.vname = lambda k: "v" + (str(k).zfill(width - 1) if width else str(k))
        self.cdir = rng.choice([None, None, "data", "c-dir"])
        names = NAMES + (HOSTILE_NAMES if hostile else [])
        self.pool = {}
        manifest, versions = {}, {}
        state = {}          # logical path -> digest
        stored = {}         # digest -> content path
        for k in range(1, n + 1):
            v = self.vname(k)
            for _ in range(rng.randint(1, 3)):
                lp = rng.choice(names)
                if any(lp != q and (q.startswith(lp + "/") or lp.startswith(q + "/")) for q in state):
                    continue
                c = rng.choice(CONTENTS)
                d = dg(self.alg, c)
                self.pool[d] = c
                state[lp] = d
                if d not in stored:
                    stored[d] = "%s/%s/%s" % (v, self.cdir or "content", lp)
                    manifest[d] = [stored[d]]
            if k > 1 and rng.random() < 0.3 and len(state) > 1:
                state.pop(rng.choice(sorted(state)))
            st = {}
            for lp, d in sorted(state.items()):
                st.setdefault(d, []).append(lp)
            block = {"created": rng.choice(TS), "state": st, "message": rng.choice(["msg", 'with "quotes" and \\ and \u00e9', "multi\nline"]) if hostile else "msg",
                     "user": {"name": "Me", "address": "mailto:me@example.org"}}
            versions[v] = block
        used = {d for b in versions.values() for d in b["state"]}
        manifest = {d: ps for d, ps in manifest.items() if d in used}
        # a manifest digest no state uses would be E107: drop the content as well
        self.inv = {"id": rng.choice(["urn:example:obj", "http://example.org/o/1"] + (['urn:x:"q"\\b', "urn:x:\u00e9\U0001F600"] if hostile else [])),
                    "type": "https://ocfl.io/%s/spec/#inventory" % self.spec, "digestAlgorithm": self.alg,
                    "head": self.vname(n), "manifest": manifest, "versions": versions}
        if self.cdir:
            self.inv["contentDirectory"] = self.cdir
        if rng.random() < 0.3:
            self.inv["fixity"] = {"md5": {hashlib.md5(self.pool[d]).hexdigest(): list(ps) for d, ps in manifest.items()}}
            # md5 collisions between equal contents are impossible here: one entry per distinct content


def materialise(dst, inv, pool, spec, raw=None, alg=None, version_invs=True):
    """write an object directory for `inv` (a JSON value, or `raw` bytes): declaration, root inventory +
    sidecar, the same in the head version directory, content files wherever the manifest names a
    usable path.  Returns the bytes written as inventory.json"""
    shutil.rmtree(dst, ignore_errors=True)
    os.makedirs(dst)
    open(os.path.join(dst, "0=ocfl_object_" + spec), "w").write("ocfl_object_%s\n" % spec)
    b = raw if raw is not None else json.dumps(inv, ensure_ascii=False).encode("utf-8")
    alg = alg or (inv.get("digestAlgorithm") if isinstance(inv, dict) else None)
    if alg not in ("sha256", "sha512"):
        alg = "sha512"

    def put_inv(d):
        os.makedirs(d, exist_ok=True)
        open(os.path.join(d, "inventory.json"), "wb").write(b)
        open(os.path.join(d, "inventory.json." + alg), "w").write("%s  inventory.json\n" % hashlib.new(alg, b).hexdigest())
    put_inv(dst)
    versions = inv.get("versions") if isinstance(inv, dict) else None
    if isinstance(versions, dict):
        for v in versions:
            if isinstance(v, str) and v and "/" not in v and v not in (".", "..") and "\x00" not in v:
                os.makedirs(os.path.join(dst, v), exist_ok=True)
        head = inv.get("head")
        if isinstance(head, str) and head in versions and os.path.isdir(os.path.join(dst, head)):
            put_inv(os.path.join(dst, head))
    man = inv.get("manifest") if isinstance(inv, dict) else None
    if isinstance(man, dict):
        for d, paths in man.items():
            for p in paths if isinstance(paths, list) else []:
                if not isinstance(p, str) or p == "" or p.startswith("/") or p.endswith("/") or "\x00" in p:
                    continue
                parts = p.split("/")
                if any(x in ("", ".", "..") for x in parts):
                    continue
                fp = os.path.join(dst, p)
                try:
                    os.makedirs(os.path.dirname(fp), exist_ok=True)
                    if not os.path.isdir(fp):
                        open(fp, "wb").write(pool.get(d.lower() if isinstance(d, str) else d, b"unknown content"))
                except (OSError, NotADirectoryError):
                    pass
    return b


# ---------------------------------------------------------------------------------------------- edits

def _some_manifest_path(rng, inv):
    d = rng.choice(sorted(inv["manifest"]))
    return d, rng.randrange(len(inv["manifest"][d]))


def _some_state_path(rng, inv):
    v = rng.choice(sorted(inv["versions"]))
    st = inv["versions"][v]["state"]
    d = rng.choice(sorted(st))
    return v, d, rng.randrange(len(st[d]))


def bad_variants(rng, p):
    return rng.choice(["/" + p, p + "/", "./" + p, "../" + p, p.replace("/", "//", 1) if "/" in p else p + "//x", p + "/.", p + "/..", "", ".", "..", "/"])


MODELLED = ["none", "manifest-path-bad", "state-path-bad", "manifest-path-dup", "state-path-dup", "manifest-conflict", "state-conflict",
            "state-digest-case", "manifest-digest-case-dup", "manifest-digest-malformed", "state-digest-unknown", "manifest-digest-unused",
            "version-gap", "version-padding", "version-name-bad", "head-wrong", "head-malformed", "content-dir", "benign-rename-logical",
            "benign-upper-digests"]
ORACLE_ONLY = ["drop-key", "wrong-type", "created-format", "user-no-name", "message-type", "type-uri", "algorithm", "id-empty",
               "fixity-bad-path", "fixity-dup-digest", "fixity-wrong-digest", "fixity-unknown-path", "dup-json-key", "version-not-object", "state-not-lists",
               "manifest-path-outside-version", "manifest-path-outside-content", "version-block-drop-key",
               "type-other-version", "decl-other-version", "manifest-empty-entry"]


def edit(rng, base, kind):
    """returns (inv value or None, raw text override or None, description)"""
    inv = copy.deepcopy(base.inv)
    raw = None
    desc = kind
    if kind == "none":
        pass
    elif kind == "manifest-path-bad":
        d, i = _some_manifest_path(rng, inv)
        inv["manifest"][d][i] = bad_variants(rng, inv["manifest"][d][i]); desc += " " + repr(inv["manifest"][d][i])
    elif kind == "state-path-bad":
        v, d, i = _some_state_path(rng, inv)
        inv["versions"][v]["state"][d][i] = bad_variants(rng, inv["versions"][v]["state"][d][i]); desc += " " + repr(inv["versions"][v]["state"][d][i])
    elif kind == "manifest-path-dup":
        d, i = _some_manifest_path(rng, inv)
        d2 = rng.choice(sorted(inv["manifest"]))
        inv["manifest"][d2].append(inv["manifest"][d][i])
    elif kind == "state-path-dup":
        v, d, i = _some_state_path(rng, inv)
        d2 = rng.choice(sorted(inv["versions"][v]["state"]))
        inv["versions"][v]["state"][d2].append(inv["versions"][v]["state"][d][i])
    elif kind == "manifest-conflict":
        d, i = _some_manifest_path(rng, inv)
        d2 = rng.choice(sorted(inv["manifest"]))
        inv["manifest"][d2].append(inv["manifest"][d][i] + "/below")
    elif kind == "state-conflict":
        v, d, i = _some_state_path(rng, inv)
        d2 = rng.choice(sorted(inv["versions"][v]["state"]))
        inv["versions"][v]["state"][d2].append(inv["versions"][v]["state"][d][i] + rng.choice(["/below", "/x/y"]))
    elif kind == "state-digest-case":
        v, d, i = _some_state_path(rng, inv)
        if d.upper() == d:
            return None, None, desc
        st = inv["versions"][v]["state"]
        st[d.upper()] = st.pop(d)
    elif kind == "manifest-digest-case-dup":
        d, i = _some_manifest_path(rng, inv)
        if d.upper() == d:
            return None, None, desc
        inv["manifest"][d.upper()] = [inv["manifest"][d][0] + ".copy"]
    elif kind == "manifest-digest-malformed":
        d, i = _some_manifest_path(rng, inv)
        nd = rng.choice([d[:-1], d + "0", "g" + d[1:], d[:5] + "-" + d[6:], ""])
        inv["manifest"][nd] = inv["manifest"].pop(d)
        for b in inv["versions"].values():
            if d in b["state"]:
                b["state"][nd] = b["state"].pop(d)
        desc += " " + repr(nd[:12])
    elif kind == "state-digest-unknown":
        v, d, i = _some_state_path(rng, inv)
        nd = dg(base.alg, b"not stored anywhere")
        inv["versions"][v]["state"][nd] = ["ghost.txt"]
    elif kind == "manifest-digest-unused":
        c = b"stored but never referenced"
        nd = dg(base.alg, c)
        base.pool[nd] = c
        v = sorted(inv["versions"])[0]
        inv["manifest"][nd] = ["%s/%s/unused.bin" % (v, base.cdir or "content")]
    elif kind == "version-gap":
        vs = sorted(inv["versions"])
        new = base.vname(len(vs) + 2)
        inv["versions"][new] = copy.deepcopy(inv["versions"][inv["head"]])
        inv["head"] = new
    elif kind == "version-padding":
        vs = sorted(inv["versions"])
        n = len(vs) + 1
        new = ("v%d" % n) if vs[0].startswith("v0") else ("v%04d" % n)
        inv["versions"][new] = copy.deepcopy(inv["versions"][inv["head"]])
        inv["head"] = new
    elif kind == "version-name-bad":
        new = rng.choice(["v0", "1", "v-1", "vv2", "v1.0", "V9", "v", "v 2", "v+3", "v00", "v99999999999"])
        inv["versions"][new] = copy.deepcopy(inv["versions"][inv["head"]]); desc += " " + new
    elif kind == "head-wrong":
        vs = sorted(inv["versions"])
        inv["head"] = rng.choice([base.vname(len(vs) + 1)] + (vs[:-1] if len(vs) > 1 else [base.vname(7)])); desc += " " + inv["head"]
    elif kind == "head-malformed":
        inv["head"] = rng.choice(["1", "v0", "head", "", "v1.1", "v-2"]); desc += " " + repr(inv["head"])
    elif kind == "content-dir":
        inv["contentDirectory"] = rng.choice([".", "..", "a/b", "/", "content/"]); desc += " " + inv["contentDirectory"]
    elif kind == "benign-rename-logical":
        v, d, i = _some_state_path(rng, inv)
        inv["versions"][v]["state"][d][i] = rng.choice(["renamed/deep/er.txt", "x", "a b", "..."] + HOSTILE_NAMES)
        lps = [p for ps in inv["versions"][v]["state"].values() for p in ps]
        if len(set(lps)) != len(lps) or any(a != b and b.startswith(a + "/") for a in lps for b in lps):
            return None, None, desc
    elif kind == "benign-upper-digests":
        up = lambda t: {k.upper(): v for k, v in t.items()}
        inv["manifest"] = up(inv["manifest"])
        for b in inv["versions"].values():
            b["state"] = up(b["state"])
    # ------------------------------------------------------------------------------ oracle only
    elif kind == "drop-key":
        k = rng.choice(["id", "type", "digestAlgorithm", "head", "manifest", "versions"]); inv.pop(k); desc += " " + k
    elif kind == "wrong-type":
        k = rng.choice(["id", "type", "digestAlgorithm", "head", "manifest", "versions", "contentDirectory", "fixity"])
        inv[k] = rng.choice([7, None, True, ["x"], {"a": 1}]) if k not in ("manifest", "versions", "fixity") else rng.choice([7, None, "x", ["x"]]); desc += " %s=%r" % (k, inv[k])
    elif kind == "created-format":
        v = rng.choice(sorted(inv["versions"]))
        inv["versions"][v]["created"] = rng.choice(["2021-03-04", "2021-03-04T05:06Z", "2021-03-04T05:06:07", "yesterday", "", 12345, "2021-13-04T05:06:07Z", "2021-02-30T05:06:07Z", "2021-03-04T24:06:07Z", "2021-03-04T05:06:07+25:00", "2021-03-04t05:06:07z"])
        desc += " %r" % (inv["versions"][v]["created"],)
    elif kind == "user-no-name":
        v = rng.choice(sorted(inv["versions"]))
        inv["versions"][v]["user"] = rng.choice([{"address": "mailto:x@y"}, {}, "me", {"name": 5}])
    elif kind == "message-type":
        v = rng.choice(sorted(inv["versions"]))
        inv["versions"][v]["message"] = rng.choice([5, ["m"], {"m": 1}, None])
    elif kind == "type-uri":
        inv["type"] = rng.choice(["https://ocfl.io/1.2/spec/#inventory", "https://ocfl.io/1.0/spec/", "ocfl", "https://ocfl.io/1.0/spec/#inventory ", ""])
    elif kind == "type-other-version":
        other = "1.0" if base.spec == "1.1" else "1.1"
        inv["type"] = "https://ocfl.io/%s/spec/#inventory" % other; desc += " " + other
    elif kind == "decl-other-version":
        desc += " (declaration of the other OCFL version)"      # the caller materialises with the other declaration
    elif kind == "algorithm":
        inv["digestAlgorithm"] = rng.choice(["md5", "sha1", "SHA512", "blake2b-512", "sha-512", ""])
    elif kind == "id-empty":
        inv["id"] = ""
    elif kind.startswith("fixity"):
        man = inv["manifest"]
        paths = [p for ps in man.values() for p in ps]
        fx = {"md5": {hashlib.md5(base.pool.get(d, b"")).hexdigest(): list(ps) for d, ps in man.items()}}
        # a second block under one of the other algorithms rocfl can verify (correct values unless this is the edit)
        other = rng.choice(["sha1", "blake2b-160", "blake2b-256", "blake2b-384", "blake2b-512", "sha512/256", "sha256", "sha512", base.alg, None])
        if other:
            hf = {"sha1": hashlib.sha1, "blake2b-512": hashlib.blake2b, "sha512/256": lambda b: hashlib.new("sha512_256", b), "sha256": hashlib.sha256, "sha512": hashlib.sha512,
                  "blake2b-160": lambda b: hashlib.blake2b(b, digest_size=20), "blake2b-256": lambda b: hashlib.blake2b(b, digest_size=32),
                  "blake2b-384": lambda b: hashlib.blake2b(b, digest_size=48)}[other]
            fx[other] = {hf(base.pool.get(d, b"")).hexdigest(): list(ps) for d, ps in man.items()}
            if kind == "fixity-wrong-digest" and rng.random() < 0.5:
                k = sorted(fx[other])[0]; fx[other][hf(b"something else entirely").hexdigest()] = fx[other].pop(k)
                inv["fixity"] = fx; desc += " (" + other + ")"
                return inv, raw, desc
        if kind == "fixity-bad-path":
            k = sorted(fx["md5"])[0]; fx["md5"][k].append(bad_variants(rng, paths[0]))
        elif kind == "fixity-dup-digest":
            k = sorted(fx["md5"])[0]
            if k.upper() == k:
                return None, None, desc
            fx["md5"][k.upper()] = [paths[0] + ".x"]
        elif kind == "fixity-wrong-digest":
            k = sorted(fx["md5"])[0]; fx["md5"][hashlib.md5(b"something else entirely").hexdigest()] = fx["md5"].pop(k)
        elif kind == "fixity-unknown-path":
            fx["md5"][hashlib.md5(b"zzz").hexdigest()] = ["v1/content/not-in-manifest"]
        inv["fixity"] = fx
    elif kind == "dup-json-key":
        # a key written twice (same value): top level, manifest / state digests (each digest MUST occur only once),
        # the keys of a version block and of its user.  A repeated version name is not generated: the specification
        # does not speak about it and rocfl accepts it (last one wins), which cannot be held against either side
        v = rng.choice(sorted(inv["versions"]))
        spots = [((), k) for k in inv] + [(("manifest",), d) for d in list(inv["manifest"])[:1]] + \
                [(("versions", v), k) for k in inv["versions"][v]] + [(("versions", v, "state"), d) for d in list(inv["versions"][v]["state"])[:1]]
        if isinstance(inv["versions"][v].get("user"), dict):
            spots += [(("versions", v, "user"), k) for k in inv["versions"][v]["user"]]
        where, k = rng.choice(spots)

        def dump(x, path):
            if isinstance(x, dict):
                items = ["%s:%s" % (json.dumps(kk, ensure_ascii=False), dump(vv, path + (kk,))) for kk, vv in x.items()]
                if path == where:
                    items.insert(rng.randint(0, len(items)), "%s:%s" % (json.dumps(k, ensure_ascii=False), dump(x[k], path + (k,))))
                return "{" + ",".join(items) + "}"
            if isinstance(x, list):
                return "[" + ",".join(dump(y, path) for y in x) + "]"
            return json.dumps(x, ensure_ascii=False)
        raw = dump(inv, ()).encode("utf-8"); desc += " %s at /%s" % (k[:20], "/".join(where))
    elif kind == "version-not-object":
        v = rng.choice(sorted(inv["versions"])); inv["versions"][v] = rng.choice(["x", 5, [], None])
    elif kind == "state-not-lists":
        v, d, i = _some_state_path(rng, inv); inv["versions"][v]["state"][d] = rng.choice(["a.txt", 5, None, {"a": 1}, [5]])
    elif kind == "manifest-path-outside-version":
        d, i = _some_manifest_path(rng, inv); inv["manifest"][d][i] = "v9/content/elsewhere.txt"
    elif kind == "manifest-path-outside-content":
        d, i = _some_manifest_path(rng, inv); p = inv["manifest"][d][i].split("/"); inv["manifest"][d][i] = p[0] + "/" + "/".join(p[2:]) if len(p) > 2 else p[0] + "/x"
    elif kind == "manifest-empty-entry":
        d = rng.choice(sorted(inv["manifest"])); inv["manifest"][d] = []; desc += " " + d[:12]
    elif kind == "version-block-drop-key":
        v = rng.choice(sorted(inv["versions"])); inv["versions"][v].pop(rng.choice(["created", "state"]))
    else:
        raise ValueError(kind)
    return inv, raw, desc


# ------------------------------------------------------------------------------------------ spellings

def _esc_char(rng, c, mode):
    o = ord(c)
    if mode == "all" or c in '"\\' or o < 0x20 or (mode == "some" and rng.random() < 0.3) or (mode == "nonascii" and o > 0x7e):
        if c == "/" and rng.random() < 0.5:
            return "\\/"
        if o > 0xFFFF:
            o -= 0x10000
            hi, lo = 0xD800 + (o >> 10), 0xDC00 + (o & 0x3FF)
            f = rng.choice(["\\u%04x", "\\u%04X"])
            return f % hi + f % lo
        short = {'"': '\\"', "\\": "\\\\", "\n": "\\n", "\t": "\\t", "\r": "\\r", "\b": "\\b", "\f": "\\f"}
        if c in short and rng.random() < 0.6:
            return short[c]
        return rng.choice(["\\u%04x", "\\u%04X"]) % o
    return c


def spell(rng, value, mode="some", ws=True, shuffle=True):
    """serialise a JSON value with random (legal) escapes, key order and whitespace"""
    def w():
        return rng.choice(["", "", " ", "\n", "\t", "  \r\n "]) if ws else ""

    def s(x):
        return '"' + "".join(_esc_char(rng, c, mode) for c in x) + '"'

    def go(v):
        if isinstance(v, dict):
            items = list(v.items())
            if shuffle:
                rng.shuffle(items)
            return "{" + w() + ("," + w()).join(s(k) + w() + ":" + w() + go(x) for k, x in items) + w() + "}"
        if isinstance(v, list):
            return "[" + w() + ("," + w()).join(go(x) for x in v) + w() + "]"
        if isinstance(v, str):
            return s(v)
        return json.dumps(v)
    return (w() + go(value) + w()).encode("utf-8")


# ------------------------------------------------------------------------------- Lean request line

def lean_line(inv):
    """`script-invcheck …` for an inventory whose JSON types are all as expected; None otherwise"""
    try:
        alg = inv["digestAlgorithm"]
        if alg not in ("sha256", "sha512"):
            return None
        out = ["script-invcheck", str({"sha256": 64, "sha512": 128}[alg]), hx(inv["head"]), hx(inv["contentDirectory"]) if "contentDirectory" in inv else "~"]

        def table(t):
            o = [str(len(t))]
            for d, ps in t.items():
                o += [hx(d), str(len(ps))] + [hx(p) for p in ps]
            return o
        out += ["M"] + table(inv["manifest"])
        out += ["V", str(len(inv["versions"]))]
        for v, b in inv["versions"].items():
            out += [hx(v)] + table(b["state"])
        return " ".join(out)
    except (KeyError, TypeError, AttributeError):
        return None


# ------------------------------------------------------------------ inventories of earlier versions

CROSS = ["old-inv-consistent", "old-inv-head", "old-inv-id", "old-inv-state", "old-inv-cdir", "old-inv-manifest-drop",
         "old-inv-manifest-extra", "old-inv-sidecar", "old-inv-later-version", "old-inv-meta-differs", "old-inv-is-older",
         "old-inv-other-alg", "old-inv-other-alg-state", "old-inv-other-alg-empty-entry", "old-inv-other-alg-wrong-digest"]


def version_order(inv):
    return sorted(inv["versions"], key=lambda v: int(v[1:]))


def inventory_at(inv, vname):
    """the inventory the object had when `vname` was its head (what a version directory's inventory.json holds);
    None when the base does not determine one that is valid on its own"""
    names = version_order(inv)
    keep = names[:names.index(vname) + 1]
    out = {k: copy.deepcopy(v) for k, v in inv.items() if k not in ("versions", "manifest", "head", "fixity")}
    out["head"] = vname
    out["versions"] = {v: copy.deepcopy(inv["versions"][v]) for v in keep}
    used = {d for v in keep for d in inv["versions"][v]["state"]}
    man = {}
    for d, ps in inv["manifest"].items():
        ps2 = [p for p in ps if p.split("/")[0] in keep]
        if ps2:
            man[d] = ps2
    if set(man) != used:
        return None
    out["manifest"] = man
    return out


def cross_edit(rng, base, kind):
    """-> (dict version name -> inventory value for every earlier version, dict of sidecar overrides, description) or None"""
    inv = base.inv
    names = version_order(inv)
    if len(names) < 2:
        return None
    olds = {}
    for v in names[:-1]:
        o = inventory_at(inv, v)
        if o is None:
            return None
        olds[v] = o
    v = rng.choice(names[:-1])
    o = olds[v]
    side = {}
    desc = "%s in %s" % (kind, v)
    if kind == "old-inv-consistent":
        pass
    elif kind == "old-inv-head":
        o["head"] = rng.choice([n for n in names if n != v])
        if o["head"] not in o["versions"]:
            o["versions"][o["head"]] = copy.deepcopy(inv["versions"][o["head"]])
            return None if set(d for b in o["versions"].values() for d in b["state"]) != set(o["manifest"]) else (olds, side, desc)
    elif kind == "old-inv-id":
        o["id"] = o["id"] + "-other"
    elif kind == "old-inv-state":
        blk = o["versions"][rng.choice(sorted(o["versions"]))]
        d = sorted(blk["state"])[0]
        blk["state"][d] = blk["state"][d] + ["extra/path-%d.txt" % rng.randint(0, 9)]
    elif kind == "old-inv-cdir":
        o["contentDirectory"] = "other-dir" if o.get("contentDirectory") != "other-dir" else "content"
        o["manifest"] = {d: [p.split("/")[0] + "/" + o["contentDirectory"] + "/" + p.split("/", 2)[2] for p in ps] for d, ps in o["manifest"].items()}
    elif kind == "old-inv-manifest-drop":
        multi = [d for d, ps in o["manifest"].items() if len(ps) > 1]
        if not multi:
            return None
        o["manifest"][multi[0]] = o["manifest"][multi[0]][:1]
    elif kind == "old-inv-manifest-extra":
        d = sorted(o["manifest"])[0]
        o["manifest"][d] = o["manifest"][d] + ["%s/%s/not-on-disk.bin" % (v, base.cdir or "content")]
    elif kind == "old-inv-sidecar":
        side[v] = "0" * (128 if base.alg == "sha512" else 64)
    elif kind == "old-inv-later-version":
        later = names[names.index(v) + 1]
        o["versions"][later] = copy.deepcopy(inv["versions"][later])
        if set(d for b in o["versions"].values() for d in b["state"]) != set(o["manifest"]):
            return None
        desc += " (a block for %s, head stays %s)" % (later, v)
    elif kind == "old-inv-is-older":
        # a version directory that holds the (in itself valid) inventory of the version before it: only its head is wrong;
        # possible where the version stored no content of its own
        cands = [n for i, n in enumerate(names[:-1]) if i >= 1 and not any(p.split("/")[0] == n for ps in inv["manifest"].values() for p in ps)]
        if not cands:
            return None
        v = rng.choice(cands)
        olds[v] = copy.deepcopy(olds[names[names.index(v) - 1]])
        desc = "%s: %s holds the inventory of %s" % (kind, v, names[names.index(v) - 1])
    elif kind.startswith("old-inv-other-alg"):
        # the earlier version was written under the other digest algorithm (allowed); then one inconsistency
        other = "sha256" if base.alg == "sha512" else "sha512"
        conv = {d: hashlib.new(other, base.pool[d]).hexdigest() for d in o["manifest"] if d in base.pool}
        if set(conv) != set(o["manifest"]):
            return None
        o["digestAlgorithm"] = other
        o["manifest"] = {conv[d]: ps for d, ps in o["manifest"].items()}
        for blk in o["versions"].values():
            blk["state"] = {conv[d]: ps for d, ps in blk["state"].items()}
        o.pop("fixity", None)
        side[v] = ("alg", other)
        if kind == "old-inv-other-alg-state":
            blk = o["versions"][sorted(o["versions"])[0]]
            d = sorted(blk["state"])[0]
            blk["state"][d] = blk["state"][d] + ["extra/other-alg.txt"]
        elif kind == "old-inv-other-alg-empty-entry":
            o["manifest"][sorted(o["manifest"])[0]] = []
        elif kind == "old-inv-other-alg-wrong-digest":
            d = sorted(o["manifest"])[0]
            nd = hashlib.new(other, b"not the content").hexdigest()
            o["manifest"][nd] = o["manifest"].pop(d)
            for blk in o["versions"].values():
                if d in blk["state"]:
                    blk["state"][nd] = blk["state"].pop(d)
    elif kind == "old-inv-meta-differs":
        blk = o["versions"][sorted(o["versions"])[0]]
        blk["message"] = "another message"
        desc += " (message of an earlier version differs from the root inventory: allowed, W011)"
    return olds, side, desc


def write_old_inventories(dst, olds, side, alg):
    for v, o in olds.items():
        d = os.path.join(dst, v)
        if not os.path.isdir(d):
            continue
        b = json.dumps(o, ensure_ascii=False).encode("utf-8")
        open(os.path.join(d, "inventory.json"), "wb").write(b)
        sv = side.get(v)
        a = sv[1] if isinstance(sv, tuple) else alg
        open(os.path.join(d, "inventory.json." + a), "w").write("%s  inventory.json\n" % (sv if isinstance(sv, str) else hashlib.new(a, b).hexdigest()))
