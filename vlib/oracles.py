"""Implementation-level oracles (stage O).  Each judges the *implementation* — through extra harness
queries and by reading the scratch directory — against the property's statement, independently of the
Lean model's prediction."""
import hashlib, json, os, re
from vlib import ocflcheck
from vlib.core import hx, unhx
from vlib.histprop import Oracle

STAGING_OPS = {"new", "cpx", "mvx", "cpi", "mvi", "rm", "resetp", "resetall"}
MUTATING = STAGING_OPS | {"commit", "upgrade", "purge", "upgraderepo"}


def oid_of(st):
    return st.get("meta", {}).get("id")


def snapshot(base, exclude=()):
    """relative path -> sha256 of bytes (files) / 'd' (dirs) / 'l'"""
    out = {}
    for d, dirs, files in os.walk(base):
        rel = os.path.relpath(d, base)
        if rel != "." and any(rel == e or rel.startswith(e + "/") for e in exclude):
            dirs[:] = []
            continue
        if rel != ".":
            out[rel] = "d"
        for f in files:
            p = os.path.join(d, f)
            r = os.path.normpath(os.path.join(rel, f))
            if any(r == e or r.startswith(e + "/") for e in exclude):
                continue
            if os.path.islink(p):
                out[r] = "l"
            else:
                try:
                    out[r] = hashlib.sha256(open(p, "rb").read()).hexdigest()
                except OSError:
                    out[r] = "?"
    return out


def staged_dir_of(oid):
    h = hashlib.sha256(oid.encode()).hexdigest()
    return "%s/%s/%s/%s" % (h[0:3], h[3:6], h[6:9], h)


def ok(resp):
    return resp.startswith("ok")


def jbody(resp):
    return json.loads(resp[3:])


class ValidRepo(Oracle):
    """C01: after every operation the storage root and every committed object are valid OCFL, judged
    by vlib/ocflcheck.py (strict: per-version inventories, no stray entries, no empty directories);
    each commit stores at most one new content file per digest the object did not already hold."""
    name = "valid-repository"

    def __init__(self):
        self.checks = 0

    def after(self, ctx, st, resp):
        if st["op"] not in MUTATING and st["op"] != "init":
            return []
        root = os.path.join(ctx.dir, "root")
        if not os.path.isdir(root):
            return []
        self.checks += 1
        fails = []
        problems, objs = ocflcheck.check_root(root, strict=True, fixity=True)
        for p in problems:
            fails.append("after `%s`: storage root: %s" % (st["op"], p))
        for o, ps in objs.items():
            for p in ps[:3]:
                fails.append("after `%s`: object at %s: %s" % (st["op"], o, p))
        if st["op"] in ("commit", "upgrade") and ok(resp):
            for o in objs:
                fails += self.dedup(os.path.join(root, o), st["op"])
        return fails

    def dedup(self, oroot, op):
        inv = json.load(open(os.path.join(oroot, "inventory.json")))
        head = inv["head"]
        alg = inv["digestAlgorithm"]
        new, old = {}, set()
        for dg, paths in inv["manifest"].items():
            for p in paths:
                (new.setdefault(dg, []) if p.startswith(head + "/") else old.add(dg))
                if p.startswith(head + "/"):
                    new[dg].append(p)
        out = []
        for dg, ps in new.items():
            if len(ps) > 1:
                out.append("after `%s`: version %s stores %d copies of one digest: %s" % (op, head, len(ps), ps))
            if dg in old:
                out.append("after `%s`: version %s stores content the object already held: %s" % (op, head, ps))
        return out


class StagedView(Oracle):
    """C09: every staged path is readable with the listed bytes; no path is both file and directory;
    rm / reset of a literal path have their documented effect; a partially failing cp/mv leaves a
    readable, committable staged object."""
    name = "staged-view"

    def __init__(self, contents):
        self.contents = contents
        self.checks = 0
        self.prev = {}

    def view(self, ctx, oid):
        r = ctx.live.ask("staged %s" % hx(oid))
        return jbody(r) if ok(r) else None

    def before(self, ctx, st):
        oid = oid_of(st)
        if st["kind"] == "mut" and oid:
            self.prev[oid] = self.view(ctx, oid)

    def after(self, ctx, st, resp):
        oid = oid_of(st)
        if st["kind"] != "mut" or not oid or st["op"] in ("purge", "resetall"):
            return []
        r0 = ctx.live.ask("staged %s" % hx(oid))
        if not ok(r0):
            if r0.startswith("err:notFound"):
                return []
            return ["after `%s` (%s) the staged object can no longer be opened: %s" % (
                st["op"], resp.split(" ")[0], unhx(r0.split(" ")[1]).decode("utf8", "replace")[:200] if " " in r0 else r0)]
        v = jbody(r0)
        self.checks += 1
        fails = []
        alg = v["alg"]
        paths = sorted(v["state"])
        pset = set(paths)
        for p in paths:
            parts = p.split("/")
            for i in range(1, len(parts)):
                if "/".join(parts[:i]) in pset:
                    fails.append("after `%s`: %r is a file and a directory in the staged view (%r)" % (st["op"], "/".join(parts[:i]), p))
            r = ctx.live.ask("cat %s S %s" % (hx(oid), hx(p)))
            if not ok(r):
                fails.append("after `%s` (%s): staged path %r is listed but not readable: %s" % (st["op"], resp.split(" ")[0], p, r.split(" ")[0]))
                continue
            s256 = r.split(" ")[1].split(":")[0]
            b = self.contents.get(s256)
            if b is None:
                fails.append("after `%s`: staged path %r returns bytes that were never ingested" % (st["op"], p))
            elif hashlib.new(alg, b).hexdigest() != v["state"][p][0]:
                fails.append("after `%s`: staged path %r returns bytes whose %s digest differs from the listed digest" % (st["op"], p, alg))
        # documented effects on literal paths
        toks = st["h"].split(" ")
        if ok(resp) and st["op"] in ("rm", "resetp") and toks[2] == "0":
            lits = [unhx(t).decode() for t in toks[3:]]
            lits = [l.strip("/") for l in lits if not re.search(r"[*?\[\]{}\\]", l) and l.strip("/") and not l.endswith("/")]
            if st["op"] == "rm":
                for l in lits:
                    if l in pset:
                        fails.append("after `rm %s`: path still in the staged view" % l)
            else:
                r = ctx.live.ask("ver %s -" % hx(oid))
                base = jbody(r)["state"] if ok(r) else {}
                for l in lits:
                    a = v["state"].get(l, [None])[0]
                    b = base.get(l, [None])[0]
                    if a != b:
                        fails.append("after `reset %s`: staged entry %s differs from the previous version's %s" % (l, a, b))
        return fails


class ReadForever(Oracle):
    """C02: a committed version lists exactly the staged paths with the digests of the ingested bytes,
    reads return those bytes, and the answers never change afterwards."""
    name = "read-forever"

    def __init__(self, contents):
        self.contents = contents
        self.records = {}      # (id, version) -> {path: (digest, sha256 of bytes)}
        self.staged_before = {}
        self.checks = 0

    def before(self, ctx, st):
        oid = oid_of(st)
        if st["op"] in ("commit", "upgrade") and oid:
            r = ctx.live.ask("staged %s" % hx(oid))
            self.staged_before[oid] = jbody(r) if ok(r) else None

    def listing(self, ctx, oid, v):
        r = ctx.live.ask("ver %s %s" % (hx(oid), v))
        return jbody(r) if ok(r) else None

    def after(self, ctx, st, resp):
        oid = oid_of(st)
        fails = []
        if st["op"] == "purge" and ok(resp):
            for k in [k for k in self.records if k[0] == oid]:
                del self.records[k]
            return []
        if st["op"] in ("commit", "upgrade") and ok(resp) and oid:
            cur = self.listing(ctx, oid, "-")
            if cur is None:
                return ["after `%s` ok: the committed head cannot be opened" % st["op"]]
            v = cur["version"]["v"]
            alg = cur["alg"]
            before = self.staged_before.get(oid)
            if before is not None and st["op"] == "commit":
                want = {p: d[0] for p, d in before["state"].items()}
                got = {p: d[0] for p, d in cur["state"].items()}
                if want != got:
                    fails.append("version %s of %s does not list the staged state at commit: staged-only %s committed-only %s" % (
                        v, oid, sorted(set(want.items()) - set(got.items()))[:3], sorted(set(got.items()) - set(want.items()))[:3]))
            rec = {}
            for p, d in cur["state"].items():
                r = ctx.live.ask("cat %s %s %s" % (hx(oid), v, hx(p)))
                if not ok(r):
                    fails.append("path %r of committed version %s is not readable: %s" % (p, v, r.split(" ")[0]))
                    continue
                s256 = r.split(" ")[1].split(":")[0]
                b = self.contents.get(s256)
                if b is None or hashlib.new(alg, b).hexdigest() != d[0]:
                    fails.append("path %r of version %s returns bytes that do not match the listed %s digest" % (p, v, alg))
                rec[p] = (d[0], s256)
            self.records[(oid, v)] = rec
            self.checks += 1
        if st["kind"] == "mut":
            # forever: re-read everything recorded so far
            for (o, v), rec in list(self.records.items()):
                cur = self.listing(ctx, o, v)
                if cur is None:
                    fails.append("after `%s` on %s: version %s of %s can no longer be opened" % (st["op"], oid, v, o))
                    continue
                got = {p: d[0] for p, d in cur["state"].items()}
                if got != {p: x[0] for p, x in rec.items()}:
                    fails.append("after `%s` on %s: the listing of %s %s changed" % (st["op"], oid, o, v))
                for p, (dg, s256) in list(rec.items())[:6]:
                    r = ctx.live.ask("cat %s %s %s" % (hx(o), v, hx(p)))
                    if not ok(r) or r.split(" ")[1].split(":")[0] != s256:
                        fails.append("after `%s` on %s: reading %r at %s %s no longer returns the ingested bytes (%s)" % (st["op"], oid, p, o, v, r[:40]))
                self.checks += 1
        return fails


class Isolation(Oracle):
    """C08: staging operations leave every byte of the main repository untouched; reads answer the same
    with and without staged changes; an operation on one object leaves every other object's stored and
    staged form alone; reset --all and purge remove exactly what they name."""
    name = "isolation"

    def __init__(self, ext_staging):
        self.ext = ext_staging
        self.checks = 0
        self.snap = None

    def roots(self, ctx):
        root = os.path.join(ctx.dir, "root")
        staging = os.path.join(ctx.dir, "staging") if self.ext else os.path.join(root, "extensions", "rocfl-staging")
        return root, staging

    def main_snapshot(self, ctx):
        root, _ = self.roots(ctx)
        s = snapshot(root, exclude=() if self.ext else ("extensions/rocfl-staging",))
        # the `extensions` directory node itself is where the default staging area is rooted
        if not self.ext and s.get("extensions") == "d":
            del s["extensions"]
        return s

    def reads(self, ctx, oid):
        return [ctx.live.ask(q) for q in ("ver %s -" % hx(oid), "log %s" % hx(oid), "validate %s 0" % hx(oid),
                                          "diff %s - v1" % hx(oid), "ls -")]

    def before(self, ctx, st):
        self.snap = None
        oid = oid_of(st)
        if st["kind"] != "mut" or not oid:
            return
        root, staging = self.roots(ctx)
        self.snap = dict(main=self.main_snapshot(ctx),
                         staging=snapshot(staging) if os.path.isdir(staging) else {},
                         reads=self.reads(ctx, oid) if st["op"] in STAGING_OPS else None,
                         objroot=self.objroot(ctx, oid))

    def objroot(self, ctx, oid):
        r = ctx.live.ask("ver %s -" % hx(oid))
        if ok(r):
            return jbody(r)["root"].replace("$D/root/", "")
        return None

    def after(self, ctx, st, resp):
        if self.snap is None:
            return []
        oid = oid_of(st)
        self.checks += 1
        fails = []
        root, staging = self.roots(ctx)
        main_after = self.main_snapshot(ctx)
        op = st["op"]
        if op in STAGING_OPS:
            if main_after != self.snap["main"]:
                d = sorted(set(main_after.items()) ^ set(self.snap["main"].items()))[:4]
                fails.append("staging operation `%s` changed the main repository: %s" % (op, d))
            r2 = self.reads(ctx, oid)
            if r2 != self.snap["reads"]:
                for a, b in zip(self.snap["reads"], r2):
                    if a != b:
                        fails.append("a read of committed data answers differently after staging `%s`: %s -> %s" % (op, a[:120], b[:120]))
                        break
        else:
            # commit / upgrade / purge: everything outside the object's root must be unchanged
            oroot = self.snap["objroot"] or self.objroot(ctx, oid)
            def outside(s):
                return {k: v for k, v in s.items() if v != "d" and not (oroot and (k == oroot or k.startswith(oroot + "/")))}
            if oroot is not None or op == "purge":
                a, b = outside(self.snap["main"]), outside(main_after)
                if a != b:
                    fails.append("`%s` of %s changed files outside the object's root: %s" % (op, oid, sorted(set(a.items()) ^ set(b.items()))[:4]))
        # other objects' staged form
        sd = staged_dir_of(oid)
        st_after = snapshot(staging) if os.path.isdir(staging) else {}
        objdir = re.compile(r"^[0-9a-f]{3}/[0-9a-f]{3}/[0-9a-f]{3}/[0-9a-f]{64}(/|$)")

        def others(s):
            return {k: v for k, v in s.items() if v != "d" and objdir.match(k) and not (k == sd or k.startswith(sd + "/"))}
        if others(st_after) != others(self.snap["staging"]):
            fails.append("`%s` on %s changed the staged form of another object: %s" % (
                op, oid, sorted(set(others(st_after).items()) ^ set(others(self.snap["staging"]).items()))[:4]))
        if op in ("resetall", "purge") and ok(resp):
            left = [k for k in st_after if k == sd or k.startswith(sd + "/")]
            if left:
                fails.append("`%s` left traces of the staged version: %s" % (op, left[:4]))
            if ok(ctx.live.ask("staged %s" % hx(oid))):
                fails.append("`%s`: the object still has a staged version" % op)
        if op == "purge" and ok(resp):
            if self.snap["objroot"] and any(k == self.snap["objroot"] or k.startswith(self.snap["objroot"] + "/") for k in main_after):
                fails.append("purge left parts of the object behind")
        locks = [k for k in st_after if "rocfl-locks/" in k]
        if locks:
            fails.append("lock file left behind after `%s`: %s" % (op, locks))
        return fails


class VersionAdvance(Oracle):
    """C14: a successful commit creates exactly the next version number with the same padding; a failed
    one leaves the head (and every byte of the main repository) unchanged."""
    name = "version-advance"

    def __init__(self):
        self.checks = 0
        self.head = None
        self.main = None
        self.client = 0
        self.incarnation = {}     # object id -> number of purges so far
        self.base = {}            # (client, object id) -> incarnation the client's staged version was created on
        self.pre_staged = None

    def main_head(self, ctx, oid):
        r = ctx.live.ask("heads %s" % hx(oid))
        m = re.search(r"main=(\S+) staged=(\S+)", r)
        return (m.group(1), m.group(2)) if m else ("-", "-")

    def before(self, ctx, st):
        oid = oid_of(st)
        self.head = None
        self.pre_main, self.pre_staged = self.main_head(ctx, oid) if (st.get("kind") == "mut" and oid) else (None, None)
        if st["op"] in ("commit", "upgrade") and oid:
            self.head = self.main_head(ctx, oid)
            self.main = snapshot(os.path.join(ctx.dir, "root"), exclude=("extensions/rocfl-staging",))
            # the logical states of every committed version, as the repository answers them now
            self.earlier = {}
            m = re.match(r"v0*(\d+)$", self.head[0])
            for k in range(1, (int(m.group(1)) if m else 0) + 1):
                r = ctx.live.ask("ver %s v%d" % (hx(oid), k))
                if r.startswith("ok "):
                    self.earlier[k] = {p: v[0] for p, v in json.loads(r[3:])["state"].items()}

    def track(self, ctx, st, resp):
        """which incarnation of the object (purges so far) each client's staged version was created on"""
        oid = oid_of(st)
        stale = False
        if st["op"] == "client":
            self.client = int(st["h"].split(" ")[1])
            return False
        if st["op"] in ("reset", "init"):
            self.client, self.incarnation, self.base = 0, {}, {}
            return False
        if st.get("kind") != "mut" or not oid:
            return False
        key = (self.client, oid)
        inc = self.incarnation.get(oid, 0)
        if st["op"] in ("commit", "upgrade") and ok(resp):
            stale = self.base.get(key) is not None and self.base[key] != inc
        if st["op"] == "purge" and ok(resp) and self.pre_main != "-":
            # a committed object was removed: whatever is staged on it elsewhere has lost its base
            self.incarnation[oid] = inc + 1
        post = self.main_head(ctx, oid)[1]
        if post == "-":
            self.base.pop(key, None)
        elif self.pre_staged == "-":
            # a version staged on a committed object depends on that object; a staged new object depends on nothing
            self.base[key] = self.incarnation.get(oid, 0) if self.pre_main != "-" else None
        return stale

    def after(self, ctx, st, resp):
        stale = self.track(ctx, st, resp)
        if self.head is None:
            return []
        oid = oid_of(st)
        self.checks += 1
        if stale:
            return ["`%s` succeeded although the version had been staged on an object that was purged (and created again) in the meantime" % st["op"]]
        before_main, before_staged = self.head
        after_main, after_staged = self.main_head(ctx, oid)
        fails = []
        num = lambda v: int(v[1:]) if v != "-" else 0
        if ok(resp):
            if num(after_main) != num(before_main) + 1:
                fails.append("commit ok but the head went from %s to %s" % (before_main, after_main))
            if before_main != "-" and len(before_main) != len(after_main) and before_main.startswith("v0"):
                fails.append("commit changed the zero-padding width: %s -> %s" % (before_main, after_main))
            if before_staged != "-" and after_main != before_staged:
                fails.append("the committed head %s is not the staged version %s" % (after_main, before_staged))
            if after_main.startswith("v0") and not after_main[1:].startswith("0"):
                fails.append("padded version lost its leading zero: %s" % after_main)
            # no committed version is overwritten or silently merged: every earlier version still answers the same state
            for k, state in getattr(self, "earlier", {}).items():
                r = ctx.live.ask("ver %s v%d" % (hx(oid), k))
                now = {p: v[0] for p, v in json.loads(r[3:])["state"].items()} if r.startswith("ok ") else r.split(" ")[0]
                if now != state:
                    fails.append("after the commit version v%d of the object no longer has the state it had before" % k)
                    break
        else:
            if after_main != before_main:
                fails.append("commit failed (%s) but the head moved from %s to %s" % (resp.split(" ")[0], before_main, after_main))
            now = snapshot(os.path.join(ctx.dir, "root"), exclude=("extensions/rocfl-staging",))
            # the `extensions` directory is the parent of the internal staging area and appears with it
            now.pop("extensions", None)
            self.main.pop("extensions", None)
            if now != self.main:
                fails.append("commit failed (%s) but the main repository changed: %s" % (
                    resp.split(" ")[0], sorted(set(now.items()) ^ set(self.main.items()))[:4]))
        return fails


class TrueHistory(Oracle):
    """C18: diff, log, file log and the last-update attribution judged against a set-based
    specification computed from the version states (path -> digest) of the object."""
    name = "true-history"

    def __init__(self):
        self.checks = 0
        self.metas = {}     # id -> list of commit metas in order

    @staticmethod
    def spec_diff(L, R):
        """set specification: returns the canonical item list"""
        items = []
        for p in set(L) & set(R):
            if L[p] != R[p]:
                items.append(("M", p))
        lo = {p: d for p, d in L.items() if p not in R}
        ro = {p: d for p, d in R.items() if p not in L}
        for d in set(lo.values()) | set(ro.values()):
            orig = sorted(p for p, x in lo.items() if x == d)
            ren = sorted(p for p, x in ro.items() if x == d)
            if orig and ren:
                items.append(("R", tuple(orig), tuple(ren)))
            else:
                items += [("D", p) for p in orig] + [("A", p) for p in ren]
        return sorted(items, key=repr)

    @staticmethod
    def canon(resp):
        out = []
        for it in jbody(resp):
            if it[0] == "R":
                out.append(("R", tuple(it[1]), tuple(it[2])))
            else:
                out.append((it[0], it[1]))
        return sorted(out, key=repr)

    def after(self, ctx, st, resp):
        oid = oid_of(st)
        if st["op"] == "purge" and ok(resp):
            self.metas.pop(oid, None)
            return []
        if st["op"] not in ("commit", "upgrade") or not ok(resp) or not oid:
            return []
        m = st.get("meta", {})
        if st["op"] == "commit":
            self.metas.setdefault(oid, []).append((m.get("user"), m.get("addr"), m.get("msg"), m.get("created")))
        else:
            self.metas.setdefault(oid, []).append(("me", None, "upgrade", None))
        fails = []
        self.checks += 1
        r = ctx.live.ask("heads %s" % hx(oid))
        mm = re.search(r"main=v0*(\d+)", r)
        if not mm:
            return ["after a successful `%s` the object cannot be opened: %s" % (st["op"], r[:160])]
        n = int(mm.group(1))
        states, lastup = {}, {}
        for k in range(1, n + 1):
            v = jbody(ctx.live.ask("ver %s v%d" % (hx(oid), k)))
            states[k] = {p: x[0] for p, x in v["state"].items()}
            lastup[k] = {p: int(x[2][1:]) for p, x in v["state"].items()}
        # diff for every ordered pair, and against the preceding version
        for a in range(1, n + 1):
            for b in range(1, n + 1):
                r = ctx.live.ask("diff %s v%d v%d" % (hx(oid), a, b))
                want = [] if a == b else self.spec_diff(states[a], states[b])
                if not ok(r) or self.canon(r) != want:
                    fails.append("diff v%d v%d of %s: reported %s, the states differ by %s" % (a, b, oid, r[:300], want))
                # the report must describe each path at most once
                if ok(r):
                    seen = []
                    for it in self.canon(r):
                        seen += list(it[1]) + list(it[2]) if it[0] == "R" else [it[1]]
                    if len(seen) != len(set(seen)):
                        fails.append("diff v%d v%d of %s mentions a path twice: %s" % (a, b, oid, r[:200]))
        for b in range(1, n + 1):
            r = ctx.live.ask("diff %s - v%d" % (hx(oid), b))
            want = self.spec_diff(states[b - 1] if b > 1 else {}, states[b])
            if not ok(r) or self.canon(r) != want:
                fails.append("show v%d of %s: reported %s, expected the diff against v%d: %s" % (b, oid, r[:300], b - 1, want))
        # log
        r = ctx.live.ask("log %s" % hx(oid))
        lg = jbody(r) if ok(r) else None
        metas = self.metas.get(oid, [])
        if lg is None or [int(x["v"][1:]) for x in lg] != list(range(1, n + 1)):
            fails.append("log of %s does not list v1..v%d in order: %s" % (oid, n, r[:200]))
        elif len(metas) == n:
            for x, (u, a, msg, created) in zip(lg, metas):
                if (x["user"], x["addr"] if u else None, x["msg"]) != (u, a if u else None, msg) or (created and x["created"] != created):
                    fails.append("log entry %s of %s shows %s, committed with %s" % (x["v"], oid, x, (u, a, msg, created)))
        # file log and last update
        allp = set().union(*[set(s) for s in states.values()]) if states else set()
        for p in sorted(allp):
            want, cur = [], None
            for k in range(1, n + 1):
                d = states[k].get(p)
                if d != cur:
                    want.append(k)
                    cur = d
            r = ctx.live.ask("flog %s %s" % (hx(oid), hx(p)))
            got = [int(v[1:]) for v in jbody(r)] if ok(r) else None
            if got != want:
                fails.append("file log of %r in %s: %s, the path appeared/changed/disappeared in %s" % (p, oid, got, want))
            for k in range(1, n + 1):
                if p in states[k]:
                    j = k
                    while j > 1 and states[j - 1].get(p) == states[k][p]:
                        j -= 1
                    if lastup[k][p] != j:
                        fails.append("ls -l of %s v%d attributes %r to v%d, it last changed in v%d" % (oid, k, p, lastup[k][p], j))
        return fails


class ReadBack(Oracle):
    """C10: every string rocfl accepted is in inventory.json exactly as accepted — as read by Python's
    json (a conforming parser) and as read by rocfl itself — and no accepted staging operation leaves
    an object that later commands cannot open or list."""
    name = "read-back"

    def __init__(self):
        self.checks = 0
        self.cdir = {}

    def after(self, ctx, st, resp):
        oid = oid_of(st)
        if st["kind"] != "mut" or not oid:
            return []
        fails = []
        op = st["op"]
        if op == "new" and ok(resp):
            if "cdir" in st.get("meta", {}):
                self.cdir[oid] = st["meta"]["cdir"]
            else:
                self.cdir.pop(oid, None)
        if op == "purge":
            self.cdir.pop(oid, None)
        accepted = ok(resp) or resp.startswith("err:copyMoveErrors")
        r = ctx.live.ask("staged %s" % hx(oid))
        if not ok(r) and not r.startswith("err:notFound"):
            fails.append("after `%s` (%s) the staged object can no longer be opened: %s" % (op, resp.split(" ")[0], unhx(r.split(" ")[1]).decode("utf8", "replace") if " " in r else r))
        for q in ("ls -", "lsstaged -"):
            l = ctx.live.ask(q)
            if not ok(l) or jbody(l)["errors"]:
                fails.append("after `%s` (%s) `%s` reports errors: %s" % (op, resp.split(" ")[0], q, l[:200]))
        if op in ("commit", "upgrade") and ok(resp):
            m = ctx.live.ask("ver %s -" % hx(oid))
            if not ok(m):
                fails.append("after `%s` ok the committed object cannot be opened: %s" % (op, m[:200]))
            for q in ("validate %s 0" % hx(oid),):
                pass
        if ok(r):
            self.checks += 1
            v = jbody(r)
            p = v["root"].replace("$D", ctx.dir)
            try:
                inv = json.loads(open(os.path.join(p, "inventory.json"), "rb").read().decode("utf-8"))
            except Exception as e:
                return fails + ["after `%s`: the staged inventory.json is not valid JSON for a conforming parser: %s" % (op, e)]
            if inv.get("id") != oid:
                fails.append("inventory id %r is not the accepted id %r" % (inv.get("id"), oid))
            if v["id"] != oid:
                fails.append("rocfl reads the id back as %r, accepted was %r" % (v["id"], oid))
            if oid in self.cdir and inv.get("contentDirectory", "content") != self.cdir[oid]:
                fails.append("contentDirectory %r is not the accepted %r" % (inv.get("contentDirectory"), self.cdir[oid]))
            head = inv["versions"][inv["head"]]
            mine = sorted(pp for ps in head["state"].values() for pp in ps)
            if mine != sorted(v["state"]):
                fails.append("logical paths as a JSON parser reads them %s differ from what rocfl reads back %s" % (mine[:5], sorted(v["state"])[:5]))
            # a single external file copied to an explicit new name must appear under exactly that name
            if accepted and op == "cpx" and ok(resp):
                t = st["h"].split(" ")
                srcs, dst = t[4:], unhx(t[3]).decode()
                if len(srcs) == 1 and dst.strip("/") and not dst.endswith("/"):
                    srcp = os.path.join(ctx.dir, "src", unhx(srcs[0]).decode())
                    want = dst.strip("/")
                    if os.path.isfile(srcp) and want not in v["state"] and not any(k.startswith(want + "/") for k in v["state"]):
                        fails.append("cp to %r was accepted but the staged view has no such path: %s" % (want, sorted(v["state"])[:6]))
        return fails


class BadGlob(ValueError):
    pass


def _glob_rx(gb, inside=False):
    """globset 0.4 syntax (literal_separator = false, backslash_escape = true) -> regex over bytes:
    * ? \\x [..] [!..] {a,b}; raises BadGlob for what globset rejects"""
    out, i = b"", 0
    while i < len(gb):
        c = gb[i:i + 1]
        if c == b"*":
            out += b".*"
        elif c == b"?":
            out += b"."
        elif c == b"\\":
            if i + 1 >= len(gb):
                raise BadGlob("dangling escape")
            i += 1
            out += re.escape(gb[i:i + 1])
        elif c == b"[":
            j = i + 1
            neg = gb[j:j + 1] in (b"!", b"^")
            if neg:
                j += 1
            ranges, first, in_range = [], True, False
            while True:
                if j >= len(gb):
                    raise BadGlob("unclosed class")
                ch = gb[j:j + 1]
                j += 1
                if ch == b"]":
                    if first:
                        ranges.append([b"]", b"]"])
                    else:
                        break
                elif ch == b"-":
                    if first:
                        ranges.append([b"-", b"-"])
                    elif in_range:
                        ranges[-1][1] = b"-"
                        if ranges[-1][1] < ranges[-1][0]:
                            raise BadGlob("invalid range")
                        in_range = False
                    else:
                        in_range = True
                else:
                    if in_range:
                        ranges[-1][1] = ch
                        if ranges[-1][1] < ranges[-1][0]:
                            raise BadGlob("invalid range")
                    else:
                        ranges.append([ch, ch])
                    in_range = False
                first = False
            if in_range:
                ranges.append([b"-", b"-"])
            out += b"[" + (b"^" if neg else b"") + b"".join(re.escape(a) + (b"-" + re.escape(b) if a != b else b"") for a, b in ranges) + b"]"
            i = j - 1
        elif c == b"{":
            if inside:
                raise BadGlob("nested alternates")
            j = i + 1
            depth_end = None
            k = j
            while k < len(gb):
                if gb[k:k + 1] == b"\\":
                    k += 2; continue
                if gb[k:k + 1] == b"[":
                    # skip the class
                    kk = gb.find(b"]", k + 2)
                    if kk < 0:
                        raise BadGlob("unclosed class")
                    k = kk + 1; continue
                if gb[k:k + 1] == b"{":
                    raise BadGlob("nested alternates")
                if gb[k:k + 1] == b"}":
                    depth_end = k; break
                k += 1
            if depth_end is None:
                raise BadGlob("unclosed alternates")
            body = gb[j:depth_end]
            alts, cur, k = [], b"", 0
            while k < len(body):
                if body[k:k + 1] == b"\\":
                    cur += body[k:k + 2]; k += 2; continue
                if body[k:k + 1] == b",":
                    alts.append(cur); cur = b""
                else:
                    cur += body[k:k + 1]
                k += 1
            alts.append(cur)
            parts = [_glob_rx(a, inside=True) for a in alts if a != b""]
            if parts:
                out += b"(?:" + b"|".join(parts) + b")"
            i = depth_end
        elif c == b"}":
            pass          # nothing open: an empty group
        else:
            out += re.escape(c)
        i += 1
    return out


def glob_to_re(g):
    """globset matches bytes"""
    rx = re.compile(b"^" + _glob_rx(g.encode("utf-8")) + b"$", re.S)

    class M:
        @staticmethod
        def match(x):
            return rx.match(x.encode("utf-8"))
    return M


class Listing(Oracle):
    """C19: `ls` returns every committed object exactly once (with a glob: exactly the matching ids),
    never a staged-only object; every committed id can be opened, a never-committed or purged id is
    not found; the staged listing is exactly the set of objects with a staged version."""
    name = "listing"

    def __init__(self):
        self.checks = 0
        self.committed = {}     # id -> head number
        self.staged_by = {0: set()}     # every client has its own staging area
        self.client = 0

    @property
    def staged(self):
        return self.staged_by.setdefault(self.client, set())

    def after(self, ctx, st, resp):
        oid = oid_of(st)
        op = st["op"]
        if op == "client":
            self.client = int(st["h"].split(" ")[1])
            return []
        if op == "reset":
            self.staged_by, self.client = {0: set()}, 0
        if st["kind"] == "mut" and oid:
            o = resp.split(" ")[0]
            if op == "new":
                if o == "ok":
                    self.staged.add(oid)
            elif op in ("commit", "upgrade"):
                if o == "ok":
                    self.staged.discard(oid)
                    self.committed[oid] = self.committed.get(oid, 0) + 1
                elif op == "upgrade" and o != "err:notFound" and (oid in self.committed or oid in self.staged):
                    self.staged.add(oid)
            elif op == "purge":
                if o == "ok":
                    self.committed.pop(oid, None)
                    self.staged.discard(oid)
            elif op == "resetall":
                if o == "ok":
                    self.staged.discard(oid)
            elif op in ("cpx", "mvx", "cpi", "mvi", "rm"):
                # get_or_created_staged_inventory runs before anything can fail for another reason
                # … except that the staged version cannot be created at all once the zero-padding width is exhausted
                # (`VersionNum::next` refuses: illegalState)
                if oid in self.committed and not (o == "err:illegalState" and oid not in self.staged):
                    self.staged.add(oid)
        if op in ("ls", "lsstaged"):
            # a listing requested by the history itself (any glob syntax): exactly the matching ids
            garg = st["h"].split(" ")[1]
            pool = self.committed if op == "ls" else self.staged
            if garg == "-":
                want = sorted(pool)
            else:
                g = unhx(garg).decode("utf-8")
                try:
                    rx = glob_to_re(g)
                    want = sorted(x for x in pool if rx.match(x))
                except BadGlob:
                    self.checks += 1
                    return [] if not ok(resp) else ["`%s %r` succeeded although the pattern is malformed" % (op, g)]
                except re.error:
                    return []
            self.checks += 1
            if not ok(resp):
                return ["`%s %r` failed: %s" % (op, garg if garg == "-" else g, resp[:100])]
            got = sorted(x[0] for x in jbody(resp)["objects"])
            if got != want:
                return ["`%s %r` lists %s, the ids matching are %s" % (op, "-" if garg == "-" else g, got, want)]
            return []
        if st["kind"] != "mut":
            return []
        self.checks += 1
        fails = []
        for q, want in (("ls -", self.committed), ("lsstaged -", self.staged)):
            r = ctx.live.ask(q)
            if not ok(r):
                fails.append("`%s` failed: %s" % (q, r[:100])); continue
            j = jbody(r)
            got = [x[0] for x in j["objects"]]
            if j["errors"]:
                fails.append("`%s` met %d errors" % (q, j["errors"]))
            if sorted(got) != sorted(want):
                fails.append("after `%s` (%s) `%s` lists %s, expected exactly %s" % (op, resp.split(" ")[0], q, sorted(got), sorted(want)))
        for i in set(self.committed) | ({oid} if oid else set()):
            r = ctx.live.ask("ver %s -" % hx(i))
            if i in self.committed and not ok(r):
                fails.append("committed object %r cannot be opened: %s" % (i, r[:120]))
            if i not in self.committed and not r.startswith("err:notFound"):
                fails.append("object %r was never committed / was purged but opening it says: %s" % (i, r[:120]))
        if self.committed:
            import random as _r
            i = sorted(self.committed)[self.checks % len(self.committed)]
            for g in (i[: max(1, len(i) // 2)] + "*", "*" + i[len(i) // 2:], "*"):
                if any(c in g.replace("*", "") for c in "*?[]{}\\"):
                    continue
                r = ctx.live.ask("ls %s" % hx(g))
                want = sorted(x for x in self.committed if glob_to_re(g).match(x))
                got = sorted(x[0] for x in jbody(r)["objects"]) if ok(r) else None
                if got != want:
                    fails.append("`ls %r` lists %s, the committed ids matching are %s" % (g, got, want))
        return fails
