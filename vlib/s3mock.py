"""An in-process HTTP stand-in for the part of the S3 REST API rocfl uses (path-style addressing):
ListObjectsV2 (prefix, delimiter, continuation token, server-side page size), GetObject, PutObject,
DeleteObject, Create/UploadPart/Complete/AbortMultipartUpload.  It keeps an ordered request log, and can
fail the n-th matching request with HTTP 500 or by dropping the connection.

It is my reading of the S3 API reference, not Amazon's implementation: keys are listed in UTF-8 byte
order, common prefixes count towards the page size, parts other than the last must be >= 5 MiB."""
import hashlib, os, re, shutil, ssl, subprocess, tempfile, threading, urllib.parse
from http.server import BaseHTTPRequestHandler, ThreadingHTTPServer
from xml.sax.saxutils import escape

MIN_PART = 5 * 1024 * 1024


class State:
    def __init__(self):
        self.lock = threading.Lock()
        self.objects = {}        # (bucket, key) -> bytes
        self.uploads = {}        # upload id -> dict(bucket, key, parts {n: bytes})
        self.page_size = 1000
        self.log = []            # (method, kind, bucket, key/prefix)
        self.fault = None        # dict(n=remaining, mode='500'|'drop', match=callable)
        self.next_upload = 0
        self.counter = 0

    def dump(self, bucket):
        with self.lock:
            return {k: v for (b, k), v in self.objects.items() if b == bucket}

    def set_fault(self, n, mode="500", kinds=None):
        """fail the n-th (1-based) request from now on whose kind is in `kinds` (None = any mutating or read request)"""
        with self.lock:
            self.fault = dict(n=n, mode=mode, kinds=kinds)

    def clear_fault(self):
        with self.lock:
            self.fault = None

    def take_log(self):
        with self.lock:
            l, self.log = self.log, []
            return l


def xml_error(code, msg="x"):
    return ('<?xml version="1.0" encoding="UTF-8"?><Error><Code>%s</Code><Message>%s</Message><RequestId>1</RequestId></Error>' % (code, msg)).encode()


class Handler(BaseHTTPRequestHandler):
    protocol_version = "HTTP/1.1"
    state = None

    def log_message(self, *a):
        pass

    def _body(self):
        te = self.headers.get("Transfer-Encoding", "")
        if "chunked" in te.lower():
            out = b""
            while True:
                line = self.rfile.readline().strip()
                n = int(line.split(b";")[0], 16)
                if n == 0:
                    self.rfile.readline()
                    break
                out += self.rfile.read(n)
                self.rfile.readline()
            return out
        n = int(self.headers.get("Content-Length", "0") or 0)
        return self.rfile.read(n) if n else b""

    def _send(self, status, body=b"", headers=None, ctype="application/xml"):
        self.send_response(status)
        self.send_header("Content-Length", str(len(body)))
        if body:
            self.send_header("Content-Type", ctype)
        for k, v in (headers or {}).items():
            self.send_header(k, v)
        self.end_headers()
        if body and self.command != "HEAD":
            self.wfile.write(body)

    def _route(self):
        u = urllib.parse.urlsplit(self.path)
        q = urllib.parse.parse_qs(u.query, keep_blank_values=True)
        path = urllib.parse.unquote(u.path)
        parts = path.lstrip("/").split("/", 1)
        bucket = parts[0]
        key = parts[1] if len(parts) > 1 else ""
        return bucket, key, q

    def _kind(self, bucket, key, q):
        m = self.command
        if m == "GET" and key == "" and "list-type" in q:
            return "LIST"
        if m == "GET":
            return "GET"
        if m == "PUT" and "partNumber" in q:
            return "UPLOAD_PART"
        if m == "PUT":
            return "PUT"
        if m == "POST" and "uploads" in q:
            return "CREATE_MPU"
        if m == "POST" and "uploadId" in q:
            return "COMPLETE_MPU"
        if m == "DELETE" and "uploadId" in q:
            return "ABORT_MPU"
        if m == "DELETE":
            return "DELETE"
        return m

    def _handle(self):
        st = self.state
        bucket, key, q = self._route()
        kind = self._kind(bucket, key, q)
        body = self._body() if self.command in ("PUT", "POST") else b""
        with st.lock:
            st.counter += 1
            what = key if kind != "LIST" else "prefix=%s delim=%s" % (q.get("prefix", [""])[0], q.get("delimiter", [""])[0])
            entry = [kind, bucket, what, "ok", len(body)]
            st.log.append(entry)
            f = st.fault
            if f and (f["kinds"] is None or kind in f["kinds"]):
                f["n"] -= 1
                if f["n"] == 0:
                    st.fault = None
                    entry[3] = "FAULT-" + f["mode"]
                    if f["mode"] == "drop":
                        self.close_connection = True
                        try:
                            self.connection.shutdown(2)
                        except OSError:
                            pass
                        return
                    fail = True
                else:
                    fail = False
            else:
                fail = False
        if fail:
            self._send(500, xml_error("InternalError", "injected"))
            return
        OPS[kind](self, bucket, key, q, body)

    def do_GET(self):
        self._handle()
    do_PUT = do_POST = do_DELETE = do_HEAD = do_GET

    # ---------------------------------------------------------------------------------- operations
    def k_LIST(self, bucket, key, q, body):
        st = self.state
        prefix = q.get("prefix", [""])[0]
        delim = q.get("delimiter", [""])[0]
        token = q.get("continuation-token", [None])[0]
        maxkeys = min(int(q.get("max-keys", ["1000"])[0]), st.page_size)
        with st.lock:
            keys = sorted((k for (b, k) in st.objects if b == bucket and k.startswith(prefix)), key=lambda k: k.encode("utf-8"))
        # entries in listing order: a key, or a common prefix standing for all keys below it
        entries, seen = [], set()
        for k in keys:
            if delim:
                i = k.find(delim, len(prefix))
                if i >= 0:
                    cp = k[:i + len(delim)]
                    if cp not in seen:
                        seen.add(cp)
                        entries.append(("P", cp))
                    continue
            entries.append(("K", k))
        start = 0
        if token is not None:
            marker = urllib.parse.unquote(token)
            start = next((i for i, e in enumerate(entries) if e[1].encode("utf-8") > marker.encode("utf-8")), len(entries))
        page = entries[start:start + maxkeys]
        truncated = start + maxkeys < len(entries)
        out = ['<?xml version="1.0" encoding="UTF-8"?><ListBucketResult xmlns="http://s3.amazonaws.com/doc/2006-03-01/">',
               "<Name>%s</Name><Prefix>%s</Prefix><KeyCount>%d</KeyCount><MaxKeys>%d</MaxKeys><IsTruncated>%s</IsTruncated>" %
               (escape(bucket), escape(prefix), len(page), maxkeys, "true" if truncated else "false")]
        if delim:
            out.append("<Delimiter>%s</Delimiter>" % escape(delim))
        if truncated:
            out.append("<NextContinuationToken>%s</NextContinuationToken>" % escape(urllib.parse.quote(page[-1][1], safe="")))
        for t, v in page:
            if t == "K":
                with st.lock:
                    b = st.objects.get((bucket, v), b"")
                out.append("<Contents><Key>%s</Key><LastModified>2022-01-01T00:00:00.000Z</LastModified><ETag>&quot;%s&quot;</ETag><Size>%d</Size><StorageClass>STANDARD</StorageClass></Contents>" %
                           (escape(v), hashlib.md5(b).hexdigest(), len(b)))
            else:
                out.append("<CommonPrefixes><Prefix>%s</Prefix></CommonPrefixes>" % escape(v))
        out.append("</ListBucketResult>")
        self._send(200, "".join(out).encode("utf-8"))

    def do_GET_obj(self, bucket, key):
        with self.state.lock:
            b = self.state.objects.get((bucket, key))
        if b is None:
            self._send(404, xml_error("NoSuchKey", "The specified key does not exist."))
        else:
            self._send(200, b, {"ETag": '"%s"' % hashlib.md5(b).hexdigest()}, ctype="application/octet-stream")

    def do_PUT_obj(self, bucket, key, body):
        with self.state.lock:
            self.state.objects[(bucket, key)] = body
        self._send(200, b"", {"ETag": '"%s"' % hashlib.md5(body).hexdigest()})


def _get(self, bucket, key, q, body):
    self.do_GET_obj(bucket, key)


def _put(self, bucket, key, q, body):
    self.do_PUT_obj(bucket, key, body)


def _delete(self, bucket, key, q, body):
    with self.state.lock:
        self.state.objects.pop((bucket, key), None)
    self._send(204)


def _create_mpu(self, bucket, key, q, body):
    st = self.state
    with st.lock:
        st.next_upload += 1
        uid = "upload-%d" % st.next_upload
        st.uploads[uid] = dict(bucket=bucket, key=key, parts={})
    self._send(200, ('<?xml version="1.0" encoding="UTF-8"?><InitiateMultipartUploadResult><Bucket>%s</Bucket><Key>%s</Key><UploadId>%s</UploadId></InitiateMultipartUploadResult>' %
                     (escape(bucket), escape(key), uid)).encode())


def _upload_part(self, bucket, key, q, body):
    st = self.state
    uid = q["uploadId"][0]
    with st.lock:
        up = st.uploads.get(uid)
        if up is None:
            ok = False
        else:
            up["parts"][int(q["partNumber"][0])] = body
            ok = True
    if ok:
        self._send(200, b"", {"ETag": '"%s"' % hashlib.md5(body).hexdigest()})
    else:
        self._send(404, xml_error("NoSuchUpload"))


def _complete_mpu(self, bucket, key, q, body):
    st = self.state
    uid = q["uploadId"][0]
    nums = [int(x) for x in re.findall(rb"<PartNumber>(\d+)</PartNumber>", body)]
    with st.lock:
        up = st.uploads.get(uid)
        if up is None:
            res = (404, xml_error("NoSuchUpload"))
        elif nums != sorted(nums) or any(n not in up["parts"] for n in nums) or not nums:
            res = (400, xml_error("InvalidPart"))
        elif any(len(up["parts"][n]) < MIN_PART for n in nums[:-1]):
            res = (400, xml_error("EntityTooSmall"))
        else:
            st.objects[(bucket, key)] = b"".join(up["parts"][n] for n in nums)
            del st.uploads[uid]
            res = (200, ('<?xml version="1.0" encoding="UTF-8"?><CompleteMultipartUploadResult><Bucket>%s</Bucket><Key>%s</Key><ETag>&quot;x&quot;</ETag></CompleteMultipartUploadResult>' %
                         (escape(bucket), escape(key))).encode())
    self._send(*res)


def _abort_mpu(self, bucket, key, q, body):
    with self.state.lock:
        self.state.uploads.pop(q["uploadId"][0], None)
    self._send(204)


OPS = {"LIST": Handler.k_LIST, "GET": _get, "PUT": _put, "DELETE": _delete, "CREATE_MPU": _create_mpu, "UPLOAD_PART": _upload_part,
       "COMPLETE_MPU": _complete_mpu, "ABORT_MPU": _abort_mpu, "HEAD": _get, "POST": _put}


def make_certs(d):
    """a throw-away CA and a leaf certificate for `localhost` (rusoto is built with an https-only
    rustls connector that takes its trust roots from SSL_CERT_FILE)"""
    def run(*a):
        subprocess.run(a, cwd=d, check=True, stdout=subprocess.DEVNULL, stderr=subprocess.DEVNULL)
    run("openssl", "req", "-x509", "-newkey", "rsa:2048", "-nodes", "-keyout", "ca.key", "-out", "ca.pem", "-days", "3", "-subj", "/CN=verif test CA",
        "-addext", "basicConstraints=critical,CA:TRUE", "-addext", "keyUsage=critical,keyCertSign,cRLSign")
    run("openssl", "req", "-newkey", "rsa:2048", "-nodes", "-keyout", "srv.key", "-out", "srv.csr", "-subj", "/CN=localhost")
    open(os.path.join(d, "ext.cnf"), "w").write("subjectAltName=DNS:localhost\nbasicConstraints=CA:FALSE\nkeyUsage=digitalSignature,keyEncipherment\nextendedKeyUsage=serverAuth\n")
    run("openssl", "x509", "-req", "-in", "srv.csr", "-CA", "ca.pem", "-CAkey", "ca.key", "-CAcreateserial", "-out", "srv.pem", "-days", "3", "-extfile", "ext.cnf")


class Server:
    def __init__(self, tls=True):
        self.state = State()
        handler = type("H", (Handler,), {"state": self.state})
        self.httpd = ThreadingHTTPServer(("127.0.0.1", 0), handler)
        self.httpd.daemon_threads = True
        self.port = self.httpd.server_address[1]
        self.tls = tls
        self.certdir = None
        if tls:
            base = os.environ.get("VERIF_TMP") or ("/dev/shm" if os.path.isdir("/dev/shm") else None)
            self.certdir = tempfile.mkdtemp(prefix="rocfl-verif-tls.", dir=base)
            make_certs(self.certdir)
            ctx = ssl.SSLContext(ssl.PROTOCOL_TLS_SERVER)
            ctx.load_cert_chain(os.path.join(self.certdir, "srv.pem"), os.path.join(self.certdir, "srv.key"))
            self.httpd.socket = ctx.wrap_socket(self.httpd.socket, server_side=True)
        self.thread = threading.Thread(target=self.httpd.serve_forever, daemon=True)
        self.thread.start()

    @property
    def endpoint(self):
        return ("https://localhost:%d" if self.tls else "http://127.0.0.1:%d") % self.port

    def client_env(self):
        """environment for the process that talks to this server"""
        e = dict(AWS_ACCESS_KEY_ID="verif", AWS_SECRET_ACCESS_KEY="verif", AWS_EC2_METADATA_DISABLED="true")
        if self.tls:
            e["SSL_CERT_FILE"] = os.path.join(self.certdir, "ca.pem")
        return e

    def close(self):
        self.httpd.shutdown()
        self.httpd.server_close()
        if self.certdir:
            shutil.rmtree(self.certdir, ignore_errors=True)
