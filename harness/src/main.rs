//! Correspondence harness: executes protocol lines against rocfl's public API, in-process.
//! One request per line on stdin, one canonical response line on stdout.
use std::io::{self, BufRead, Write};
use std::panic::{self, AssertUnwindSafe};
use std::str::FromStr;

use rocfl::ocfl::{LayoutExtensionName, StorageLayout};

mod hist;

pub fn unhex(s: &str) -> String {
    if s == "-" {
        return String::new();
    }
    String::from_utf8(hex::decode(s).expect("hex")).expect("utf8")
}

pub fn enhex(s: &str) -> String {
    if s.is_empty() {
        "-".to_string()
    } else {
        hex::encode(s.as_bytes())
    }
}

/// `layout <extension name> <config json hex> <id hex>`
fn do_layout(args: &[&str]) -> String {
    let name = match LayoutExtensionName::from_str(args[0]) {
        Ok(n) => n,
        Err(_) => return "cfg=badname".to_string(),
    };
    let cfg = unhex(args[1]);
    let id = unhex(args[2]);
    let layout = match panic::catch_unwind(AssertUnwindSafe(|| {
        StorageLayout::new(name, Some(cfg.as_bytes()))
    })) {
        Ok(Ok(l)) => l,
        Ok(Err(_)) => return "cfg=invalid".to_string(),
        Err(_) => return "cfg=panic".to_string(),
    };
    let r = panic::catch_unwind(AssertUnwindSafe(|| layout.map_object_id(&id)));
    match r {
        Ok(p) => format!("cfg=ok map=ok:{}", enhex(&p)),
        Err(e) => {
            let msg = if let Some(s) = e.downcast_ref::<String>() {
                s.clone()
            } else if let Some(s) = e.downcast_ref::<&str>() {
                s.to_string()
            } else {
                String::new()
            };
            if msg.contains("cannot be mapped to a storage path") {
                "cfg=ok map=refused".to_string()
            } else {
                "cfg=ok map=panic".to_string()
            }
        }
    }
}

/// `jsonstr <hex>`: what serde_json writes for the string, and whether it reads it back
fn do_jsonstr(args: &[&str]) -> String {
    let s = unhex(args[0]);
    let tok = serde_json::to_string(&s).unwrap();
    let body = &tok[1..tok.len() - 1];
    let back: Result<String, _> = serde_json::from_str(&tok);
    format!("ok {} rt={}", enhex(body), if back.map(|b| b == s).unwrap_or(false) { 1 } else { 0 })
}

/// `jsonparse <hex of a string token body>`
fn do_jsonparse(args: &[&str]) -> String {
    let body = unhex(args[0]);
    match serde_json::from_str::<String>(&format!("\"{}\"", body)) {
        Ok(s) => format!("ok {}", enhex(&s)),
        Err(_) => "err".to_string(),
    }
}

fn main() {
    panic::set_hook(Box::new(|_| {}));
    let stdin = io::stdin();
    let stdout = io::stdout();
    let mut out = stdout.lock();
    let base = std::env::var("VERIF_SCRATCH").map(std::path::PathBuf::from).unwrap_or_else(|_| {
        let d = if std::path::Path::new("/dev/shm").is_dir() { "/dev/shm" } else { "/tmp" };
        std::path::PathBuf::from(format!("{}/rocfl-verif-h.{}", d, std::process::id()))
    });
    let keep = std::env::var("VERIF_KEEP").is_ok();
    let mut h = hist::Hist::new(base.clone());
    for line in stdin.lock().lines() {
        let line = line.unwrap();
        let toks: Vec<&str> = line.split_whitespace().collect();
        if toks.is_empty() {
            continue;
        }
        let resp = match toks[0] {
            "layout" => do_layout(&toks[1..]),
            "jsonstr" => do_jsonstr(&toks[1..]),
            "jsonparse" => do_jsonparse(&toks[1..]),
            op => h.exec(op, &toks[1..]),
        };
        writeln!(out, "{}", resp).unwrap();
        out.flush().unwrap();
    }
    if !keep {
        let _ = std::fs::remove_dir_all(&base);
    }
}
