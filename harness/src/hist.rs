//! `history` mode: executes operation scripts against a real repository in a scratch directory,
//! through rocfl's public API only, and prints one canonical response line per request.
use std::collections::BTreeMap;
use std::fs;
use std::io::Write;
use std::panic::{self, AssertUnwindSafe};
use std::path::{Path, PathBuf};
use std::str::FromStr;

use chrono::{DateTime, Local};
use rocfl::ocfl::{
    CommitMeta, Diff, DigestAlgorithm, InventoryPath, LayoutExtensionName, LogicalPath, OcflRepo,
    RocflError, SpecVersion, StorageLayout, ValidationResult, VersionNum, VersionRef,
};
use serde_json::{json, Value};

use crate::{enhex, unhex};

pub struct Hist {
    base: PathBuf,
    n: usize,
    pub dir: PathBuf,
    repo: Option<OcflRepo>,
    ext_staging: bool,
    client: usize,
}

fn errkind(e: &RocflError) -> String {
    match e {
        RocflError::CorruptObject { .. } => "corrupt".into(),
        RocflError::NotFound(_) => "notFound".into(),
        RocflError::InvalidValue(_) => "invalid".into(),
        RocflError::InvalidConfiguration(_) => "invalidConfig".into(),
        RocflError::IllegalState(_) => "illegalState".into(),
        RocflError::IllegalOperation(_) => "illegalOp".into(),
        RocflError::LockAcquire(_, _) => "lockHeld".into(),
        RocflError::General(_) => "general".into(),
        RocflError::CopyMoveError(m) => format!("copyMoveErrors:{}", m.0.len()),
        RocflError::Closed => "closed".into(),
        RocflError::Io(_) => "io".into(),
        RocflError::Wrapped(_) => "wrapped".into(),
    }
}

fn err(e: &RocflError) -> String {
    let msg = format!("{}", e);
    let msg: String = msg.chars().take(160).collect();
    format!("err:{} {}", errkind(e), enhex(&msg))
}

fn spec(s: &str) -> Option<SpecVersion> {
    match s {
        "1.0" => Some(SpecVersion::Ocfl1_0),
        "1.1" => Some(SpecVersion::Ocfl1_1),
        _ => None,
    }
}

fn vref(s: &str) -> Result<VersionRef, RocflError> {
    if s == "-" {
        Ok(VersionRef::Head)
    } else {
        Ok(VersionNum::from_str(s)?.into())
    }
}

fn sha256_hex(bytes: &[u8]) -> String {
    let d: String = DigestAlgorithm::Sha256
        .hash_hex(&mut &bytes[..])
        .map(|h| h.to_string())
        .unwrap_or_default();
    d
}

fn vd_json(v: &rocfl::ocfl::VersionDetails) -> Value {
    json!({
        "v": v.version_num.to_string(),
        "user": v.user_name,
        "addr": v.user_address,
        "msg": v.message,
        "created": v.created.to_rfc3339(),
    })
}

impl Hist {
    pub fn new(base: PathBuf) -> Self {
        Hist { dir: base.join("r0"), base, n: 0, repo: None, ext_staging: false, client: 0 }
    }

    fn root(&self) -> PathBuf {
        self.dir.join("root")
    }
    fn staging(&self) -> PathBuf {
        self.dir.join(format!("staging{}", if self.client == 0 { String::new() } else { self.client.to_string() }))
    }
    fn src(&self) -> PathBuf {
        self.dir.join("src")
    }

    fn repo(&self) -> Result<&OcflRepo, RocflError> {
        self.repo.as_ref().ok_or_else(|| RocflError::General("no repo".into()))
    }

    fn open(&mut self) -> Result<(), RocflError> {
        self.repo = None;
        let st = self.staging();
        let staging = if self.ext_staging { Some(st.as_path()) } else { None };
        self.repo = Some(OcflRepo::fs_repo(self.root(), staging)?);
        Ok(())
    }

    pub fn exec(&mut self, op: &str, a: &[&str]) -> String {
        let r = panic::catch_unwind(AssertUnwindSafe(|| self.exec_inner(op, a)));
        match r {
            Ok(Ok(s)) => s,
            Ok(Err(e)) => err(&e),
            Err(p) => {
                let msg = if let Some(s) = p.downcast_ref::<String>() {
                    s.clone()
                } else if let Some(s) = p.downcast_ref::<&str>() {
                    s.to_string()
                } else {
                    String::new()
                };
                let msg: String = msg.chars().take(160).collect();
                format!("panic {}", enhex(&msg))
            }
        }
    }

    fn exec_inner(&mut self, op: &str, a: &[&str]) -> Result<String, RocflError> {
        match op {
            "reset" => {
                self.repo = None;
                let _ = fs::remove_dir_all(&self.dir);
                self.n += 1;
                self.client = 0;
                self.dir = self.base.join(format!("r{}", self.n));
                fs::create_dir_all(self.src())?;
                Ok("ok".into())
            }
            // init <ext name|none> <cfg json hex|-> <spec> <staging default|ext>
            "init" => {
                let layout = if a[0] == "none" {
                    None
                } else {
                    let name = LayoutExtensionName::from_str(a[0])
                        .map_err(|_| RocflError::General("bad layout".into()))?;
                    let cfg = unhex(a[1]);
                    let bytes = if a[1] == "-" { None } else { Some(cfg.as_bytes()) };
                    Some(StorageLayout::new(name, bytes)?)
                };
                self.ext_staging = a[3] == "ext";
                let st = self.staging();
                let staging = if self.ext_staging { Some(st.as_path()) } else { None };
                self.repo = None;
                self.repo = Some(OcflRepo::init_fs_repo(self.root(), staging, spec(a[2]).unwrap(), layout)?);
                Ok("ok".into())
            }
            "open" => {
                self.open()?;
                Ok("ok".into())
            }
            // inits3 <endpoint hex> <bucket> <prefix hex|-> <ext name|none> <cfg json hex|-> <spec>
            // opens3 <endpoint hex> <bucket> <prefix hex|->
            #[cfg(feature = "s3")]
            "inits3" | "opens3" => {
                use rusoto_core::Region;
                let region = Region::Custom { name: "us-east-1".to_string(), endpoint: unhex(a[0]) };
                let prefix = if a[2] == "-" { None } else { Some(unhex(a[2])) };
                self.repo = None;
                fs::create_dir_all(self.staging())?;
                if op == "inits3" {
                    let layout = if a[3] == "none" {
                        None
                    } else {
                        let name = LayoutExtensionName::from_str(a[3])
                            .map_err(|_| RocflError::General("bad layout".into()))?;
                        let cfg = unhex(a[4]);
                        let bytes = if a[4] == "-" { None } else { Some(cfg.as_bytes()) };
                        Some(StorageLayout::new(name, bytes)?)
                    };
                    self.repo = Some(OcflRepo::init_s3_repo(region, a[1], prefix.as_deref(), None, self.staging(), spec(a[5]).unwrap(), layout)?);
                } else {
                    self.repo = Some(OcflRepo::s3_repo(region, a[1], prefix.as_deref(), self.staging(), None)?);
                }
                Ok("ok".into())
            }
            // client <k>: a second rocfl user with its own (external) staging root on the same storage root
            "client" => {
                self.client = a[0].parse().unwrap();
                self.ext_staging = true;
                self.open()?;
                Ok("ok".into())
            }
            // mkfile <relpath hex> <content hex>  |  mkfile <relpath hex> gen:<len>:<seed>
            "mkfile" => {
                let p = self.src().join(unhex(a[0]));
                if let Some(parent) = p.parent() {
                    fs::create_dir_all(parent)?;
                }
                let bytes = content_bytes(a[1]);
                fs::File::create(&p)?.write_all(&bytes)?;
                Ok("ok".into())
            }
            "mkdir" => {
                fs::create_dir_all(self.src().join(unhex(a[0])))?;
                Ok("ok".into())
            }
            // new <id> <alg> <contentdir> <width> <spec|->
            "new" => {
                let alg = DigestAlgorithm::from_str(a[1]).map_err(|_| RocflError::General("bad alg".into()))?;
                self.repo()?.create_object(&unhex(a[0]), spec(a[4]), alg, &unhex(a[2]), a[3].parse().unwrap())?;
                Ok("ok".into())
            }
            // cpx <id> <rec> <dst> <src...>
            "cpx" => {
                let srcs: Vec<PathBuf> = a[3..].iter().map(|s| self.src().join(unhex(s))).collect();
                self.repo()?.copy_files_external(&unhex(a[0]), &srcs, &unhex(a[2]), a[1] == "1")?;
                Ok("ok".into())
            }
            "mvx" => {
                let srcs: Vec<PathBuf> = a[2..].iter().map(|s| self.src().join(unhex(s))).collect();
                self.repo()?.move_files_external(&unhex(a[0]), &srcs, &unhex(a[1]))?;
                Ok("ok".into())
            }
            // cpi <id> <ver|-> <rec> <dst> <src...>
            "cpi" => {
                let srcs: Vec<String> = a[4..].iter().map(|s| unhex(s)).collect();
                self.repo()?.copy_files_internal(&unhex(a[0]), vref(a[1])?, &srcs, &unhex(a[3]), a[2] == "1")?;
                Ok("ok".into())
            }
            "mvi" => {
                let srcs: Vec<String> = a[2..].iter().map(|s| unhex(s)).collect();
                self.repo()?.move_files_internal(&unhex(a[0]), &srcs, &unhex(a[1]))?;
                Ok("ok".into())
            }
            "rm" => {
                let ps: Vec<String> = a[2..].iter().map(|s| unhex(s)).collect();
                self.repo()?.remove_files(&unhex(a[0]), &ps, a[1] == "1")?;
                Ok("ok".into())
            }
            "resetp" => {
                let ps: Vec<String> = a[2..].iter().map(|s| unhex(s)).collect();
                self.repo()?.reset(&unhex(a[0]), &ps, a[1] == "1")?;
                Ok("ok".into())
            }
            "resetall" => {
                self.repo()?.reset_all(&unhex(a[0]))?;
                Ok("ok".into())
            }
            // commit <id> <objroot|-> <user|-> <addr|-> <msg|-> <created rfc3339|-> <pretty>
            "commit" | "upgrade" => {
                let opt = |s: &str| if s == "-" { None } else { Some(unhex(s)) };
                let created: Option<DateTime<Local>> = if a[5] == "-" {
                    None
                } else {
                    Some(DateTime::parse_from_rfc3339(a[5]).unwrap().with_timezone(&Local))
                };
                let meta = CommitMeta::new()
                    .with_user(opt(a[2]), opt(a[3]))?
                    .with_message(opt(a[4]))
                    .with_created(created);
                if op == "commit" {
                    let root = opt(a[1]);
                    self.repo()?.commit(&unhex(a[0]), meta, root.as_deref(), a[6] == "1")?;
                } else {
                    self.repo()?.upgrade_object(&unhex(a[0]), spec(a[1]).unwrap(), meta, a[6] == "1")?;
                }
                Ok("ok".into())
            }
            "upgraderepo" => {
                self.repo()?.upgrade_repo(spec(a[0]).unwrap())?;
                Ok("ok".into())
            }
            "purge" => {
                self.repo()?.purge_object(&unhex(a[0]))?;
                Ok("ok".into())
            }
            // ---------------------------------------------------------------- observations
            // staged <id>  |  ver <id> <vN|->
            "staged" | "ver" => {
                let ov = if op == "staged" {
                    self.repo()?.get_staged_object(&unhex(a[0]))?
                } else {
                    self.repo()?.get_object(&unhex(a[0]), vref(a[1])?)?
                };
                let mut m = BTreeMap::new();
                let root = self.dir.to_string_lossy().to_string();
                for (p, d) in &ov.state {
                    m.insert(
                        p.as_str().to_string(),
                        json!([d.digest.to_string(), d.content_path.as_str(), d.last_update.version_num.to_string(),
                               d.storage_path.replace(&root, "$D")]),
                    );
                }
                Ok(format!(
                    "ok {}",
                    json!({"id": ov.id, "alg": ov.digest_algorithm.to_string(), "version": vd_json(&ov.version_details),
                           "root": ov.object_root.replace(&root, "$D"), "state": m})
                ))
            }
            // cat <id> <vN|-|S> <path>
            "cat" => {
                let mut buf: Vec<u8> = Vec::new();
                let lp = LogicalPath::try_from(unhex(a[2]).as_str())?;
                if a[1] == "S" {
                    self.repo()?.get_staged_object_file(&unhex(a[0]), &lp, &mut buf)?;
                } else {
                    self.repo()?.get_object_file(&unhex(a[0]), &lp, vref(a[1])?, &mut buf)?;
                }
                Ok(format!("ok {}:{}", sha256_hex(&buf), buf.len()))
            }
            // diff <id> <left|-> <right>   |  diffstaged <id>
            "diff" | "diffstaged" => {
                let diffs = if op == "diff" {
                    let left = if a[1] == "-" { None } else { Some(VersionNum::from_str(a[1])?) };
                    self.repo()?.diff(&unhex(a[0]), left, VersionNum::from_str(a[2])?)?
                } else {
                    self.repo()?.diff_staged(&unhex(a[0]))?
                };
                let mut out: Vec<Value> = Vec::new();
                for d in diffs {
                    out.push(match d {
                        Diff::Added(p) => json!(["A", p.as_str()]),
                        Diff::Modified(p) => json!(["M", p.as_str()]),
                        Diff::Deleted(p) => json!(["D", p.as_str()]),
                        Diff::Renamed { original, renamed } => json!(["R",
                            original.iter().map(|p| p.as_str().to_string()).collect::<Vec<_>>(),
                            renamed.iter().map(|p| p.as_str().to_string()).collect::<Vec<_>>()]),
                    });
                }
                out.sort_by_key(|v| v.to_string());
                Ok(format!("ok {}", Value::Array(out)))
            }
            "log" => {
                let vs = self.repo()?.list_object_versions(&unhex(a[0]))?;
                Ok(format!("ok {}", Value::Array(vs.iter().map(vd_json).collect())))
            }
            "flog" => {
                let lp = LogicalPath::try_from(unhex(a[1]).as_str())?;
                let vs = self.repo()?.list_file_versions(&unhex(a[0]), &lp)?;
                Ok(format!("ok {}", Value::Array(vs.iter().map(|v| json!(v.version_num.to_string())).collect())))
            }
            // ls <glob|->  |  lsstaged <glob|->
            "ls" | "lsstaged" => {
                let g = if a[0] == "-" { None } else { Some(unhex(a[0])) };
                let it = if op == "ls" {
                    self.repo()?.list_objects(g.as_deref())?
                } else {
                    self.repo()?.list_staged_objects(g.as_deref())?
                };
                let mut ids = Vec::new();
                let mut errs = 0;
                for r in it {
                    match r {
                        Ok(o) => ids.push(json!([o.id, o.version_details.version_num.to_string()])),
                        Err(_) => errs += 1,
                    }
                }
                ids.sort_by_key(|v| v.to_string());
                Ok(format!("ok {}", json!({"objects": ids, "errors": errs})))
            }
            "info" => {
                let i = self.repo()?.describe_object(&unhex(a[0]))?;
                Ok(format!("ok {}", json!({"spec": i.spec_version, "alg": i.digest_algorithm})))
            }
            "repoinfo" => {
                let i = self.repo()?.describe_repo()?;
                let mut ex = i.extensions.clone();
                ex.sort();
                Ok(format!("ok {}", json!({"spec": i.spec_version, "layout": i.layout, "extensions": ex})))
            }
            // validate <id> <fixity>  |  validateat <path> <fixity>
            "validate" | "validateat" => {
                let r = if op == "validate" {
                    self.repo()?.validate_object(&unhex(a[0]), a[1] == "1")?
                } else {
                    self.repo()?.validate_object_at(&unhex(a[0]), a[1] == "1")?
                };
                let mut e: Vec<String> = r.errors().iter().map(|e| e.code.to_string()).collect();
                let mut w: Vec<String> = r.warnings().iter().map(|e| e.code.to_string()).collect();
                e.sort();
                w.sort();
                Ok(format!("ok {}", json!({"id": r.object_id, "errors": e, "warnings": w})))
            }
            // validaterepo <fixity>
            "validaterepo" => {
                let repo = self.repo()?;
                let mut v = repo.validate_repo(a[0] == "1")?;
                let mut objs = Vec::new();
                let mut fails = 0;
                while let Some(r) = v.next() {
                    match r {
                        Ok(r) => {
                            let mut e: Vec<String> = r.errors().iter().map(|e| e.code.to_string()).collect();
                            e.sort();
                            objs.push(json!([r.object_id, r.storage_path, e]));
                        }
                        Err(_) => fails += 1,
                    }
                }
                objs.sort_by_key(|v| v.to_string());
                let mut re: Vec<String> = v.storage_root_result().errors().iter().map(|e| e.code.to_string()).collect();
                re.sort();
                let mut he: Vec<String> = v.storage_hierarchy_result().errors().iter().map(|e| e.code.to_string()).collect();
                he.sort();
                Ok(format!("ok {}", json!({"root": re, "hierarchy": he, "objects": objs, "failed": fails})))
            }
            // manifest <id> | smanifest <id>: the manifest as written in the (staged) root inventory.json
            "manifest" | "smanifest" | "files" | "sfiles" | "rawinv" | "srawinv" => {
                let staged = op.starts_with('s');
                let ov = if staged {
                    self.repo()?.get_staged_object_details(&unhex(a[0]))?
                } else {
                    self.repo()?.get_object_details(&unhex(a[0]), VersionRef::Head)?
                };
                let root = PathBuf::from(&ov.object_root);
                let bytes = fs::read(root.join("inventory.json"))?;
                let inv: Value = serde_json::from_slice(&bytes).map_err(|e| RocflError::General(e.to_string()))?;
                if op.ends_with("rawinv") {
                    return Ok(format!("ok {}", inv));
                }
                if op.ends_with("manifest") {
                    return Ok(format!("ok {}", inv["manifest"]));
                }
                let cdir = inv["contentDirectory"].as_str().unwrap_or("content").to_string();
                let mut out = BTreeMap::new();
                let mut all = BTreeMap::new();
                walk(&root, &root, &mut all);
                for (p, k) in all {
                    if !k.starts_with("f:") {
                        continue;
                    }
                    let parts: Vec<&str> = p.split('/').collect();
                    if parts.len() >= 3 && parts[0].starts_with('v') && parts[1] == cdir {
                        let b = fs::read(root.join(&p))?;
                        let d = ov.digest_algorithm.hash_hex(&mut &b[..])?;
                        out.insert(p, d.to_string());
                    }
                }
                Ok(format!("ok {}", json!(out)))
            }
            "heads" => {
                let m = match self.repo()?.get_object_details(&unhex(a[0]), VersionRef::Head) {
                    Ok(o) => o.version_details.version_num.to_string(),
                    Err(_) => "-".to_string(),
                };
                let s = match self.repo()?.get_staged_object_details(&unhex(a[0])) {
                    Ok(o) => o.version_details.version_num.to_string(),
                    Err(_) => "-".to_string(),
                };
                Ok(format!("ok main={} staged={}", m, s))
            }
            // tree <root|staging|src|all>: canonical listing of the scratch directory
            "tree" => {
                let base = match a[0] {
                    "root" => self.root(),
                    "staging" => self.staging(),
                    "src" => self.src(),
                    _ => self.dir.clone(),
                };
                let mut out = BTreeMap::new();
                walk(&base, &base, &mut out);
                Ok(format!("ok {}", json!(out)))
            }
            _ => Ok("bad-op".into()),
        }
    }
}

pub fn content_bytes(spec: &str) -> Vec<u8> {
    if let Some(rest) = spec.strip_prefix("gen:") {
        let mut it = rest.split(':');
        let len: usize = it.next().unwrap().parse().unwrap();
        let seed: u64 = it.next().unwrap().parse().unwrap();
        let mut x = seed.wrapping_mul(6364136223846793005).wrapping_add(1442695040888963407);
        let mut v = Vec::with_capacity(len);
        for _ in 0..len {
            x = x.wrapping_mul(6364136223846793005).wrapping_add(1442695040888963407);
            v.push((x >> 33) as u8);
        }
        v
    } else if spec == "-" {
        Vec::new()
    } else {
        hex::decode(spec).unwrap()
    }
}

/// path -> "d" | "f:<sha256>:<len>" | "l" | "o"
fn walk(base: &Path, dir: &Path, out: &mut BTreeMap<String, String>) {
    let rd = match fs::read_dir(dir) {
        Ok(r) => r,
        Err(_) => return,
    };
    for e in rd.flatten() {
        let p = e.path();
        let rel = p.strip_prefix(base).unwrap().to_string_lossy().to_string();
        let md = match fs::symlink_metadata(&p) {
            Ok(m) => m,
            Err(_) => continue,
        };
        if md.file_type().is_symlink() {
            out.insert(rel, "l".into());
        } else if md.is_dir() {
            out.insert(rel.clone(), "d".into());
            walk(base, &p, out);
        } else if md.is_file() {
            let bytes = fs::read(&p).unwrap_or_default();
            out.insert(rel, format!("f:{}:{}", sha256_hex(&bytes), bytes.len()));
        } else {
            out.insert(rel, "o".into());
        }
    }
}
