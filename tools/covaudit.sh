#!/bin/bash
# Which parts of /repo/src do the quick checks execute?  A development aid, not a registered command:
# builds the harness and the rocfl binary with source-based coverage instrumentation (llvm tools of the nightly toolchain,
# scratch directory), runs the quick tier of the given properties (default: all) against them and prints
# the functions of src/ocfl and src/cmd that were never entered, plus per-file line coverage.
# usage: tools/covaudit.sh [C01 C02 ...]      (needs /repo's working tree clean; about 40 minutes for all)
set -u
COV=${VERIF_COVERAGE_DIR:-/var/tmp/rocfl-verif-cov}
rm -rf "$COV"; mkdir -p "$COV/prof"
export VERIF_COVERAGE_DIR="$COV" LLVM_PROFILE_FILE="$COV/prof/p-%8m.profraw"
cd /verif
PROPS=${*:-C01 C02 C03 C04 C05 C06 C07 C08 C09 C10 C11 C12 C13 C14 C15 C16 C17 C18 C19 C20}
for p in $PROPS; do
  ./check "$p" --tier quick > "$COV/$p.log" 2>&1
  tail -1 "$COV/$p.log"
done
BIN=$(dirname "$(rustup +nightly which rustc)")/../lib/rustlib/x86_64-unknown-linux-gnu/bin
"$BIN/llvm-profdata" merge -sparse "$COV"/prof/*.profraw -o "$COV/all.profdata" || exit 1
OBJS=""
for b in "$COV"/target-harness/debug/verif-harness "$COV"/target-s3/debug/verif-harness "$COV"/target-rocfl/debug/rocfl; do
  [ -x "$b" ] && OBJS="$OBJS -object $b"
done
"$BIN/llvm-cov" report $OBJS -instr-profile="$COV/all.profdata" --ignore-filename-regex='(\.cargo|rustc|harness/src)' 2>/dev/null | tee "$COV/report.txt" | tail -40
"$BIN/llvm-cov" report $OBJS -instr-profile="$COV/all.profdata" --ignore-filename-regex='(\.cargo|rustc|harness/src)' --show-functions /repo/src 2>/dev/null > "$COV/functions.txt"
echo "functions never entered:"; awk '$NF ~ /%/ && $(NF-6)+0 > 0 && $(NF-4) == "0.00%" {print $1}' "$COV/functions.txt" | head -100
